"""Positive fixture for R08b: every line below must be recognised by the banned-API matcher on every run."""
import datetime, os, random, tempfile, time, uuid


def f(x):
    a = time.time()
    b = datetime.datetime.now()
    c = random.random()
    d = uuid.uuid4()
    e = id(x)
    g = hash(x)
    h = os.getpid()
    i = tempfile.mkdtemp()
    j = os.environ["HOME"]
    k = os.environ.get("USER")
    return a, b, c, d, e, g, h, i, j, k

import gzip


def g(data):
    return gzip.compress(data)
