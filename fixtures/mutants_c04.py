"""Seeded mutants / benign variants for C04, C07, C14."""
W = "write_font.py"
B = "bitmap_tables.py"
S = "svg.py"
MUTANTS = [
    # ---- C04
    dict(id="c04-fea-own-naming", props=["C04"], expect="R04a",
         edits=[dict(file="features.py", old="        glyphs = [glyph_name(cp) for cp in rgi]", new='        glyphs = ["u%04X" % cp for cp in rgi]')]),
    dict(id="c04-blank-own-naming", props=["C04"], expect="R04a",
         edits=[dict(file=W, old="        glyph = ufo.newGlyph(glyph_name(codepoint))", new='        glyph = ufo.newGlyph("uni%04X" % codepoint)')]),
    dict(id="c04-fea-target-first-cp", props=["C04"], expect="R04a",
         edits=[dict(file="features.py", old="        target = glyph_name(rgi)", new="        target = glyph_name(rgi[0])")]),
    dict(id="c04-unicode-for-sequences", props=["C04"], expect="R04b",
         edits=[dict(file="color_glyph.py", old="        if len(codepoints) == 1:\n            base_glyph.unicode", new="        if len(codepoints) >= 1:\n            base_glyph.unicode")]),
    dict(id="c04-ligature-min-3", props=["C04"], expect="R04b",
         edits=[dict(file="write_fea.py", old="                if len(gm.codepoints) > 1", new="                if len(gm.codepoints) > 2")]),
    dict(id="c04-fea-skip-pairs", props=["C04"], expect="R04b",
         edits=[dict(file="features.py", old="        if len(rgi) == 1:\n            continue", new="        if len(rgi) <= 2:\n            continue")]),
    dict(id="c04-blanks-include-direct", props=["C04"], expect="R04b",
         edits=[dict(file=W, old="    need_blanks = all_codepoints - direct_mapped_codepoints", new="    need_blanks = all_codepoints")]),
    dict(id="c04-space-first", props=["C04"], expect="R04c",
         edits=[dict(file=W, old='    ufo.newGlyph(".notdef")\n    space = ufo.newGlyph(".space")', new='    space = ufo.newGlyph(".space")\n    ufo.newGlyph(".notdef")')]),
    dict(id="c04-space-nbsp", props=["C04"], expect="R04c",
         edits=[dict(file=W, old="    space.unicodes = [0x0020]", new="    space.unicodes = [0x00A0]")]),
    dict(id="c04-notdef-conditional", props=["C04"], expect="R04c",
         edits=[dict(file=W, old="    _draw_notdef(config, ufo)\n", new="    if not config.has_svgs:\n        _draw_notdef(config, ufo)\n")]),
    dict(id="c04-advance-min", props=["C04", "C01"], expect=["R04d", "R01b"],
         edits=[dict(file="color_glyph.py", old="    return max(config.width, round(font_height * view_box.w / view_box.h))", new="    return min(config.width, round(font_height * view_box.w / view_box.h))")]),
    dict(id="c04-advance-always-config", props=["C04", "C01"], expect=["R04d", "R01b"],
         edits=[dict(file="color_glyph.py", old="        if view_box is not None:\n            base_glyph.width = _advance_width(view_box, font_config)", new="        if view_box is not None and font_config.width == 0:\n            base_glyph.width = _advance_width(view_box, font_config)")]),
    dict(id="c04-prefix-underscore-only", props=["C04"], expect="silent",
         edits=[dict(file="glyph.py", old='        name = "g_" + name', new='        name = "_" + name')]),
    dict(id="c04-sep-dot", props=["C04"], expect="error",
         edits=[dict(file="glyph.py", old='    name = "_".join((_name(c) for c in codepoints))', new='    name = "-".join((_name(c) for c in codepoints))')]),
    dict(id="c04-maxlen", props=["C04"], expect="R04e",
         edits=[dict(file="glyph.py", old="_MAX_NAME_LEN = 63", new="_MAX_NAME_LEN = 80")]),
    # ---- C07
    dict(id="c07-post3-always", props=["C07", "C20"], expect=["R07a", "R20b"],
         edits=[dict(file=W, old="        if not config.keep_glyph_names:\n            ttfont[\"post\"].formatType = 3", new="        if True:\n            ttfont[\"post\"].formatType = 3")]),
    dict(id="c07-post3-before-apply", props=["C07"], expect="R07a",
         edits=[dict(file=W, old="        ttfont = util.load_fully(ttfont)\n", new="        ttfont = util.load_fully(ttfont)\n        if not config.keep_glyph_names:\n            ttfont[\"post\"].formatType = 3  # no glyph names\n"),
                dict(file=W, old="        # some formats keep glyph order through to here\n        if not config.keep_glyph_names:\n            ttfont[\"post\"].formatType = 3  # no glyph names\n", new="")]),
    dict(id="c07-names-not-forced", props=["C07"], expect="R07a",
         edits=[dict(file=W, old="    if config.has_svgs and config.has_picosvgs:\n        keep = True\n", new="")]),
    dict(id="c07-empty-docs-kept", props=["C07"], expect="R07c",
         edits=[dict(file=S, old="        if len(root) == 0:\n            continue\n", new="")]),
    dict(id="c07-gradients-shared-across-docs", props=["C07"], expect="R07c",
         edits=[dict(file=S, old="        reuse_cache.gradient_ids = {}  # don't share gradients across groups\n", new="")]),
    dict(id="c07-gradient-id-before-append", props=["C07"], expect="R07c",
         edits=[dict(file=S, old='    gradient = etree.SubElement(svg_defs, "radialGradient")\n    gradient_id = gradient.attrib["id"] = f"g{len(svg_defs)}"', new='    gradient_id = f"g{len(svg_defs)}"\n    gradient = etree.SubElement(svg_defs, "radialGradient")\n    gradient.attrib["id"] = gradient_id')]),
    dict(id="c07-cbdt-unsorted", props=["C07"], expect="R07e",
         edits=[dict(file=B, old="    color_glyphs = sorted(color_glyphs, key=lambda c: c.glyph_id)\n", new="    color_glyphs = list(color_glyphs)\n")]),
    dict(id="c07-cbdt-run-any-increase", props=["C07"], expect="R07e",
         edits=[dict(file=B, old="            and color_glyphs[end].glyph_id == color_glyphs[end - 1].glyph_id + 1", new="            and color_glyphs[end].glyph_id > color_glyphs[end - 1].glyph_id")]),
    dict(id="c07-cbdt-run-overlap", props=["C07"], expect="R07e",
         edits=[dict(file=B, old="        color_glyphs = color_glyphs[end:]", new="        color_glyphs = color_glyphs[end + 1 :]")]),
    dict(id="c07-cbdt-offset-not-advanced", props=["C07"], expect="R07e",
         edits=[dict(file=B, old="        for sub_table in strike.indexSubTables:\n            data_offset = max(sub_table.locations[-1][-1], data_offset)\n", new="")]),
    dict(id="c07-cbdt-names-sorted", props=["C07"], expect="R07e",
         edits=[dict(file=B, old="    index_subtable.names = [ttfont.getGlyphName(c.glyph_id) for c in color_glyphs]", new="    index_subtable.names = sorted(ttfont.getGlyphName(c.glyph_id) for c in color_glyphs)")]),
    # ---- C14
    dict(id="c14-ppem-inverted", props=["C14"], expect="R14a",
         edits=[dict(file=B, old="    return round(config.upem * pixels / funits)", new="    return round(config.upem * funits / pixels)")]),
    dict(id="c14-width-mixed-units", props=["C14"], expect="R14a",
         edits=[dict(file=B, old="    width_funits = max(config.width, width_funits)", new="    width_funits = max(config.width, image_data.size[0])")]),
    dict(id="c14-lineheight-no-upem", props=["C14"], expect="R14a",
         edits=[dict(file=B, old="        line_height = round((ascent + descent) * ppem / float(config.upem))", new="        line_height = round((ascent + descent) * ppem)")]),
    dict(id="c14-xoffset-funits", props=["C14"], expect="R14a",
         edits=[dict(file=B, old="                            _width_in_pixels(config, image_data)\n                            - image_data.size[0]", new="                            config.width\n                            - image_data.size[0]")]),
    dict(id="c14-funits-ascender-only", props=["C14"], expect="R14a",
         edits=[dict(file=B, old="    funits = config.ascender - config.descender\n    return (bitmap_pixel_height, funits)", new="    funits = config.ascender\n    return (bitmap_pixel_height, funits)")]),
    dict(id="c14-sbix-image-of-first", props=["C14"], expect="R14b",
         edits=[dict(file=B, old="        image_data = color_glyph.bitmap\n        metrics = BitmapMetrics.create(config, image_data, strike.ppem)", new="        image_data = color_glyphs[0].bitmap\n        metrics = BitmapMetrics.create(config, image_data, strike.ppem)")]),
    dict(id="c14-cbdt-metrics-first", props=["C14"], expect="R14b",
         edits=[dict(file=B, old="            config, metrics[c.glyph_id], c.bitmap\n        )", new="            config, metrics[color_glyphs[0].glyph_id], c.bitmap\n        )")]),
    dict(id="c14-cbdt-bearing-swapped", props=["C14"], expect="R14b",
         edits=[dict(file=B, old="    bitmap_data.metrics.BearingX = metrics.x_offset\n    bitmap_data.metrics.BearingY = metrics.y_offset", new="    bitmap_data.metrics.BearingX = metrics.y_offset\n    bitmap_data.metrics.BearingY = metrics.x_offset")]),
    dict(id="c14-size-guard-after", props=["C14"], expect="R14c",
         edits=[dict(file=B, old="    # CBDT is a wee bit limited in pixel size\n    raise_if_too_big_for_cbdt(color_glyphs)\n", new=""),
                dict(file=B, old="        cblc.strikes.append(strike)\n        cbdt.strikeData.append(data)\n", new="        cblc.strikes.append(strike)\n        cbdt.strikeData.append(data)\n    raise_if_too_big_for_cbdt(color_glyphs)\n")]),
    dict(id="c14-size-guard-min-side", props=["C14"], expect="R14c",
         edits=[dict(file=B, old="        (c for c in color_glyphs if max(c.bitmap.size) not in _UINT8_RANGE),", new="        (c for c in color_glyphs if min(c.bitmap.size) not in _UINT8_RANGE),")]),
    dict(id="c14-yoffset-assert-dropped", props=["C14"], expect="R14c",
         edits=[dict(file=B, old='        assert metrics.y_offset in _INT8_RANGE, f"y_offset out of bounds: {metrics}"\n', new="")]),
    dict(id="c14-int8-range-wide", props=["C14"], expect="R14c",
         edits=[dict(file=B, old="_INT8_RANGE = range(-128, 127 + 1)", new="_INT8_RANGE = range(-128, 255 + 1)")]),
    dict(id="c14-ppem-from-first", props=["C14"], expect="R14d",
         edits=[dict(file=B, old="    bitmap_pixel_height = only({c.bitmap.size[1] for c in color_glyphs})\n    ppem = _ppem(config, bitmap_pixel_height)\n\n    strike = SbixStrike()", new="    bitmap_pixel_height = color_glyphs[0].bitmap.size[1]\n    ppem = _ppem(config, bitmap_pixel_height)\n\n    strike = SbixStrike()")]),
]

MUTANTS += [
    dict(id="c04-layer-width-space", props=["C04"], expect="R04d",
         edits=[dict(file=W, old="    glyph.width = color_glyph.ufo_glyph.width", new='    glyph.width = ufo[".space"].width')]),
    dict(id="c04-fea-subtable-breaks", props=["C04"], expect="R04a",
         edits=[dict(file="features.py", old="        glyphs = [glyph_name(cp) for cp in rgi]", new='        if len(rules) % 100 == 0:\n            rules.append("  subtable;")\n        glyphs = [glyph_name(cp) for cp in rgi]')]),
    dict(id="c07-copy-cbdt-donor-gids", props=["C07", "C12"], expect="R07e",
         edits=[dict(file="glue_together.py", old="        min_gid = target.getGlyphID(new_order[0])", new="        min_gid = donor.getGlyphID(new_order[0])")]),
    dict(id="c14-sbix-metrics-by-height", props=["C14"], expect="R14a",
         edits=[dict(file=B, old="        metrics = BitmapMetrics.create(config, image_data, strike.ppem)", new="        metrics = BitmapMetrics.create(config, image_data, bitmap_pixel_height)")]),
    dict(id="c14-benign-index-walk", props=["C14", "C07"], expect="silent",
         edits=[dict(file=B, old="""    while color_glyphs:
        # grab the next run w/consecutive gids
        min_gid = color_glyphs[0].glyph_id
        end = 1
        while (
            len(color_glyphs) > end
            and color_glyphs[end].glyph_id == color_glyphs[end - 1].glyph_id + 1
        ):
            end += 1
        color_glyph_run = color_glyphs[:end]
        color_glyphs = color_glyphs[end:]
""", new="""    start = 0
    while start < len(color_glyphs):
        end = start + 1
        while (
            len(color_glyphs) > end
            and color_glyphs[end].glyph_id == color_glyphs[end - 1].glyph_id + 1
        ):
            end += 1
        color_glyph_run = color_glyphs[start:end]
        start = end
""")]),
    dict(id="c05-truncating-quantiser", props=["C05", "C01"], expect="R05c",
         edits=[dict(file=W, old="        int(math.floor(xMin / factor) * factor),", new="        int(xMin / factor) * factor,")]),
]

MUTANTS += [
    dict(id="c14-revert-fix-D10", props=["C14"], expect="R14e",
         edits=[dict(file=B, old="                            - image_data.size[0]", new="                            - config.bitmap_resolution")]),
    dict(id="c14-width-in-pixels-ignores-config", props=["C14"], expect="R14f",
         edits=[dict(file="bitmap_tables.py", old="    width_funits = max(config.width, width_funits)\n", new="")]),
    dict(id="c14-benign-width-in-pixels-px-domain", props=["C14"], expect="silent",
         edits=[dict(file="bitmap_tables.py", old="    width_funits = image_data.size[0] * funits / pixels\n    width_funits = max(config.width, width_funits)\n\n    assert width_funits > 0\n    return round(width_funits * pixels / funits)",
                     new="    width_px = max(config.width * pixels / funits, image_data.size[0])\n    assert width_px > 0\n    return round(width_px)")]),
    dict(id="c02-ensure-groups-filter-singletons", props=["C02", "C04", "C07"], expect=["R02d", "R07c"],
         edits=[dict(file="svg.py", old="    # everything that *isn't* shuffling\n", new="    reuse_groups = tuple(g for g in reuse_groups if len(g) > 1)\n    # everything that *isn't* shuffling\n")]),
    dict(id="c02-rawsvg-strip-style", props=["C02"], expect="R02f",
         edits=[dict(file="svg.py", old='            .remove_attributes(("enable-background",), inplace=True)', new='            .remove_attributes(("enable-background", "style"), inplace=True)')]),
    dict(id="c02-rawsvg-pop-fill", props=["C02"], expect="R02f",
         edits=[dict(file="svg.py", old="        # move all the elements under the new group\n", new="        svg.svg_root.attrib.pop(\"fill\", None)\n        # move all the elements under the new group\n")]),
    dict(id="c03-compile-ttf-remove-overlaps", props=["C03"], expect="R03f",
         edits=[dict(file="write_font.py", old='        ttfont = ufo2ft.compileTTF(ufo, overlapsBackend="pathops")', new='        ttfont = ufo2ft.compileTTF(ufo, removeOverlaps=True, overlapsBackend="pathops")')]),
    dict(id="c03-benign-remove-overlaps-false", props=["C03"], expect="silent",
         edits=[dict(file="write_font.py", old='        ttfont = ufo2ft.compileTTF(ufo, overlapsBackend="pathops")', new='        ttfont = ufo2ft.compileTTF(ufo, removeOverlaps=False, overlapsBackend="pathops")')]),
    dict(id="c14-revert-fix-D11", props=["C14"], expect="R14g",
         edits=[dict(file="bitmap_tables.py", old="round(line_ascent - 0.5 * (line_height - image_data.size[1])),", new="round(line_ascent - 0.5 * (line_height - config.bitmap_resolution)),")]),
    dict(id="c14-y-offset-uses-width", props=["C14"], expect="R14g",
         edits=[dict(file="bitmap_tables.py", old="round(line_ascent - 0.5 * (line_height - image_data.size[1])),", new="round(line_ascent - 0.5 * (line_height - image_data.size[0])),")]),
]
