"""Seeded mutants / benign variants for C11."""
R = "reorder_glyphs.py"
MUTANTS = [
    dict(id="c11-drop-rule", props=["C11"], expect="R11a",
         edits=[dict(file=R, old='    (ot.CursivePos, 1): [ReorderCoverage(parallel_list_attr="EntryExitRecord")],\n', new="")]),
    dict(id="c11-drop-parallel", props=["C11"], expect="R11a",
         edits=[dict(file=R, old='(ot.PairPos, 1): [ReorderCoverage(parallel_list_attr="PairSet")]', new='(ot.PairPos, 1): [ReorderCoverage()]')]),
    dict(id="c11-mispair-mark", props=["C11"], expect="R11a",
         edits=[dict(file=R, old='coverage_attr="BaseCoverage", parallel_list_attr="BaseArray.BaseRecord"',
                     new='coverage_attr="BaseCoverage", parallel_list_attr="MarkArray.MarkRecord"')]),
    dict(id="c11-wrong-format", props=["C11"], expect="R11a",
         edits=[dict(file=R, old='(ot.SinglePos, 2): [ReorderCoverage(parallel_list_attr="Value")]', new='(ot.SinglePos, 3): [ReorderCoverage(parallel_list_attr="Value")]')]),
    dict(id="c11-drop-lookahead", props=["C11"], expect="R11a",
         edits=[dict(file=R, old='        ReorderCoverage(parallel_list_attr="Substitute"),\n        ReorderCoverage(coverage_attr="BacktrackCoverage"),\n        ReorderCoverage(coverage_attr="LookAheadCoverage"),',
                     new='        ReorderCoverage(parallel_list_attr="Substitute"),\n        ReorderCoverage(coverage_attr="BacktrackCoverage"),')]),
    dict(id="c11-drop-pairset-list", props=["C11"], expect="R11a",
         edits=[dict(file=R, old='    (ot.PairSet, None): [ReorderList("PairValueRecord", key="SecondGlyph")],\n', new="")]),
    dict(id="c11-list-wrong-key", props=["C11"], expect="R11a",
         edits=[dict(file=R, old='ReorderList("PairValueRecord", key="SecondGlyph")', new='ReorderList("PairValueRecord", key="Value1")')]),
    dict(id="c11-default-coverage-attr", props=["C11"], expect="R11a",
         edits=[dict(file=R, old='_COVERAGE_ATTR = "Coverage"', new='_COVERAGE_ATTR = "coverage"')]),
    dict(id="c11-drop-container", props=["C11"], expect="R11b",
         edits=[dict(file=R, old='coverage_containers = {"GDEF", "GPOS", "GSUB", "MATH"}', new='coverage_containers = {"GPOS", "GSUB", "MATH"}')]),
    dict(id="c11-traverse-before-setorder", props=["C11"], expect="R11b",
         edits=[dict(file=R, old="    font.setGlyphOrder(new_glyph_order)\n\n", new=""),
                dict(file=R, old="                    reorder.apply(font, value)\n", new="                    reorder.apply(font, value)\n    font.setGlyphOrder(new_glyph_order)\n")]),
    dict(id="c11-traverse-filter", props=["C11"], expect="R11b",
         edits=[dict(file="util.py", old="        for subtable_entry in current.iterSubTables():\n            new_entries.append(path + (subtable_entry,))",
                     new="        for subtable_entry in current.iterSubTables():\n            if subtable_entry.index:\n                continue\n            new_entries.append(path + (subtable_entry,))")]),
    dict(id="c11-drop-require-loaded", props=["C11"], expect="R11c",
         edits=[dict(file=R, old="    require_fully_loaded(font)\n", new="")]),
    dict(id="c11-caller-not-loaded", props=["C11"], expect="R11c",
         edits=[dict(file="write_font.py", old="        ttfont = util.load_fully(ttfont)\n", new="")]),
    dict(id="c11-glue-lazy", props=["C11"], expect="R11c",
         edits=[dict(file="glue_together.py", old="    target = load_fully(Path(FLAGS.target_font))", new="    target = ttLib.TTFont(FLAGS.target_font)")]),
    dict(id="c11-drop-set-check", props=["C11"], expect="R11d",
         edits=[dict(file=R, old="    if set(old_glyph_order) != set(new_glyph_order):", new="    if False:")]),
    dict(id="c11-benign-sorted-tags", props=["C11"], expect="silent",
         edits=[dict(file=R, old="    for tag in coverage_containers:", new="    for tag in sorted(coverage_containers):")]),
    dict(id="c11-benign-reorder-dict", props=["C11"], expect="silent",
         edits=[dict(file=R, old='    (ot.SinglePos, 1): [ReorderCoverage()],\n    (ot.SinglePos, 2): [ReorderCoverage(parallel_list_attr="Value")],\n',
                     new='    (ot.SinglePos, 2): [ReorderCoverage(parallel_list_attr="Value")],\n    (ot.SinglePos, 1): [ReorderCoverage()],\n')]),
    dict(id="c11-benign-explicit-cov", props=["C11"], expect="silent",
         edits=[dict(file=R, old='(ot.PairPos, 2): [ReorderCoverage()]', new='(ot.PairPos, 2): [ReorderCoverage(coverage_attr="Coverage")]')]),
]

MUTANTS += [
    dict(id="c11-sorts-copy", props=["C11", "C12"], expect="R11e",
         edits=[dict(file=R, old="                parallel_list = _get_dotted_attr(value, self.parallel_list_attr)\n", new="                parallel_list = list(_get_dotted_attr(value, self.parallel_list_attr))\n")]),
    dict(id="c11-sort-key-parallel", props=["C11"], expect="R11e",
         edits=[dict(file=R, old="            key=lambda t: get_glyph_id(t[0]),", new="            key=lambda t: t[0],")]),
    dict(id="c11-not-in-place", props=["C11"], expect="R11e",
         edits=[dict(file=R, old="        parallel_list[:] = sorted_parallel_list", new="        parallel_list = sorted_parallel_list")]),
    dict(id="c11-argsort-inverse", props=["C11"], expect="R11e",
         edits=[dict(file=R, old="""    if parallel_list:
        reordered = sorted(
            ((g, e) for g, e in zip(glyphs, parallel_list)),
            key=lambda t: get_glyph_id(t[0]),
        )
        sorted_glyphs, sorted_parallel_list = map(list, zip(*reordered))
        parallel_list[:] = sorted_parallel_list
    else:
        sorted_glyphs = sorted(glyphs, key=get_glyph_id)

    glyphs[:] = sorted_glyphs""", new="""    gids = [get_glyph_id(g) for g in glyphs]
    order = sorted(range(len(glyphs)), key=gids.__getitem__)
    if parallel_list:
        entries = list(parallel_list)
        for src, dst in enumerate(order):
            parallel_list[dst] = entries[src]
    glyphs[:] = [glyphs[i] for i in order]""")]),
    dict(id="c11-benign-argsort-gather", props=["C11"], expect="silent",
         edits=[dict(file=R, old="""    if parallel_list:
        reordered = sorted(
            ((g, e) for g, e in zip(glyphs, parallel_list)),
            key=lambda t: get_glyph_id(t[0]),
        )
        sorted_glyphs, sorted_parallel_list = map(list, zip(*reordered))
        parallel_list[:] = sorted_parallel_list
    else:
        sorted_glyphs = sorted(glyphs, key=get_glyph_id)

    glyphs[:] = sorted_glyphs""", new="""    gids = [get_glyph_id(g) for g in glyphs]
    order = sorted(range(len(glyphs)), key=gids.__getitem__)
    if parallel_list:
        entries = list(parallel_list)
        for dst, src in enumerate(order):
            parallel_list[dst] = entries[src]
    glyphs[:] = [glyphs[i] for i in order]""")]),
    dict(id="c11-break-in-rule-loop", props=["C11", "C12"], expect="R11f",
         edits=[dict(file="reorder_glyphs.py", old="                    reorder.apply(font, value)", new="                    reorder.apply(font, value)\n                    break")]),
    dict(id="c11-return-after-first-table", props=["C11"], expect="R11f",
         edits=[dict(file="reorder_glyphs.py", old="                for reorder in _REORDER_RULES.get(reorder_key, []):\n                    reorder.apply(font, value)", new="                for reorder in _REORDER_RULES.get(reorder_key, []):\n                    reorder.apply(font, value)\n            return")]),
    dict(id="c11-benign-continue-trivial-coverage", props=["C11", "C12"], expect="silent",
         edits=[dict(file="reorder_glyphs.py", old="            for coverage_entry in coverage:\n", new="            for coverage_entry in coverage:\n                if len(coverage_entry.glyphs) < 2:\n                    continue\n")]),
    dict(id="c11-caller-sets-glyph-order", props=["C11", "C12"], expect="R11g",
         edits=[dict(file="glue_together.py", old="    reorder_glyphs(target, new_glyph_order)", new="    target.setGlyphOrder(new_glyph_order)\n    reorder_glyphs(target, new_glyph_order)")]),
    dict(id="c11-benign-early-exit-same-order", props=["C11", "C12"], expect="silent",
         edits=[dict(file="reorder_glyphs.py", old="    old_glyph_order = font.getGlyphOrder()\n", new="    old_glyph_order = font.getGlyphOrder()\n    if list(new_glyph_order) == list(old_glyph_order):\n        return\n")]),
]
