"""Seeded mutants / benign variants for C13."""
C = "colr_to_svg.py"
P = "paint.py"
MUTANTS = [
    dict(id="c13-font-to-vbox-not-inverted", props=["C13"], expect="R13a",
         edits=[dict(file=C, old="        view_box, ascender, descender, width, Affine2D.identity()\n    ).inverse()", new="        view_box, ascender, descender, width, Affine2D.identity()\n    )")]),
    dict(id="c13-transform-matmul-order", props=["C13"], expect="R13a",
         edits=[dict(file=C, old="        transform @= paint.gettransform()", new="        transform = paint.gettransform() @ transform")]),
    dict(id="c13-transform-not-reset", props=["C13"], expect="R13a",
         edits=[dict(file=C, old="        transform = _apply_transform(transform, font_to_vbox, svg_path)\n", new="        _apply_transform(transform, font_to_vbox, svg_path)\n")]),
    dict(id="c13-apply-transform-returns-input", props=["C13"], expect="R13a",
         edits=[dict(file=C, old="    # https://github.com/googlefonts/nanoemoji/issues/334\n    return Affine2D.identity()", new="    # https://github.com/googlefonts/nanoemoji/issues/334\n    return transform")]),
    dict(id="c13-apply-transform-conj-swapped", props=["C13"], expect="R13a",
         edits=[dict(file=C, old="        (font_to_vbox.inverse(), transform, font_to_vbox)", new="        (font_to_vbox, transform, font_to_vbox.inverse())")]),
    dict(id="c13-gradient-coord-order", props=["C13"], expect="R13a",
         edits=[dict(file=C, old="    coord_transform = Affine2D.compose_ltr((transform, font_to_vbox))", new="    coord_transform = Affine2D.compose_ltr((font_to_vbox, transform))")]),
    dict(id="c13-gradient-ignores-transform", props=["C13"], expect="R13a",
         edits=[dict(file=C, old="    coord_transform = Affine2D.compose_ltr((transform, font_to_vbox))", new="    coord_transform = font_to_vbox")]),
    dict(id="c13-radial-remaining-dropped", props=["C13"], expect="R13a",
         edits=[dict(file=C, old="        svg_defs, svg_path, paint, reuse_cache, transform=remaining_transform\n", new="        svg_defs, svg_path, paint, reuse_cache\n")]),
    dict(id="c13-outline-untransformed", props=["C13"], expect="R13a",
         edits=[dict(file=C, old="    transform_pen = transformPen.TransformPen(svg_pen, font_to_vbox)", new="    transform_pen = transformPen.TransformPen(svg_pen, font_to_vbox.inverse())")]),
    dict(id="c13-colrglyph-transform-not-reset", props=["C13"], expect="R13a",
         edits=[dict(file=C, old="            transform = _apply_transform(transform, font_to_vbox, el)", new="            _apply_transform(transform, font_to_vbox, el)")]),
    dict(id="c13-region-metrics", props=["C13"], expect="R13a",
         edits=[dict(file=C, old="    descender = -(glyph_region.h - ascender)", new="    descender = -glyph_region.h")]),
    dict(id="c13-no-terminal-raise", props=["C13"], expect="R13b",
         edits=[dict(file=C, old="    else:\n        raise NotImplementedError(ot_paint.Format)", new="    else:\n        logging.debug('skipping %s', ot_paint.Format)")]),
    dict(id="c13-colrglyph-branch-removed", props=["C13"], expect="R13b",
         edits=[dict(file=C, old="""    elif ot_paint.Format == PaintColrGlyph.format:
        el = parent_el
        if transform != Affine2D.identity():
            el = etree.SubElement(parent_el, "g")
            # Transform only occurs with reuse; we could wire up use. But for now ... not.
            transform = _apply_transform(transform, font_to_vbox, el)
        base_rec = only(
            r
            for r in ttfont["COLR"].table.BaseGlyphList.BaseGlyphPaintRecord
            if r.BaseGlyph == ot_paint.Glyph
        )
        descend(el, base_rec.Paint)

""", new="")]),
    dict(id="c13-is-transform-narrow", props=["C13"], expect="R13b",
         edits=[dict(file=P, old="        <= ot.PaintFormat.PaintVarSkewAroundCenter\n    )", new="        <= ot.PaintFormat.PaintVarScaleUniformAroundCenter\n    )")]),
    dict(id="c13-skew-no-gettransform", props=["C13", "C16"], expect=["R13b", "R16c"],
         edits=[dict(file=P, old="    def gettransform(self) -> Affine2D:\n        return Affine2D.identity().skew(\n            -radians(self.xSkewAngle), radians(self.ySkewAngle)\n        )\n\n\n@dataclasses", new="\n@dataclasses")]),
    dict(id="c13-composite-silent", props=["C13"], expect="R13b",
         edits=[dict(file=C, old='        logging.warning(\n            "PaintComposite => SVG not supported at the moment; "\n            "only BackdropPaint is kept."\n        )\n', new="")]),
    dict(id="c13-group-opacity-any-color", props=["C13"], expect="R13b",
         edits=[dict(file=C, old="            if color[:3] == (0, 0, 0):\n", new="            if True:\n")]),
    dict(id="c13-transform-converter-order", props=["C13"], expect="R13c",
         edits=[dict(file=P, old='"transform": ("Transform", lambda t: (t.xx, t.yx, t.xy, t.yy, t.dx, t.dy)),', new='"transform": ("Transform", lambda t: (t.xx, t.xy, t.yx, t.yy, t.dx, t.dy)),')]),
    dict(id="c13-center-field-names", props=["C13"], expect="R13c",
         edits=[dict(file=P, old='    "center": (("centerX", "centerY"), _identity),', new='    "center": (("centreX", "centreY"), _identity),')]),
    dict(id="c13-rotate-field-renamed", props=["C13", "C16"], expect=["R13c", "R16c"],
         edits=[dict(file=P, old="class PaintRotate(_BasePaintTransform):\n    format: ClassVar[int] = int(ot.PaintFormat.PaintRotate)\n    paint: Paint\n    angle: float = 0.0", new="class PaintRotate(_BasePaintTransform):\n    format: ClassVar[int] = int(ot.PaintFormat.PaintRotate)\n    paint: Paint\n    degrees: float = 0.0"),
                dict(file=P, old='            "angle": self.angle,\n        }\n        return paint\n\n    def children(self) -> Iterable[Paint]:\n        return (self.paint,)\n\n    def gettransform(self) -> Affine2D:\n        return Affine2D.identity().rotate(radians(self.angle))',
                     new='            "angle": self.degrees,\n        }\n        return paint\n\n    def children(self) -> Iterable[Paint]:\n        return (self.paint,)\n\n    def gettransform(self) -> Affine2D:\n        return Affine2D.identity().rotate(radians(self.degrees))')]),
    dict(id="c13-foreground-index", props=["C13"], expect="R13d",
         edits=[dict(file=C, old="_FOREGROUND_COLOR_INDEX = 0xFFFF", new="_FOREGROUND_COLOR_INDEX = 0xFFFE")]),
    dict(id="c13-palette-index-always", props=["C13"], expect="R13d",
         edits=[dict(file=C, old='        palette_index=palette_index if len(ttfont["CPAL"].palettes) > 1 else None,', new="        palette_index=palette_index,")]),
    dict(id="c13-alpha-ignores-cpal", props=["C13"], expect="R13d",
         edits=[dict(file=C, old="        alpha=alpha * cpal_color.alpha / 255,", new="        alpha=alpha,")]),
    dict(id="c13-v0-reversed", props=["C13"], expect="R13d",
         edits=[dict(file=C, old='    for glyph_layer in ttfont["COLR"].ColorLayers[glyph_name]:', new='    for glyph_layer in reversed(ttfont["COLR"].ColorLayers[glyph_name]):')]),
    dict(id="c13-radial-c0-c1", props=["C13"], expect="R13d",
         edits=[dict(file=C, old="            c0=Point(ot_paint.x0, ot_paint.y0),\n            c1=Point(ot_paint.x1, ot_paint.y1),", new="            c0=Point(ot_paint.x1, ot_paint.y1),\n            c1=Point(ot_paint.x0, ot_paint.y0),")]),
    dict(id="c13-benign-compose-matmul", props=["C13"], expect="silent",
         edits=[dict(file=C, old="    coord_transform = Affine2D.compose_ltr((transform, font_to_vbox))", new="    coord_transform = font_to_vbox @ transform")]),
    dict(id="c13-radial-c1-not-mapped", props=["C13", "C02"], expect="R13f",
         edits=[dict(file="svg.py", old="            c1=affine.map_point(paint.c1),\n", new="")]),
    dict(id="c13-radial-r1-unscaled", props=["C13"], expect="R13f",
         edits=[dict(file="svg.py", old="            r1=affine.map_vector((paint.r1, 0)).x,", new="            r1=paint.r1,")]),
    dict(id="c13-linear-p2-unmapped-in-ir", props=["C13", "C01"], expect="R13f",
         edits=[dict(file="paint.py", old="            p2=transform.map_point(self.p2),\n        )\n        if check_overflows:", new="        )\n        if check_overflows:")]),
    dict(id="c13-benign-map-points-via-temps", props=["C13", "C02"], expect="silent",
         edits=[dict(file="svg.py", old="        return dataclasses.replace(\n            paint,\n            p0=affine.map_point(paint.p0),\n            p1=affine.map_point(paint.p1),\n            p2=affine.map_point(paint.p2),\n        )",
                     new="        q0 = affine.map_point(paint.p0)\n        q1 = affine.map_point(paint.p1)\n        q2 = affine.map_point(paint.p2)\n        return dataclasses.replace(paint, p0=q0, p1=q1, p2=q2)")]),
]
