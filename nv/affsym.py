"""Algebraic normal form of closed-form affine expressions (no paths, no solver): a 2x3 matrix whose entries are
polynomials over field symbols and the opaque atoms cos(x) / sin(x) / tan(x).

Used to compare sibling implementations of one interface: nanoemoji's Paint*.gettransform against fontTools'
Paint.getTransform (parsed from otTables.py as the specification). Both libraries' chain methods follow the same
convention X.op(args) = X x M(args):
    translate(tx, ty=0) = (1,0,0,1,tx,ty)      scale(sx, sy=sx) = (sx,0,0,sy,0,0)
    rotate(a)           = (cos a, sin a, -sin a, cos a, 0, 0)   [picosvg: rotate(a, cx, cy) = translate(c) . R . translate(-c)]
    skew(x, y)          = (1, tan y, tan x, 1, 0, 0)            matrix(a..f) / Affine2D(a..f) / Transform(a..f) literal
Anything outside these idioms raises Unfoldable (-> ANALYSIS-ERROR, never a verdict)."""
from __future__ import annotations

import ast
from fractions import Fraction
from typing import Dict, List, Optional, Tuple

from .fold import Unfoldable
from .model import FuncInfo, Model, norm, short

Mono = Tuple[Tuple[str, int], ...]
Poly = Dict[Mono, Fraction]


def P(c=0) -> Poly:
    return {(): Fraction(c)} if c else {}


def sym(name: str) -> Poly:
    return {((name, 1),): Fraction(1)}


def add(a: Poly, b: Poly, sign=1) -> Poly:
    out = dict(a)
    for m, c in b.items():
        out[m] = out.get(m, Fraction(0)) + sign * c
        if out[m] == 0:
            del out[m]
    return out


def mul(a: Poly, b: Poly) -> Poly:
    out: Poly = {}
    for m1, c1 in a.items():
        for m2, c2 in b.items():
            d: Dict[str, int] = {}
            for s, p in m1 + m2:
                d[s] = d.get(s, 0) + p
            m = tuple(sorted(d.items()))
            out[m] = out.get(m, Fraction(0)) + c1 * c2
            if out[m] == 0:
                del out[m]
    return out


def neg(a: Poly) -> Poly:
    return {m: -c for m, c in a.items()}


def show(p: Poly) -> str:
    if not p:
        return "0"
    parts = []
    for m, c in sorted(p.items()):
        mon = "*".join(s if k == 1 else f"{s}^{k}" for s, k in m)
        parts.append((f"{c}" if not mon else (("" if c == 1 else "-" if c == -1 else f"{c}*") + mon)))
    return " + ".join(parts).replace("+ -", "- ")


Mat = Tuple[Poly, Poly, Poly, Poly, Poly, Poly]
IDENT: Mat = (P(1), P(0), P(0), P(1), P(0), P(0))


def matmul(x: Mat, y: Mat) -> Mat:
    a1, b1, c1, d1, e1, f1 = x
    a2, b2, c2, d2, e2, f2 = y
    return (add(mul(a1, a2), mul(c1, b2)), add(mul(b1, a2), mul(d1, b2)), add(mul(a1, c2), mul(c1, d2)), add(mul(b1, c2), mul(d1, d2)),
            add(add(mul(a1, e2), mul(c1, f2)), e1), add(add(mul(b1, e2), mul(d1, f2)), f1))


class AffEval:
    def __init__(self, model: Optional[Model], fi: Optional[FuncInfo], field_map=None, selfname="self"):
        self.model = model
        self.fi = fi
        self.selfname = selfname
        self.field_map = field_map or (lambda s: s)
        self.env: Dict[str, object] = {}

    # ---- scalars ----
    def angle(self, e) -> Tuple[int, str]:
        """(sign, name) of an angle expression: radians(x), -radians(x), radians(-x)."""
        if isinstance(e, ast.UnaryOp) and isinstance(e.op, ast.USub):
            s, n = self.angle(e.operand)
            return -s, n
        if isinstance(e, ast.Call) and norm(e.func) in ("radians", "math.radians") and len(e.args) == 1:
            return self.angle_inner(e.args[0])
        if isinstance(e, ast.Name) and e.id in self.env and isinstance(self.env[e.id], tuple) and self.env[e.id][0] == "angle":
            return self.env[e.id][1], self.env[e.id][2]
        raise Unfoldable(f"angle expression {short(e)}")

    def angle_inner(self, e) -> Tuple[int, str]:
        if isinstance(e, ast.UnaryOp) and isinstance(e.op, ast.USub):
            s, n = self.angle_inner(e.operand)
            return -s, n
        p = self.scalar(e)
        if len(p) == 1:
            (m, c), = p.items()
            if len(m) == 1 and m[0][1] == 1 and c in (1, -1):
                return int(c), m[0][0]
        raise Unfoldable(f"angle argument {short(e)}")

    def scalar(self, e) -> Poly:
        if isinstance(e, ast.Constant) and isinstance(e.value, (int, float)) and not isinstance(e.value, bool):
            return P(Fraction(str(e.value)))
        if isinstance(e, ast.UnaryOp) and isinstance(e.op, ast.USub):
            return neg(self.scalar(e.operand))
        if isinstance(e, ast.BinOp):
            if isinstance(e.op, ast.Add):
                return add(self.scalar(e.left), self.scalar(e.right))
            if isinstance(e.op, ast.Sub):
                return add(self.scalar(e.left), self.scalar(e.right), -1)
            if isinstance(e.op, ast.Mult):
                return mul(self.scalar(e.left), self.scalar(e.right))
            raise Unfoldable(f"operator in {short(e)}")
        if isinstance(e, ast.Call) and norm(e.func) in ("cos", "sin", "tan", "math.cos", "math.sin", "math.tan") and len(e.args) == 1:
            s, n = self.angle(e.args[0])
            f = norm(e.func).split(".")[-1]
            base = sym(f"{f}({n})")
            return base if (s > 0 or f == "cos") else neg(base)
        if isinstance(e, ast.Name):
            v = self.env.get(e.id)
            if isinstance(v, dict):
                return v
            raise Unfoldable(f"unknown scalar {e.id}")
        t = norm(e)
        if t.startswith(self.selfname + "."):
            return sym(self.field_map(t[len(self.selfname) + 1:]))
        if isinstance(e, ast.Subscript) and isinstance(e.value, ast.Name) and isinstance(self.env.get(e.value.id), tuple) and self.env[e.value.id][0] == "vec":
            return sym(f"{self.env[e.value.id][1]}[{norm(e.slice)}]")
        if isinstance(e, ast.Attribute) and isinstance(e.value, ast.Name) and isinstance(self.env.get(e.value.id), tuple) and self.env[e.value.id][0] == "vec":
            return sym(self.field_map(f"{self.env[e.value.id][1]}.{e.attr}"))
        raise Unfoldable(f"scalar {short(e)}")

    # ---- matrices ----
    def lit(self, args) -> Mat:
        if len(args) == 1 and isinstance(args[0], ast.Starred):
            base = norm(args[0].value)
            if base.startswith(self.selfname + "."):
                f = self.field_map(base[len(self.selfname) + 1:])
                return tuple(sym(f"{f}[{i}]") for i in range(6))
            raise Unfoldable(f"starred literal {base}")
        if len(args) != 6:
            raise Unfoldable("affine literal arity")
        return tuple(self.scalar(a) for a in args)

    def op(self, name: str, args, kwargs) -> Mat:
        if name == "translate":
            tx = self.scalar(args[0])
            ty = self.scalar(args[1]) if len(args) > 1 else P(0)
            return (P(1), P(0), P(0), P(1), tx, ty)
        if name == "scale":
            sx = self.scalar(args[0])
            sy = self.scalar(args[1]) if len(args) > 1 else sx
            return (sx, P(0), P(0), sy, P(0), P(0))
        if name == "rotate":
            s, n = self.angle(args[0])
            c, si = sym(f"cos({n})"), (sym(f"sin({n})") if s > 0 else neg(sym(f"sin({n})")))
            r: Mat = (c, si, neg(si), c, P(0), P(0))
            if len(args) == 3:
                cx, cy = self.scalar(args[1]), self.scalar(args[2])
                t1: Mat = (P(1), P(0), P(0), P(1), cx, cy)
                t2: Mat = (P(1), P(0), P(0), P(1), neg(cx), neg(cy))
                return matmul(matmul(t1, r), t2)
            return r
        if name == "skew":
            sx, nx = self.angle(args[0])
            sy, ny = self.angle(args[1])
            tx = sym(f"tan({nx})") if sx > 0 else neg(sym(f"tan({nx})"))
            ty = sym(f"tan({ny})") if sy > 0 else neg(sym(f"tan({ny})"))
            return (P(1), ty, tx, P(1), P(0), P(0))
        if name == "skewx":
            sx, nx = self.angle(args[0])
            tx = sym(f"tan({nx})") if sx > 0 else neg(sym(f"tan({nx})"))
            return (P(1), P(0), tx, P(1), P(0), P(0))
        if name == "skewy":
            sy, ny = self.angle(args[0])
            ty = sym(f"tan({ny})") if sy > 0 else neg(sym(f"tan({ny})"))
            return (P(1), ty, P(0), P(1), P(0), P(0))
        if name == "matrix":
            return self.lit(args)
        raise Unfoldable(f"affine method {name}")

    def mat(self, e) -> Mat:
        if isinstance(e, ast.Name) and isinstance(self.env.get(e.id), tuple) and len(self.env[e.id]) == 6:
            return self.env[e.id]
        if isinstance(e, ast.Name) and e.id == "Identity":
            return IDENT
        if isinstance(e, ast.Call):
            fn = norm(e.func)
            if fn in ("Affine2D.identity",):
                return IDENT
            if fn in ("Affine2D", "Transform"):
                return self.lit(e.args)
            if isinstance(e.func, ast.Attribute) and e.func.attr in ("translate", "scale", "rotate", "skew", "skewx", "skewy", "matrix"):
                return matmul(self.mat(e.func.value), self.op(e.func.attr, e.args, e.keywords))
            if fn in ("Affine2D.compose_ltr",) and e.args and isinstance(e.args[0], (ast.Tuple, ast.List)):
                m = IDENT
                for x in e.args[0].elts:
                    m = matmul(self.mat(x), m)
                return m
            # a module-level helper: inline it
            if self.model is not None and self.fi is not None:
                callee = self.model.resolve_call(self.fi, e)
                if callee is not None and not callee.cls:
                    sub = AffEval(self.model, callee, self.field_map, self.selfname)
                    for p, a in zip(callee.params, e.args):
                        t = norm(a)
                        if t.startswith(self.selfname + "."):
                            sub.env[p] = ("vec", t[len(self.selfname) + 1:]) if self._is_vector_field(t) else sym(self.field_map(t[len(self.selfname) + 1:]))
                        else:
                            sub.env[p] = self.scalar(a)
                    return sub.run(callee.body)
        if isinstance(e, ast.BinOp) and isinstance(e.op, ast.MatMult):
            return matmul(self.mat(e.left), self.mat(e.right))
        raise Unfoldable(f"affine expression {short(e)}")

    def _is_vector_field(self, text: str) -> bool:
        return text.endswith("center")

    def run(self, body) -> Mat:
        for st in body:
            if isinstance(st, ast.Expr) and isinstance(st.value, ast.Constant):
                continue
            if isinstance(st, ast.Assign) and len(st.targets) == 1:
                t = st.targets[0]
                if isinstance(t, ast.Tuple) and isinstance(st.value, ast.Name) and isinstance(self.env.get(st.value.id), tuple) and self.env[st.value.id][0] == "vec":
                    for i, x in enumerate(t.elts):
                        self.env[x.id] = sym(f"{self.env[st.value.id][1]}[{i}]")
                    continue
                if isinstance(t, ast.Tuple) and isinstance(st.value, ast.Tuple) and len(t.elts) == len(st.value.elts) and all(isinstance(x, ast.Name) for x in t.elts):
                    vals = [self.scalar(v) for v in st.value.elts]  # right-hand side is evaluated before any target is bound
                    for x, v in zip(t.elts, vals):
                        self.env[x.id] = v
                    continue
                if isinstance(t, ast.Tuple) and norm(st.value).startswith(self.selfname + "."):
                    base = norm(st.value)[len(self.selfname) + 1:]
                    for i, x in enumerate(t.elts):
                        self.env[x.id] = sym(f"{self.field_map(base)}[{i}]")
                    continue
                if isinstance(t, ast.Name) and norm(st.value) in (f"{self.selfname}.Transform", f"{self.selfname}.center"):
                    self.env[t.id] = ("vec", norm(st.value)[len(self.selfname) + 1:])
                    continue
                if isinstance(t, ast.Name):
                    try:
                        self.env[t.id] = self.scalar(st.value)
                    except Unfoldable:
                        try:
                            self.env[t.id] = self.mat(st.value)
                        except Unfoldable:
                            s, n = self.angle(st.value)
                            self.env[t.id] = ("angle", s, n)
                    continue
                raise Unfoldable(f"statement {short(st)}")
            if isinstance(st, ast.Return):
                return self.mat(st.value)
            raise Unfoldable(f"statement {short(st)}")
        raise Unfoldable("no return")


def same(a: Mat, b: Mat) -> Optional[str]:
    names = "abcdef"
    for n, x, y in zip(names, a, b):
        if x != y:
            return f"entry {n}: {show(x)}  vs  {show(y)}"
    return None
