"""Instance-complete mutation operators (thorough tier): one mutant per rule instance, computed on the syntax tree.

Each operator enumerates every site of its kind in the tree under test, rewrites exactly one site, re-prints the module with
ast.unparse into a scratch copy under $TMPDIR and runs the rules of the properties the operator targets. The kill ratio
per operator is reported in the evidence; a ratio below the one confirmed on the pinned tree fails the self-test (exit 2).
Survivors are listed by site so that blind spots stay visible."""
from __future__ import annotations

import ast
import copy
import shutil
import tempfile
from concurrent.futures import ProcessPoolExecutor
from pathlib import Path
from typing import Callable, Dict, Iterator, List, Optional, Tuple

from .model import norm, short

GEOM_MODULES = ["color_glyph", "paint", "write_font", "svg", "colr_to_svg"]


class Site:
    def __init__(self, op: str, module: str, desc: str, props: List[str], mutate: Callable[[ast.Module], bool]):
        self.op, self.module, self.desc, self.props, self.mutate = op, module, desc, props, mutate


def _enclosing_func(tree: ast.Module, target: ast.AST) -> str:
    best = ""
    for n in ast.walk(tree):
        if isinstance(n, (ast.FunctionDef, ast.AsyncFunctionDef)) and any(x is target for x in ast.walk(n)):
            best = n.name
    return best


def _nth(tree: ast.Module, pred, n: int) -> Optional[ast.AST]:
    i = 0
    for node in ast.walk(tree):
        if pred(node):
            if i == n:
                return node
            i += 1
    return None


def sites_for(src_dir: Path) -> List[Site]:
    out: List[Site] = []

    def parse(mod):
        return ast.parse((src_dir / f"{mod}.py").read_text())

    # O1 swap adjacent operands of compose_ltr / O2 drop .inverse()
    typed_props = ["C01", "C02", "C06", "C13", "C16"]
    for mod in GEOM_MODULES:
        tree = parse(mod)
        is_comp = lambda n: isinstance(n, ast.Call) and norm(n.func) == "Affine2D.compose_ltr" and n.args and isinstance(n.args[0], (ast.Tuple, ast.List)) and len(n.args[0].elts) >= 2
        k = 0
        for node in ast.walk(tree):
            if is_comp(node):
                for j in range(len(node.args[0].elts) - 1):
                    def mut(t, k=k, j=j):
                        nd = _nth(t, is_comp, k)
                        e = nd.args[0].elts
                        if norm(e[j]) == norm(e[j + 1]):
                            return False
                        e[j], e[j + 1] = e[j + 1], e[j]
                        return True
                    out.append(Site("swap-compose-operands", mod, f"{_enclosing_func(tree, node)}: {short(node, 80)} [swap {j},{j+1}]", typed_props, mut))
                k += 1
        is_inv = lambda n: isinstance(n, ast.Call) and isinstance(n.func, ast.Attribute) and n.func.attr == "inverse" and not n.args
        k = 0
        for node in ast.walk(tree):
            if is_inv(node):
                def mut(t, k=k):
                    # replace the k-th X.inverse() by X
                    target = _nth(t, is_inv, k)
                    class R(ast.NodeTransformer):
                        def visit_Call(self, n):
                            self.generic_visit(n)
                            return n.func.value if n is target else n
                    R().visit(t)
                    return True
                out.append(Site("drop-inverse", mod, f"{_enclosing_func(tree, node)}: {short(node, 80)}", typed_props, mut))
                k += 1
        is_mm = lambda n: isinstance(n, ast.AugAssign) and isinstance(n.op, ast.MatMult)
        k = 0
        for node in ast.walk(tree):
            if is_mm(node):
                def mut(t, k=k):
                    target = _nth(t, is_mm, k)
                    class R(ast.NodeTransformer):
                        def visit_AugAssign(self, n):
                            if n is target:
                                return ast.copy_location(ast.Assign(targets=[n.target], value=ast.BinOp(left=n.value, op=ast.MatMult(), right=ast.Name(id=n.target.id, ctx=ast.Load()))), n)
                            return n
                    R().visit(t)
                    ast.fix_missing_locations(t)
                    return True
                out.append(Site("swap-matmul-assign", mod, f"{_enclosing_func(tree, node)}: {short(node, 80)}", typed_props, mut))
                k += 1
    # O3 schema: drop each write key / each popped name -> default / each ctor keyword
    tree = parse("config")
    wd = None
    for n in ast.walk(tree):
        if isinstance(n, ast.FunctionDef) and n.name == "write":
            for d in ast.walk(n):
                if isinstance(d, ast.Dict) and len(d.keys) > 10:
                    wd = d
    if wd is not None:
        for i, kk in enumerate(wd.keys):
            def mut(t, i=i):
                for n in ast.walk(t):
                    if isinstance(n, ast.FunctionDef) and n.name == "write":
                        for d in ast.walk(n):
                            if isinstance(d, ast.Dict) and len(d.keys) > 10:
                                del d.keys[i]
                                del d.values[i]
                                return True
                return False
            out.append(Site("drop-write-key", "config", f"write: key {kk.value!r}", ["C10", "C20"], mut))
    is_pop = lambda n: isinstance(n, ast.Call) and norm(n.func) == "_pop_flag" and len(n.args) == 2 and isinstance(n.args[1], ast.Constant)
    pops = [n for n in ast.walk(tree) if is_pop(n)]
    for k, node in enumerate(pops):
        def mut(t, k=k):
            nd = _nth(t, is_pop, k)
            other = "family" if nd.args[1].value != "family" else "upem"
            nd.args[1] = ast.Constant(value=other)
            return True
        out.append(Site("misname-pop-flag", "config", f"load: _pop_flag(config, {node.args[1].value!r})", ["C10", "C20"], mut))
    is_ctor = lambda n: isinstance(n, ast.Call) and norm(n.func) == "FontConfig" and len(n.keywords) > 10
    ctor = [n for n in ast.walk(tree) if is_ctor(n)]
    if ctor:
        for i, kw in enumerate(ctor[0].keywords):
            def mut(t, i=i):
                nd = _nth(t, is_ctor, 0)
                del nd.keywords[i]
                return True
            out.append(Site("drop-ctor-keyword", "config", f"load: FontConfig({kw.arg}=...)", ["C10", "C20"], mut))
    is_flag = lambda n: isinstance(n, ast.Call) and norm(n.func).startswith("flags.DEFINE_") and len(n.args) >= 2 and norm(n.args[1]) == "None"
    for k, node in enumerate([n for n in ast.walk(tree) if is_flag(n)]):
        def mut(t, k=k):
            nd = _nth(t, is_flag, k)
            if norm(nd.func).endswith("enum"):
                return False
            nd.args[1] = ast.Constant(value=0 if "integer" in norm(nd.func) or "float" in norm(nd.func) else (False if "bool" in norm(nd.func) else "x"))
            return True
        out.append(Site("set-flag-default", "config", f"flag {norm(node.args[0])}", ["C10", "C20"], mut))
    # O4 reorder rules: delete each entry
    tree = parse("reorder_glyphs")
    rules = None
    for n in tree.body:
        if isinstance(n, ast.Assign) and norm(n.targets[0]) == "_REORDER_RULES":
            rules = n.value
    if rules is not None:
        for i, kk in enumerate(rules.keys):
            def mut(t, i=i):
                for n in t.body:
                    if isinstance(n, ast.Assign) and norm(n.targets[0]) == "_REORDER_RULES":
                        del n.value.keys[i]
                        del n.value.values[i]
                        return True
                return False
            out.append(Site("drop-reorder-rule", "reorder_glyphs", f"_REORDER_RULES[{short(kk)}]", ["C11"], mut))
    # O5 to_ufo_paint: drop each key
    tree = parse("paint")
    for cls in [n for n in tree.body if isinstance(n, ast.ClassDef) and n.name.startswith("Paint")]:
        for fn in [f for f in cls.body if isinstance(f, ast.FunctionDef) and f.name == "to_ufo_paint"]:
            dicts = [d for d in ast.walk(fn) if isinstance(d, ast.Dict) and d.keys and all(isinstance(k, ast.Constant) for k in d.keys)]
            if not dicts:
                continue
            for i, kk in enumerate(dicts[0].keys):
                if kk.value == "Format":
                    continue
                def mut(t, cname=cls.name, i=i):
                    for c in t.body:
                        if isinstance(c, ast.ClassDef) and c.name == cname:
                            for f in c.body:
                                if isinstance(f, ast.FunctionDef) and f.name == "to_ufo_paint":
                                    d = [d for d in ast.walk(f) if isinstance(d, ast.Dict) and d.keys and all(isinstance(k, ast.Constant) for k in d.keys)][0]
                                    del d.keys[i]
                                    del d.values[i]
                                    return True
                    return False
                out.append(Site("drop-ufo-paint-key", "paint", f"{cls.name}.to_ufo_paint[{kk.value!r}]", ["C01", "C16"], mut))
    # O6 ninja: drop each variables key in nanoemoji.py / maximum_color.py dict literals passed as variables=
    for mod, props in (("nanoemoji", ["C09", "C20"]), ("maximum_color", ["C12"])):
        tree = parse(mod)
        is_vars = lambda n: isinstance(n, ast.keyword) and n.arg == "variables" and isinstance(n.value, ast.Dict) and n.value.keys
        kws = [n for n in ast.walk(tree) if is_vars(n)]
        for k, node in enumerate(kws):
            for i, kk in enumerate(node.value.keys):
                def mut(t, k=k, i=i):
                    nd = _nth(t, is_vars, k)
                    del nd.value.keys[i]
                    del nd.value.values[i]
                    return True
                if _enclosing_func(tree, node) == "write_svg_font_diff_build":
                    continue
                out.append(Site("drop-edge-variable", mod, f"{_enclosing_func(tree, node)}: variables[{kk.value!r}]", props, mut))
    # O7 unsort: sorted(X) -> list(X) at every site on the font path (survivors are sites whose argument is already ordered)
    for mod in ["config", "nanoemoji", "write_font", "svg", "colors", "disjoint_set", "glue_together", "write_fea", "features", "maximum_color", "bitmap_tables",
                "write_glyphmap_for_glyph_svgs", "util"]:
        tree = parse(mod)
        is_sorted = lambda n: isinstance(n, ast.Call) and norm(n.func) == "sorted" and n.args
        for k, node in enumerate([n for n in ast.walk(tree) if is_sorted(n)]):
            def mut(t, k=k):
                nd = _nth(t, is_sorted, k)
                nd.func = ast.Name(id="list", ctx=ast.Load())
                nd.keywords = []
                return True
            out.append(Site("unsort", mod, f"{_enclosing_func(tree, node)}: {short(node, 70)}", ["C08"], mut))
    return out


def _run_site(args) -> dict:
    idx, repo = args
    from .model import load_model, AnalysisError
    from . import report
    from .rules import PROPERTY_META  # noqa

    src = Path(repo) / "src" / "nanoemoji"
    sites = sites_for(src)
    s = sites[idx]
    tmp = Path(tempfile.mkdtemp(prefix="nv-auto-"))
    try:
        dst = tmp / "src" / "nanoemoji"
        dst.parent.mkdir(parents=True)
        shutil.copytree(src, dst, ignore=shutil.ignore_patterns("__pycache__", "*.pyc"))
        tree = ast.parse((dst / f"{s.module}.py").read_text())
        if not s.mutate(tree):
            return {"op": s.op, "site": f"{s.module}: {s.desc}", "status": "not-applicable"}
        ast.fix_missing_locations(tree)
        (dst / f"{s.module}.py").write_text(ast.unparse(tree) + "\n")
        model = load_model(tmp)
        fired = []
        errs = []
        known = {k["key"] for k in report.load_known_findings().get("findings", [])}
        for prop in s.props:
            for fn in report.RULES.rules.get(prop, []):
                rr = report.RuleResult(fn.rule_id, fn.title, floor=fn.floor)
                try:
                    fn(model, rr)
                except AnalysisError as e:
                    errs.append(fn.rule_id)
                except Exception as e:
                    errs.append(fn.rule_id + "!")
                if any(f.key() not in known for f in rr.findings):
                    fired.append(fn.rule_id)
        status = "killed" if fired else ("error" if errs else "survived")
        return {"op": s.op, "site": f"{s.module}: {s.desc}", "status": status, "fired": sorted(set(fired)), "errors": sorted(set(errs)), "props": s.props}
    finally:
        shutil.rmtree(tmp, ignore_errors=True)


def run(repo: str = "/repo", prop: Optional[str] = None, jobs: int = 16) -> List[dict]:
    sites = sites_for(Path(repo) / "src" / "nanoemoji")
    idxs = [i for i, s in enumerate(sites) if prop is None or prop in s.props]
    if not idxs:
        return []
    with ProcessPoolExecutor(max_workers=min(jobs, len(idxs))) as ex:
        return list(ex.map(_run_site, [(i, repo) for i in idxs]))


# kill ratios confirmed on the pinned tree (killed or analysis-error / applicable), per operator; a lower ratio fails the self-test
FLOORS = {
    "swap-compose-operands": 0.95,  # survivor: Paint.breadth_first (equivalent under the R-NEST invariant: at most one wrapper above a PaintGlyph)
    "drop-inverse": 0.85,           # survivor: the Safari involutory-matrix assertion in _apply_gradient_common_parts (not geometry)
    "swap-matmul-assign": 1.0,
    "drop-write-key": 1.0, "misname-pop-flag": 1.0, "drop-ctor-keyword": 1.0, "set-flag-default": 1.0,
    "drop-reorder-rule": 1.0,
    "drop-ufo-paint-key": 0.98,     # survivor: PaintColrGlyph (never emitted by nanoemoji; outside R01d's class list)
    "drop-edge-variable": 1.0,
    "unsort": 0.40,                 # survivors are sorted() calls over already ordered sequences or feeding messages only (listed in the evidence)
}


def summarise(res: List[dict]) -> Dict[str, dict]:
    out: Dict[str, dict] = {}
    for r in res:
        o = out.setdefault(r["op"], {"applicable": 0, "killed": 0, "error": 0, "survived": 0, "survivors": []})
        if r["status"] == "not-applicable":
            continue
        o["applicable"] += 1
        o[r["status"]] += 1
        if r["status"] == "survived":
            o["survivors"].append(r["site"])
    return out


if __name__ == "__main__":
    import sys, json
    res = run(prop=sys.argv[1] if len(sys.argv) > 1 and sys.argv[1] != "all" else None)
    s = summarise(res)
    for op, d in s.items():
        print(f"{op:24} applicable={d['applicable']:3} killed={d['killed']:3} error={d['error']:3} survived={d['survived']:3}")
        for x in d["survivors"]:
            print("      survivor:", x)
