"""E2: statement-level control-flow graph, dominators, post-dominators, reaching definitions.

Hand-built for the statement kinds nanoemoji uses. Nested function bodies are separate CFGs.
"""
from __future__ import annotations

import ast
from dataclasses import dataclass, field
from typing import Dict, Iterable, List, Optional, Set, Tuple

from .model import AnalysisError, FuncInfo, norm, short, walk_no_nested


@dataclass
class Node:
    id: int
    kind: str  # entry | exit | raise | stmt | test | for | with | except
    ast: Optional[ast.AST] = None  # the statement (stmt/with/for/except) or the tested expression owner
    succs: List[Tuple[int, Optional[str]]] = field(default_factory=list)  # (target, label)
    preds: List[int] = field(default_factory=list)

    def text(self) -> str:
        if self.ast is None:
            return self.kind
        if self.kind == "test":
            t = getattr(self.ast, "test", None)
            return f"{type(self.ast).__name__.lower()} {short(t, 90)}"
        if self.kind == "for":
            return f"for {short(self.ast.target, 40)} in {short(self.ast.iter, 60)}"
        if self.kind == "with":
            return "with " + ", ".join(short(i, 60) for i in self.ast.items)
        if self.kind == "except":
            return "except " + short(self.ast.type, 50) if self.ast.type is not None else "except"
        return short(self.ast, 110)


@dataclass
class Def:
    name: str
    node: int  # cfg node id
    value: Optional[ast.AST]  # RHS expression when a plain assignment, else None
    kind: str  # assign | aug | for | with | param | import | def | except | unpack | walrus
    stmt: Optional[ast.AST] = None


class CFG:
    def __init__(self, fi: FuncInfo):
        self.fi = fi
        self.nodes: List[Node] = []
        self.entry = self._new("entry")
        self.exit = self._new("exit")
        self.raise_exit = self._new("raise")
        self.stmt_node: Dict[ast.AST, int] = {}
        self._loops: List[Tuple[int, List[int]]] = []  # (continue target, break sources)
        self._handlers: List[List[int]] = []  # stack of handler entry node ids
        tails = self._seq(fi.body, [(self.entry, None)])
        for t, lab in tails:
            self._edge(t, self.exit, lab)
        self._finish()

    # -- construction ------------------------------------------------------------------------
    def _new(self, kind, node=None) -> int:
        n = Node(len(self.nodes), kind, node)
        self.nodes.append(n)
        return n.id

    def _edge(self, a: int, b: int, label=None):
        if (b, label) not in self.nodes[a].succs:
            self.nodes[a].succs.append((b, label))

    def _link(self, tails, target):
        for t, lab in tails:
            self._edge(t, target, lab)

    def _may_raise_to_handlers(self, nid: int):
        # any statement inside a try body may transfer to the handlers
        if self._handlers:
            for h in self._handlers[-1]:
                self._edge(nid, h, "exc")

    def _seq(self, stmts: List[ast.stmt], tails):
        for st in stmts:
            tails = self._stmt(st, tails)
        return tails

    def _stmt(self, st: ast.stmt, tails):
        if isinstance(st, (ast.FunctionDef, ast.AsyncFunctionDef, ast.ClassDef)):
            n = self._new("stmt", st)
            self.stmt_node[st] = n
            self._link(tails, n)
            return [(n, None)]
        if isinstance(st, ast.If):
            n = self._new("test", st)
            self.stmt_node[st] = n
            self._link(tails, n)
            self._may_raise_to_handlers(n)
            t_true = self._seq(st.body, [(n, "T")])
            t_false = self._seq(st.orelse, [(n, "F")]) if st.orelse else [(n, "F")]
            return t_true + t_false
        if isinstance(st, ast.While):
            n = self._new("test", st)
            self.stmt_node[st] = n
            self._link(tails, n)
            self._may_raise_to_handlers(n)
            self._loops.append((n, []))
            body_tails = self._seq(st.body, [(n, "T")])
            self._link(body_tails, n)
            _, breaks = self._loops.pop()
            out = []
            is_true = isinstance(st.test, ast.Constant) and st.test.value is True
            if not is_true:
                out = self._seq(st.orelse, [(n, "F")]) if st.orelse else [(n, "F")]
            return out + [(b, None) for b in breaks]
        if isinstance(st, (ast.For, ast.AsyncFor)):
            n = self._new("for", st)
            self.stmt_node[st] = n
            self._link(tails, n)
            self._may_raise_to_handlers(n)
            self._loops.append((n, []))
            body_tails = self._seq(st.body, [(n, "T")])
            self._link(body_tails, n)
            _, breaks = self._loops.pop()
            out = self._seq(st.orelse, [(n, "F")]) if st.orelse else [(n, "F")]
            return out + [(b, None) for b in breaks]
        if isinstance(st, (ast.With, ast.AsyncWith)):
            n = self._new("with", st)
            self.stmt_node[st] = n
            self._link(tails, n)
            self._may_raise_to_handlers(n)
            return self._seq(st.body, [(n, None)])
        if isinstance(st, ast.Try) or (hasattr(ast, "TryStar") and isinstance(st, getattr(ast, "TryStar"))):
            hnodes = []
            for h in st.handlers:
                hn = self._new("except", h)
                self.stmt_node[h] = hn
                hnodes.append(hn)
            # marker node so that handlers are reachable from the state at try entry
            tn = self._new("stmt", ast.Pass())
            self.nodes[tn].kind = "try"
            self.nodes[tn].ast = st
            self.stmt_node[st] = tn
            self._link(tails, tn)
            for hn in hnodes:
                self._edge(tn, hn, "exc")
            self._handlers.append(hnodes)
            body_tails = self._seq(st.body, [(tn, None)])
            self._handlers.pop()
            else_tails = self._seq(st.orelse, body_tails) if st.orelse else body_tails
            h_tails = []
            for h, hn in zip(st.handlers, hnodes):
                h_tails += self._seq(h.body, [(hn, None)])
            all_tails = else_tails + h_tails
            if st.finalbody:
                all_tails = self._seq(st.finalbody, all_tails)
            return all_tails
        if isinstance(st, ast.Return):
            n = self._new("stmt", st)
            self.stmt_node[st] = n
            self._link(tails, n)
            self._may_raise_to_handlers(n)
            self._edge(n, self.exit, "return")
            return []
        if isinstance(st, ast.Raise):
            n = self._new("stmt", st)
            self.stmt_node[st] = n
            self._link(tails, n)
            if self._handlers:
                for h in self._handlers[-1]:
                    self._edge(n, h, "exc")
            self._edge(n, self.raise_exit, "raise")
            return []
        if isinstance(st, ast.Assert):
            n = self._new("test", st)
            self.stmt_node[st] = n
            self._link(tails, n)
            self._edge(n, self.raise_exit, "F")
            self._may_raise_to_handlers(n)
            return [(n, "T")]
        if isinstance(st, ast.Break):
            n = self._new("stmt", st)
            self.stmt_node[st] = n
            self._link(tails, n)
            if not self._loops:
                raise AnalysisError("break outside loop")
            self._loops[-1][1].append(n)
            return []
        if isinstance(st, ast.Continue):
            n = self._new("stmt", st)
            self.stmt_node[st] = n
            self._link(tails, n)
            self._edge(n, self._loops[-1][0], "continue")
            return []
        if hasattr(ast, "Match") and isinstance(st, ast.Match):
            raise AnalysisError(f"{self.fi.fq}: match statement not supported by the CFG builder")
        # simple statement
        n = self._new("stmt", st)
        self.stmt_node[st] = n
        self._link(tails, n)
        self._may_raise_to_handlers(n)
        # a call to sys.exit()/raise-only helpers is not modelled specially
        return [(n, None)]

    def _finish(self):
        for n in self.nodes:
            for t, _ in n.succs:
                if n.id not in self.nodes[t].preds:
                    self.nodes[t].preds.append(n.id)
        self._dom = None
        self._pdom = None
        self._rd = None
        self._parent = None

    # -- queries -----------------------------------------------------------------------------
    def node_for(self, node: ast.AST) -> int:
        """CFG node of the statement that contains `node` (node may be an expression)."""
        if node in self.stmt_node:
            return self.stmt_node[node]
        if self._parent is None:
            self._parent = {}
            for st in self.fi.body:
                for p in ast.walk(st):
                    for c in ast.iter_child_nodes(p):
                        self._parent[c] = p
        cur = node
        while cur is not None:
            if cur in self.stmt_node:
                return self.stmt_node[cur]
            cur = self._parent.get(cur)
        raise AnalysisError(f"{self.fi.fq}: node {short(node)} is not in this function's CFG")

    def reachable_from(self, start: int, avoid: Iterable[int] = (), labels_block: Dict[int, Set[str]] = None) -> Set[int]:
        avoid = set(avoid)
        seen = set()
        todo = [start]
        while todo:
            n = todo.pop()
            if n in seen or n in avoid:
                continue
            seen.add(n)
            for t, lab in self.nodes[n].succs:
                if labels_block and n in labels_block and lab in labels_block[n]:
                    continue
                todo.append(t)
        return seen

    def _dominators(self, entry: int, succ=True) -> Dict[int, Set[int]]:
        ids = [n.id for n in self.nodes]
        allset = set(ids)
        dom = {i: set(allset) for i in ids}
        dom[entry] = {entry}
        changed = True
        while changed:
            changed = False
            for i in ids:
                if i == entry:
                    continue
                ps = self.nodes[i].preds if succ else [t for t, _ in self.nodes[i].succs]
                ps = [p for p in ps]
                if not ps:
                    new = {i}
                else:
                    new = set.intersection(*(dom[p] for p in ps)) | {i}
                if new != dom[i]:
                    dom[i] = new
                    changed = True
        return dom

    def dominates(self, a: int, b: int) -> bool:
        """Every path entry -> b passes through a."""
        if self._dom is None:
            self._dom = self._dominators(self.entry, True)
        return a in self._dom[b]

    def postdominates(self, a: int, b: int, include_raise: bool = False) -> bool:
        """Every path b -> normal exit passes through a (paths ending in raise are ignored unless include_raise)."""
        # computed by search: is exit reachable from b while avoiding a?
        avoid = {a}
        if not include_raise:
            r = self.reachable_from(b, avoid)
            return self.exit not in r
        r = self.reachable_from(b, avoid)
        return self.exit not in r and self.raise_exit not in r

    def path_exists(self, src: int, dst: int, avoid: Iterable[int] = ()) -> bool:
        return dst in self.reachable_from(src, avoid)

    # branch-sensitive: nodes reachable only through the given labelled edge of test node t
    def dominated_by_edge(self, test: int, label: str, target: int) -> bool:
        """True when every path entry -> target goes through edge (test --label--> .)."""
        # remove that edge and see whether target is still reachable from entry
        block = {test: {label}}
        r = self.reachable_from(self.entry, (), block)
        return target not in r

    # -- reaching definitions ---------------------------------------------------------------
    def _defs_of_node(self, n: Node) -> List[Def]:
        out: List[Def] = []
        a = n.ast
        if n.kind == "entry":
            for p in self.fi.params:
                out.append(Def(p, n.id, None, "param"))
            return out
        if a is None:
            return out

        def targets(t, value, kind, stmt):
            if isinstance(t, ast.Name):
                out.append(Def(t.id, n.id, value, kind, stmt))
            elif isinstance(t, (ast.Tuple, ast.List)):
                for i, e in enumerate(t.elts):
                    sub = None
                    if isinstance(value, (ast.Tuple, ast.List)) and len(value.elts) == len(t.elts) and not any(
                        isinstance(x, ast.Starred) for x in t.elts
                    ):
                        sub = value.elts[i]
                        targets(e, sub, kind, stmt)
                    else:
                        targets(e.value if isinstance(e, ast.Starred) else e, None, "unpack", stmt)
                        # keep the whole RHS reachable for origin tracking
                        if out and out[-1].value is None:
                            out[-1].value = value
                            out[-1].kind = "unpack"
            elif isinstance(t, ast.Starred):
                targets(t.value, None, "unpack", stmt)

        if n.kind == "for":
            targets(a.target, None, "for", a)
            for d in out:
                d.value = a.iter
            return out
        if n.kind == "with":
            for it in a.items:
                if it.optional_vars is not None:
                    targets(it.optional_vars, it.context_expr, "with", a)
            return out
        if n.kind == "except":
            if a.name:
                out.append(Def(a.name, n.id, a.type, "except", a))
            return out
        if n.kind in ("test", "try"):
            exprs = [a.test] if hasattr(a, "test") else []
        else:
            exprs = [a]
        if isinstance(a, ast.Assign) and n.kind == "stmt":
            for t in a.targets:
                targets(t, a.value, "assign", a)
        elif isinstance(a, ast.AnnAssign) and n.kind == "stmt" and a.value is not None:
            targets(a.target, a.value, "assign", a)
        elif isinstance(a, ast.AugAssign) and n.kind == "stmt":
            if isinstance(a.target, ast.Name):
                out.append(Def(a.target.id, n.id, a, "aug", a))
        elif isinstance(a, (ast.Import, ast.ImportFrom)):
            for al in a.names:
                out.append(Def((al.asname or al.name).split(".")[0], n.id, None, "import", a))
        elif isinstance(a, (ast.FunctionDef, ast.AsyncFunctionDef, ast.ClassDef)):
            out.append(Def(a.name, n.id, None, "def", a))
        elif isinstance(a, ast.Delete):
            pass
        # walrus anywhere in the statement's expressions
        for e in exprs:
            for sub in walk_no_nested(e) if not isinstance(e, (ast.FunctionDef, ast.ClassDef)) else []:
                if isinstance(sub, ast.NamedExpr) and isinstance(sub.target, ast.Name):
                    out.append(Def(sub.target.id, n.id, sub.value, "walrus", a))
        return out

    def _compute_rd(self):
        gens: Dict[int, List[Def]] = {n.id: self._defs_of_node(n) for n in self.nodes}
        self.defs: List[Def] = [d for n in self.nodes for d in gens[n.id]]
        IN: Dict[int, Set[int]] = {n.id: set() for n in self.nodes}
        OUT: Dict[int, Set[int]] = {n.id: set() for n in self.nodes}
        idx = {id(d): i for i, d in enumerate(self.defs)}
        by_name: Dict[str, Set[int]] = {}
        for i, d in enumerate(self.defs):
            by_name.setdefault(d.name, set()).add(i)
        work = [n.id for n in self.nodes]
        while work:
            i = work.pop(0)
            n = self.nodes[i]
            new_in = set()
            for p in n.preds:
                new_in |= OUT[p]
            IN[i] = new_in
            g = {idx[id(d)] for d in gens[i]}
            kill = set()
            for d in gens[i]:
                if d.kind != "aug":
                    kill |= by_name[d.name]
                else:
                    kill |= by_name[d.name]
            new_out = g | (new_in - kill)
            if new_out != OUT[i]:
                OUT[i] = new_out
                for t, _ in n.succs:
                    if t not in work:
                        work.append(t)
        self._rd = IN

    def reaching(self, at: int, name: str) -> List[Def]:
        """Definitions of `name` that reach the *entry* of node `at`."""
        if self._rd is None:
            self._compute_rd()
        return [self.defs[i] for i in sorted(self._rd[at]) if self.defs[i].name == name]

    def all_defs(self, name: str) -> List[Def]:
        if self._rd is None:
            self._compute_rd()
        return [d for d in self.defs if d.name == name]

    def controlling_tests(self, target: int) -> List[Tuple[int, str]]:
        """(test node, label) pairs on which `target` is control dependent: the labelled edge's
        successor side reaches target only through that edge (edge dominates target)."""
        out = []
        for n in self.nodes:
            if n.kind not in ("test", "for"):
                continue
            labels = {lab for _, lab in n.succs if lab in ("T", "F")}
            if len(labels) < 2:
                continue
            for lab in sorted(labels):
                if n.id != target and self.dominated_by_edge(n.id, lab, target):
                    out.append((n.id, lab))
        return out


_CACHE: Dict[int, CFG] = {}


def cfg_of(fi: FuncInfo) -> CFG:
    c = _CACHE.get(id(fi.node))
    if c is None or c.fi is not fi:
        c = CFG(fi)
        _CACHE[id(fi.node)] = c
    return c
