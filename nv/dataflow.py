"""E3: def-use helpers on top of the CFG: transitive dependence, origin sets (with control
dependence and a bounded inter-procedural step)."""
from __future__ import annotations

import ast
from typing import Dict, Iterable, List, Optional, Set, Tuple

from .cfg import CFG, Def, cfg_of
from .model import FuncInfo, Model, attr_chain, norm, walk_no_nested


def loads_in(expr: ast.AST) -> List[ast.Name]:
    out = []
    for n in walk_no_nested(expr) if not isinstance(expr, ast.Lambda) else ast.walk(expr.body):
        if isinstance(n, ast.Name) and isinstance(n.ctx, ast.Load):
            out.append(n)
    # comprehension-local targets are not function locals
    return out


def _comp_bound(expr: ast.AST) -> Set[str]:
    bound = set()
    for n in ast.walk(expr):
        if isinstance(n, ast.comprehension):
            for t in ast.walk(n.target):
                if isinstance(t, ast.Name):
                    bound.add(t.id)
        if isinstance(n, ast.Lambda):
            for a in n.args.args:
                bound.add(a.arg)
    return bound


def expr_closure(cfg: CFG, at: int, expr: ast.AST, max_steps: int = 200) -> Tuple[Set[str], List[ast.AST]]:
    """All names an expression transitively depends on through reaching definitions, and the
    definition value expressions met on the way (the expression itself included)."""
    names: Set[str] = set()
    exprs: List[ast.AST] = [expr]
    seen_defs = set()
    todo: List[Tuple[int, ast.AST]] = [(at, expr)]
    steps = 0
    while todo and steps < max_steps:
        steps += 1
        node, e = todo.pop()
        bound = _comp_bound(e)
        for nm in loads_in(e):
            names.add(nm.id)
            if nm.id in bound:
                continue
            for d in cfg.reaching(node, nm.id):
                if id(d) in seen_defs:
                    continue
                seen_defs.add(id(d))
                if d.value is not None:
                    exprs.append(d.value)
                    todo.append((d.node, d.value))
    return names, exprs


def param_closure(cfg: CFG, at: int, expr: ast.AST, max_steps: int = 400) -> Set[str]:
    """Parameters whose *incoming* value an expression transitively depends on (a parameter re-bound before use does not count)."""
    out: Set[str] = set()
    seen_defs = set()
    todo: List[Tuple[int, ast.AST]] = [(at, expr)]
    steps = 0
    while todo and steps < max_steps:
        steps += 1
        node, e = todo.pop()
        bound = _comp_bound(e)
        for nm in loads_in(e):
            if nm.id in bound:
                continue
            for d in cfg.reaching(node, nm.id):
                if id(d) in seen_defs:
                    continue
                seen_defs.add(id(d))
                if d.kind == "param":
                    out.add(d.name)
                elif d.value is not None:
                    todo.append((d.node, d.value))
                elif d.stmt is not None and d.kind in ("for", "with", "unpack", "aug"):
                    src = getattr(d.stmt, "iter", None) or getattr(d.stmt, "value", None)
                    if src is not None:
                        todo.append((d.node, src))
    return out


def resolved(cfg: CFG, at: int, expr: ast.AST, depth: int = 8) -> ast.AST:
    """`expr` with every local that has exactly one reaching plain definition replaced by that definition's value, recursively (a copy).  Temporaries,
    renamed locals and the re-binding of one name in two steps all resolve to the same expression.  Tuple-unpacked locals become `<rhs>[i]`."""
    import copy

    class R(ast.NodeTransformer):
        def __init__(self, node, d):
            self.node, self.d = node, d

        def visit_Lambda(self, n):
            return n

        def visit_Name(self, n):
            if not isinstance(n.ctx, ast.Load) or self.d <= 0:
                return n
            ds = cfg.reaching(self.node, n.id)
            if len(ds) != 1:
                return n
            d = ds[0]
            if d.kind == "assign" and d.value is not None:
                return R(d.node, self.d - 1).visit(copy.deepcopy(d.value))
            if d.kind == "unpack" and d.value is not None and d.stmt is not None and isinstance(d.stmt, ast.Assign):
                t = d.stmt.targets[0]
                if isinstance(t, (ast.Tuple, ast.List)):
                    for i, e in enumerate(t.elts):
                        if isinstance(e, ast.Name) and e.id == n.id:
                            base = R(d.node, self.d - 1).visit(copy.deepcopy(d.value))
                            return ast.Subscript(value=base, slice=ast.Constant(value=i), ctx=ast.Load())
            return n
    return R(at, depth).visit(copy.deepcopy(expr))


def inline_new_helpers(expr: ast.AST, fi: FuncInfo, depth: int = 3) -> ast.AST:
    """Calls to single-expression helper functions/methods that the reference tree does not have (`return <expr>` bodies, extracted by a refactoring)
    are replaced by that expression with the arguments substituted (a copy)."""
    import copy
    from . import report as _report
    mod = fi.module

    def find(call: ast.Call):
        name = None
        if isinstance(call.func, ast.Name):
            name, recv = call.func.id, None
        elif isinstance(call.func, ast.Attribute) and isinstance(call.func.value, ast.Name) and call.func.value.id in ("self", "cls"):
            name, recv = call.func.attr, call.func.value.id
        else:
            return None
        cands = [q for q in mod.functions if q == name or q.endswith("." + name)]
        for q in cands:
            if _report.CURRENT_DRIFT.get(f"{mod.name}.{q}", 0) is not None:
                continue
            h = mod.functions[q]
            body = [st for st in h.body if not (isinstance(st, ast.Expr) and isinstance(st.value, ast.Constant))]
            params = [p for p in h.params if p not in ("self", "cls")]
            if len(params) != len(call.args) or call.keywords:
                continue
            expr = _as_expression(body)
            if expr is not None:
                return expr, dict(zip(params, call.args))
        return None

    def _as_expression(body):
        """`return e`  |  `if c: return a` (else: return b | followed by return b)  -> a single expression."""
        if len(body) == 1 and isinstance(body[0], ast.Return) and body[0].value is not None:
            return body[0].value
        if body and isinstance(body[0], ast.If) and len(body[0].body) == 1 and isinstance(body[0].body[0], ast.Return) and body[0].body[0].value is not None:
            rest = body[0].orelse if body[0].orelse else body[1:]
            tail = _as_expression(list(rest))
            if tail is not None and (body[0].orelse == [] or len(body) == 1):
                return ast.IfExp(test=body[0].test, body=body[0].body[0].value, orelse=tail)
        return None

    class I(ast.NodeTransformer):
        def __init__(self, d):
            self.d = d

        def visit_Call(self, n):
            self.generic_visit(n)
            if self.d <= 0:
                return n
            hit = find(n)
            if hit is None:
                return n
            body, binding = hit

            class S(ast.NodeTransformer):
                def visit_Name(self, m):
                    return copy.deepcopy(binding[m.id]) if m.id in binding and isinstance(m.ctx, ast.Load) else m
            return I(self.d - 1).visit(S().visit(copy.deepcopy(body)))
    return I(depth).visit(copy.deepcopy(expr))


def fold_module_constants(expr: ast.AST, fi: FuncInfo) -> ast.AST:
    """Names bound at module level to a number / string literal are replaced by the literal (a copy): a magic number given a name is the same number."""
    import copy
    consts = {k: v for k, v in fi.module.assigns.items() if isinstance(v, ast.Constant) and isinstance(v.value, (int, float, str)) and not isinstance(v.value, bool)}
    local = set(fi.params)

    class F(ast.NodeTransformer):
        def visit_Name(self, n):
            if isinstance(n.ctx, ast.Load) and n.id in consts and n.id not in local:
                return copy.deepcopy(consts[n.id])
            return n
    return F().visit(copy.deepcopy(expr))


def alternatives(cfg: CFG, at: int, name: str, fi: Optional[FuncInfo] = None) -> List[Tuple[str, List[Tuple[str, bool]]]]:
    """The values `name` can have at `at` with the (canonical) conditions under which each is chosen: one entry per reaching plain definition,
    a conditional expression counts as two definitions.  Values are resolved through temporaries and module constants."""
    from .guards import canon_fact, canon_facts
    from .model import norm
    out = []
    for d in cfg.reaching(at, name):
        if d.value is None:
            out.append((f"<{d.kind}>", []))
            continue
        base = canon_facts(cfg, d.node)

        def emit(v, extra):
            e = resolved(cfg, d.node, v)
            if fi is not None:
                e = fold_module_constants(inline_new_helpers(e, fi), fi)
            if isinstance(e, ast.IfExp):
                emit_raw(e.body, extra + [canon_fact(e.test, True)])
                emit_raw(e.orelse, extra + [canon_fact(e.test, False)])
            else:
                out.append((norm(e), base + extra))

        def emit_raw(e, extra):
            if isinstance(e, ast.IfExp):
                emit_raw(e.body, extra + [canon_fact(e.test, True)])
                emit_raw(e.orelse, extra + [canon_fact(e.test, False)])
            else:
                out.append((norm(e), base + extra))
        emit(d.value, [])
    return out


def fold_tuples(expr: ast.AST) -> ast.AST:
    """`(a, b) + (c, d)` -> `(a, b, c, d)`; `tuple((a, b))` -> `(a, b)` (a copy)."""
    import copy

    class T(ast.NodeTransformer):
        def visit_BinOp(self, n):
            self.generic_visit(n)
            if isinstance(n.op, ast.Add) and isinstance(n.left, ast.Tuple) and isinstance(n.right, ast.Tuple):
                return ast.Tuple(elts=n.left.elts + n.right.elts, ctx=ast.Load())
            return n

        def visit_Call(self, n):
            self.generic_visit(n)
            if isinstance(n.func, ast.Name) and n.func.id == "tuple" and len(n.args) == 1 and isinstance(n.args[0], (ast.Tuple, ast.List)):
                return ast.Tuple(elts=n.args[0].elts, ctx=ast.Load())
            return n

        def visit_Subscript(self, n):
            self.generic_visit(n)
            if isinstance(n.value, (ast.Tuple, ast.List)) and isinstance(n.slice, ast.Constant) and isinstance(n.slice.value, int) \
                    and -len(n.value.elts) <= n.slice.value < len(n.value.elts) and not any(isinstance(x, ast.Starred) for x in n.value.elts):
                return n.value.elts[n.slice.value]  # (a, b)[0] -> a
            return n
    return T().visit(copy.deepcopy(expr))


def resolved_text(cfg: CFG, at: int, expr: ast.AST, fi: Optional[FuncInfo] = None) -> str:
    from .model import norm
    e = resolved(cfg, at, expr)
    if fi is not None:
        e = fold_module_constants(inline_new_helpers(e, fi), fi)
    return norm(e)


def derives_from(cfg: CFG, at: int, expr: ast.AST, sources: Iterable[str]) -> bool:
    names, _ = expr_closure(cfg, at, expr)
    return bool(names & set(sources))


def attr_reads(exprs: Iterable[ast.AST], base: str) -> Set[str]:
    """Attributes read off `base` name: base.attr (first level)."""
    out = set()
    for e in exprs:
        for n in ast.walk(e):
            if isinstance(n, ast.Attribute) and isinstance(n.value, ast.Name) and n.value.id == base:
                out.add(n.attr)
    return out


class Origins:
    """Origin sets: atoms an expression depends on.

    Atoms: 'param.attr' for attribute reads off a parameter/loop binder, 'param' for bare use,
    'FLAGS.x', 'call:<name>' for calls to functions that could not be inlined, 'const'.
    Includes control dependence: the origins of the tests that decide which definition
    reaches (implicit flows)."""

    def __init__(self, model: Model, depth: int = 2):
        self.model = model
        self.depth = depth
        self._ret_cache: Dict[Tuple[int, int], Set[str]] = {}

    def of(self, fi: FuncInfo, expr: ast.AST, at_node: Optional[ast.AST] = None, depth: Optional[int] = None,
           control: bool = True) -> Set[str]:
        cfg = cfg_of(fi)
        at = cfg.node_for(at_node if at_node is not None else expr)
        return self._of(fi, cfg, at, expr, self.depth if depth is None else depth, control, set())

    def _of(self, fi, cfg, at, expr, depth, control, seen) -> Set[str]:
        out: Set[str] = set()
        if expr is None:
            return out
        bound = _comp_bound(expr)
        # attribute chains off names are atoms 'name.attr'
        consumed = set()
        for n in walk_no_nested(expr) if not isinstance(expr, ast.Lambda) else ast.walk(expr):
            if isinstance(n, ast.Attribute):
                ch = attr_chain(n)
                if ch:
                    root = ch.split(".")[0]
                    if root == "FLAGS":
                        out.add(".".join(ch.split(".")[:2]))
                        consumed.add(id(n.value)) if isinstance(n.value, ast.Name) else None
            if isinstance(n, ast.Call):
                callee = self.model.resolve_call(fi, n)
                if callee is not None and depth > 0 and not isinstance(callee.node, ast.Lambda):
                    out |= self._call_origins(fi, cfg, at, n, callee, depth, control, seen)
                else:
                    nm = norm(n.func)
                    if callee is not None:
                        out.add(f"call:{callee.fq}")
        for nm in loads_in(expr):
            if nm.id in bound:
                continue
            defs = cfg.reaching(at, nm.id)
            if not defs:
                # global / builtin / imported
                continue
            for d in defs:
                key = (id(d), nm.id)
                if d.kind == "param":
                    out |= self._param_atoms(expr, nm.id)
                    continue
                if key in seen:
                    continue
                seen = seen | {key}
                if d.kind == "for":
                    # loop binder: atom = binder name with attrs, plus origins of the iterable
                    out |= self._param_atoms(expr, nm.id)
                    out |= self._of(fi, cfg, d.node, d.value, depth, control, seen)
                    continue
                if d.value is not None:
                    out |= self._of(fi, cfg, d.node, d.value, depth, control, seen)
                if control:
                    for t, lab in cfg.controlling_tests(d.node):
                        tn = cfg.nodes[t]
                        test = tn.ast.test if hasattr(tn.ast, "test") else None
                        if test is not None:
                            out |= self._of(fi, cfg, t, test, depth, False, seen)
        return out

    def _param_atoms(self, expr, name) -> Set[str]:
        atoms = set()
        bare = False
        attr_parents = set()
        for n in ast.walk(expr):
            if isinstance(n, ast.Attribute) and isinstance(n.value, ast.Name) and n.value.id == name:
                atoms.add(f"{name}.{n.attr}")
                attr_parents.add(id(n.value))
        for n in ast.walk(expr):
            if isinstance(n, ast.Name) and n.id == name and id(n) not in attr_parents:
                bare = True
        if bare:
            atoms.add(name)
        return atoms

    def _call_origins(self, fi, cfg, at, call, callee, depth, control, seen) -> Set[str]:
        """Origins of a call's value: return-expression origins of the callee with parameters
        replaced by the origins of the arguments."""
        ret = self.return_origins(callee, depth - 1)
        out = set()
        params = [p for p in callee.params if p not in ("self", "cls")] if callee.cls else callee.params
        binding: Dict[str, ast.AST] = {}
        for i, a in enumerate(call.args):
            if isinstance(a, ast.Starred):
                continue
            if i < len(params):
                binding[params[i]] = a
        for k in call.keywords:
            if k.arg:
                binding[k.arg] = k.value
        for atom in ret:
            root = atom.split(".")[0]
            if root in binding:
                arg_or = self._of(fi, cfg, at, binding[root], depth - 1, control, seen)
                if "." in atom:
                    # attribute of a parameter: keep attribute on each arg atom when arg is a bare name atom
                    suffix = atom.split(".", 1)[1]
                    for a in arg_or:
                        out.add(f"{a}.{suffix}" if "." not in a and not a.startswith("call:") else a)
                else:
                    out |= arg_or
            elif root in params:
                # default used
                pass
            else:
                out.add(atom)
        return out

    def return_origins(self, callee: FuncInfo, depth: int) -> Set[str]:
        key = (id(callee.node), depth)
        if key in self._ret_cache:
            return self._ret_cache[key]
        self._ret_cache[key] = set()
        cfg = cfg_of(callee)
        out: Set[str] = set()
        for st in walk_no_nested(ast.Module(body=callee.body, type_ignores=[])):
            if isinstance(st, ast.Return) and st.value is not None:
                at = cfg.node_for(st)
                out |= self._of(callee, cfg, at, st.value, max(depth, 0), True, set())
                for t, lab in cfg.controlling_tests(at):
                    tn = cfg.nodes[t]
                    test = tn.ast.test if hasattr(tn.ast, "test") else None
                    if test is not None:
                        out |= self._of(callee, cfg, t, test, max(depth, 0), False, set())
        self._ret_cache[key] = out
        return out


def format_parts(e: ast.AST) -> Optional[List[Tuple[str, object]]]:
    """A string-building expression as a sequence of ("lit", text) / ("expr", node) parts, whichever way it is spelled:
    f-string, `"..%s.." % (a, b)`, `"..{}..".format(a, b)`, `a + "..." + b`.  None when it is not one of these."""
    if isinstance(e, ast.Constant) and isinstance(e.value, str):
        return [("lit", e.value)]
    if isinstance(e, ast.JoinedStr):
        out: List[Tuple[str, object]] = []
        for v in e.values:
            if isinstance(v, ast.Constant):
                out.append(("lit", str(v.value)))
            elif isinstance(v, ast.FormattedValue):
                if v.format_spec is not None or v.conversion not in (-1, 115):
                    return None
                out.append(("expr", v.value))
        return out
    if isinstance(e, ast.BinOp) and isinstance(e.op, ast.Mod) and isinstance(e.left, ast.Constant) and isinstance(e.left.value, str):
        args = list(e.right.elts) if isinstance(e.right, ast.Tuple) else [e.right]
        pieces = e.left.value.split("%s")
        if len(pieces) != len(args) + 1 or "%" in e.left.value.replace("%s", "").replace("%%", ""):
            return None
        out = []
        for i, pc in enumerate(pieces):
            if pc:
                out.append(("lit", pc.replace("%%", "%")))
            if i < len(args):
                out.append(("expr", args[i]))
        return out
    if isinstance(e, ast.Call) and isinstance(e.func, ast.Attribute) and e.func.attr == "format" and isinstance(e.func.value, ast.Constant) \
            and isinstance(e.func.value.value, str) and not e.keywords:
        pieces = e.func.value.value.split("{}")
        if len(pieces) != len(e.args) + 1 or "{" in "".join(pieces).replace("{{", "").replace("}}", ""):
            return None
        out = []
        for i, pc in enumerate(pieces):
            if pc:
                out.append(("lit", pc.replace("{{", "{").replace("}}", "}")))
            if i < len(e.args):
                out.append(("expr", e.args[i]))
        return out
    if isinstance(e, ast.BinOp) and isinstance(e.op, ast.Add):
        a, b = format_parts(e.left), format_parts(e.right)
        la = a if a is not None else [("expr", e.left)]
        lb = b if b is not None else [("expr", e.right)]
        if a is None and b is None:
            return None
        return la + lb
    return None


def format_template(parts) -> str:
    """The literal text of format_parts() with `{}` for each expression."""
    return "".join(t if k == "lit" else "{}" for k, t in parts)


def comprehension_over_base(cfg: CFG, at: int, comp: ast.AST, elem: str = "_e"):
    """A comprehension read element-wise over ONE base sequence.  `for a, b in zip(A, B)` where A = [f(x) for x in S] and B = [g(x) for x in S] is the same
    as `for _e in S` with a = f(_e), b = g(_e); `D[k(_e)]` where D = {k(x): v(x) for x in S} is v(_e).  Returns (base sequence text, {"key"/"value"/"elt": expr
    rewritten over `_e`}) or None when the sequences are not visibly parallel to one base."""
    import copy
    from .model import norm
    if not isinstance(comp, (ast.DictComp, ast.ListComp, ast.SetComp, ast.GeneratorExp)) or len(comp.generators) != 1 or comp.generators[0].ifs:
        return None
    gen = comp.generators[0]
    if isinstance(gen.iter, ast.Call) and isinstance(gen.iter.func, ast.Name) and gen.iter.func.id == "zip" and isinstance(gen.target, ast.Tuple) \
            and len(gen.target.elts) == len(gen.iter.args) and not gen.iter.keywords:
        pairs = list(zip(gen.target.elts, gen.iter.args))
    else:
        pairs = [(gen.target, gen.iter)]
    E = ast.Name(id=elem, ctx=ast.Load())

    def subst(e, mapping):
        class S(ast.NodeTransformer):
            def visit_Name(self, n):
                return copy.deepcopy(mapping[n.id]) if n.id in mapping and isinstance(n.ctx, ast.Load) else n
        return S().visit(copy.deepcopy(e))

    def single_def(name):
        ds = cfg.reaching(at, name)
        return ds[0].value if len(ds) == 1 and ds[0].kind == "assign" else None

    base = None
    mapping = {}
    for tgt, seq in pairs:
        if not isinstance(tgt, ast.Name):
            return None
        b, m = None, None
        if isinstance(seq, ast.Name):
            d = single_def(seq.id)
            if isinstance(d, ast.Call) and isinstance(d.func, ast.Name) and d.func.id in ("list", "tuple") and len(d.args) == 1:
                d = d.args[0]
            if isinstance(d, (ast.ListComp, ast.GeneratorExp)) and len(d.generators) == 1 and not d.generators[0].ifs and isinstance(d.generators[0].target, ast.Name):
                b, m = norm(d.generators[0].iter), subst(d.elt, {d.generators[0].target.id: E})
            else:
                b, m = seq.id, E
        else:
            b, m = norm(seq), E
        if base is not None and b != base:
            return None
        base = b
        mapping[tgt.id] = m

    def dict_lookups(e):
        class D(ast.NodeTransformer):
            def visit_Subscript(self, n):
                self.generic_visit(n)
                if isinstance(n.value, ast.Name) and isinstance(n.ctx, ast.Load):
                    d = single_def(n.value.id)
                    if isinstance(d, ast.DictComp) and len(d.generators) == 1 and not d.generators[0].ifs and isinstance(d.generators[0].target, ast.Name) \
                            and norm(d.generators[0].iter) == base:
                        u = d.generators[0].target.id
                        if norm(subst(d.key, {u: E})) == norm(n.slice):
                            return subst(d.value, {u: E})
                return n
        return D().visit(e)
    out = {}
    if isinstance(comp, ast.DictComp):
        out["key"] = dict_lookups(subst(comp.key, mapping))
        out["value"] = dict_lookups(subst(comp.value, mapping))
    else:
        out["elt"] = dict_lookups(subst(comp.elt, mapping))
    return base, out


def in_caller_terms(callee: FuncInfo, call: ast.Call, expr: ast.AST, at: Optional[int] = None) -> Optional[ast.AST]:
    """An expression of `callee` (resolved through its temporaries at CFG node `at`) rewritten over the caller's vocabulary: every parameter is replaced
    by the argument `call` binds to it.  None when a parameter it reads is not bound by the call (defaults are used when present)."""
    import copy
    from .cfg import cfg_of
    e = resolved(cfg_of(callee), at, expr) if at is not None else copy.deepcopy(expr)
    params = [p for p in callee.params if not (callee.cls and p in ("self", "cls"))]
    binding = {}
    for p, a in zip(params, call.args):
        if isinstance(a, ast.Starred):
            return None
        binding[p] = a
    for k in call.keywords:
        if k.arg:
            binding[k.arg] = k.value
    a_ = callee.node.args
    pos = [x.arg for x in a_.posonlyargs + a_.args]
    for name, d in zip(pos[len(pos) - len(a_.defaults):], a_.defaults):
        binding.setdefault(name, d)
    missing = []

    class S(ast.NodeTransformer):
        def visit_Name(self, n):
            if isinstance(n.ctx, ast.Load) and n.id in params:
                if n.id in binding:
                    return copy.deepcopy(binding[n.id])
                missing.append(n.id)
            return n
    out = S().visit(e)
    return None if missing else out


def flatten_generator(cfg: CFG, at: int, gen: ast.AST, depth: int = 4) -> ast.AST:
    """A generator / list comprehension whose source is itself a (named or inline) single-`for` generator is composed into one comprehension over the
    innermost source: `(f(c) for c in (g(d) for d in X if p(d)) if q(c))` == `(f(g(d)) for d in X if p(d) if q(g(d)))`.  A named source that is not a
    comprehension is replaced by its single definition.  Lazy pipelines written stage by stage read like the one-expression original (a copy)."""
    import copy
    if isinstance(gen, ast.Name):
        ds = cfg.reaching(at, gen.id)
        if len(ds) == 1 and ds[0].kind == "assign" and isinstance(ds[0].value, (ast.GeneratorExp, ast.ListComp)):
            gen = ds[0].value
    if not isinstance(gen, (ast.GeneratorExp, ast.ListComp)):
        return gen
    gen = copy.deepcopy(gen)
    for _ in range(depth):
        if len(gen.generators) != 1 or not isinstance(gen.generators[0].target, ast.Name):
            break
        g0 = gen.generators[0]
        src = g0.iter
        if isinstance(src, ast.Name):
            ds = cfg.reaching(at, src.id)
            if len(ds) == 1 and ds[0].kind == "assign" and ds[0].value is not None and not isinstance(ds[0].value, ast.Name):
                src = copy.deepcopy(ds[0].value)
                at = ds[0].node
                g0.iter = src
        if isinstance(src, (ast.GeneratorExp, ast.ListComp)) and len(src.generators) == 1 and isinstance(src.generators[0].target, ast.Name):
            inner = src.generators[0]
            outer_var = g0.target.id

            class S(ast.NodeTransformer):
                def visit_Name(self, n):
                    return copy.deepcopy(src.elt) if n.id == outer_var and isinstance(n.ctx, ast.Load) else n
            new_elt = S().visit(gen.elt)
            new_ifs = list(inner.ifs) + [S().visit(c) for c in g0.ifs]
            gen.elt = new_elt
            gen.generators = [ast.comprehension(target=inner.target, iter=inner.iter, ifs=new_ifs, is_async=0)]
            continue
        break
    # `for c in chain.from_iterable(E for g in S)` reads as the nested `for g in S for c in E` (same elements, same order)
    out = []
    for g0 in gen.generators:
        it = g0.iter
        if isinstance(it, ast.Call) and len(it.args) == 1 and not it.keywords and norm(it.func) in ("chain.from_iterable", "itertools.chain.from_iterable") \
                and isinstance(it.args[0], (ast.GeneratorExp, ast.ListComp)):
            out.extend(copy.deepcopy(it.args[0].generators))
            out.append(ast.comprehension(target=g0.target, iter=copy.deepcopy(it.args[0].elt), ifs=g0.ifs, is_async=0))
        else:
            out.append(g0)
    gen.generators = out
    return gen


def deref(cfg: CFG, at: int, e: ast.AST, depth: int = 4) -> ast.AST:
    """If `e` is a plain name with exactly one reaching plain definition, that definition's value (followed through chains of such names); else `e` itself.
    Unlike resolved() nothing INSIDE the expression is touched."""
    while depth > 0 and isinstance(e, ast.Name):
        ds = cfg.reaching(at, e.id)
        if len(ds) == 1 and ds[0].kind == "assign" and ds[0].value is not None:
            e, at = ds[0].value, ds[0].node
            depth -= 1
        else:
            break
    return e


def values_through_new_helper(model, fi: FuncInfo, v: ast.AST) -> List[ast.AST]:
    """If `v` is a call to a function the reference tree does not have, every value that function can hand back (each `return`, conditional expressions split,
    temporaries followed), rewritten over the caller's vocabulary; otherwise [v]."""
    from . import report as _report
    from .cfg import cfg_of
    if not isinstance(v, ast.Call):
        return [v]
    callee = model.resolve_call(fi, v)
    if callee is None or _report.CURRENT_DRIFT.get(callee.fq, 0) is not None or isinstance(callee.node, ast.Lambda):
        return [v]
    from .guards import return_cases
    ccfg = cfg_of(callee)
    out = []
    from .model import walk_body
    rets = [st for st in walk_body(callee) if isinstance(st, ast.Return)]
    for st in rets:
        vals = [st.value]
        todo = []
        while vals:
            x = vals.pop()
            if isinstance(x, ast.IfExp):
                vals += [x.body, x.orelse]
            else:
                todo.append(x)
        for x in todo:
            if x is None:
                out.append(ast.Constant(value=None))
                continue
            x = deref(ccfg, ccfg.node_for(st), x)
            y = in_caller_terms(callee, v, x)
            if y is None:
                return [v]
            out.append(y)
    return out or [v]
