"""E4 (dimensions): scalars carry exponent vectors over (fu, px, em, vbu); + - max min compare need equal dimensions,
* / add and subtract exponents, numeric literals are polymorphic. Unknown operands never fail."""
from __future__ import annotations

import ast
from dataclasses import dataclass
from typing import Dict, List, Optional, Tuple

from .model import AnalysisError, FuncInfo, Model, callee_tail, norm, short

BASE = ("fu", "px", "em", "vbu")
Dim = Tuple[int, int, int, int]
ONE: Dim = (0, 0, 0, 0)
UNKNOWN = "unknown"
ANY = None  # polymorphic literal


def parse_dim(s: str) -> Dim:
    """'fu', 'px/em', 'fu/vbu', '1'"""
    s = s.strip()
    if s in ("1", ""):
        return ONE
    num, _, den = s.partition("/")
    v = [0, 0, 0, 0]
    for part, sign in ((num, 1), (den, -1)):
        for tok in part.split("*"):
            tok = tok.strip()
            if not tok or tok == "1":
                continue
            v[BASE.index(tok)] += sign
    return tuple(v)


def show(d) -> str:
    if d is ANY:
        return "number"
    if d == UNKNOWN:
        return "?"
    num = "*".join(b if e == 1 else f"{b}^{e}" for b, e in zip(BASE, d) if e > 0)
    den = "*".join(b if e == -1 else f"{b}^{-e}" for b, e in zip(BASE, d) if e < 0)
    return (num or "1") + ("/" + den if den else "")


@dataclass
class DimError:
    fi: FuncInfo
    node: ast.AST
    message: str


PRESERVING = {"round", "int", "abs", "float", "otRound", "floor", "ceil", "_nudge_into_range_value"}


class DimChecker:
    def __init__(self, model: Model, fi: FuncInfo, seeds: Dict[str, str], rets: Dict[str, object], ret: Optional[object] = None,
                 sinks: Optional[Dict[str, str]] = None, params: Optional[Dict[str, List[Optional[str]]]] = None):
        self.params = params or {}
        self.model = model
        self.fi = fi
        self.seeds = {k: parse_dim(v) for k, v in seeds.items()}
        self.rets = rets
        self.ret = ret
        self.sinks = {k: parse_dim(v) for k, v in (sinks or {}).items()}
        self.errors: List[DimError] = []
        self.checked: List[str] = []
        self.env: Dict[str, object] = {}
        self.overridden: set = set()  # seeded names that the function itself binds to a value of known dimension: the binding wins over the declaration

    def err(self, node, msg):
        self.errors.append(DimError(self.fi, node, msg))

    def same(self, a, b, node, what) -> object:
        if a == UNKNOWN or b == UNKNOWN:
            return UNKNOWN
        if a is ANY:
            return b
        if b is ANY:
            return a
        if a != b:
            self.err(node, f"{what}: {show(a)} vs {show(b)}")
            return UNKNOWN
        self.checked.append(f"{what}: both {show(a)}  [{short(node, 70)}]")
        return a

    def ev(self, e) -> object:
        txt = norm(e)
        if txt in self.seeds and txt not in self.overridden:
            return self.seeds[txt]
        for suf, d in self.seeds.items():
            if suf.startswith("*") and txt.endswith(suf[1:]):
                return d
        if isinstance(e, ast.Constant):
            return ANY if isinstance(e.value, (int, float)) and not isinstance(e.value, bool) else UNKNOWN
        if isinstance(e, ast.Name):
            return self.env.get(e.id, UNKNOWN)
        if isinstance(e, ast.UnaryOp) and isinstance(e.op, (ast.USub, ast.UAdd)):
            return self.ev(e.operand)
        if isinstance(e, ast.BinOp):
            a, b = self.ev(e.left), self.ev(e.right)
            if isinstance(e.op, (ast.Add, ast.Sub)):
                return self.same(a, b, e, f"{'sum' if isinstance(e.op, ast.Add) else 'difference'} {short(e, 60)}")
            if isinstance(e.op, (ast.Mult, ast.Div, ast.FloorDiv)):
                if a == UNKNOWN or b == UNKNOWN:
                    return UNKNOWN
                a2 = ONE if a is ANY else a
                b2 = ONE if b is ANY else b
                sign = 1 if isinstance(e.op, ast.Mult) else -1
                r = tuple(x + sign * y for x, y in zip(a2, b2))
                if a is ANY and b is ANY:
                    return ANY
                return r
            return UNKNOWN
        if isinstance(e, ast.Call):
            fn = norm(e.func)
            tail = callee_tail(e)
            if tail not in self.rets and tail not in self.params:
                # a single-expression helper the reference tree does not have stands for its body
                from .dataflow import inline_new_helpers
                e2 = inline_new_helpers(e, self.fi, depth=2)
                if norm(e2) != norm(e):
                    return self.ev(e2)
            if tail in PRESERVING and e.args:
                return self.ev(e.args[0])
            if fn in ("max", "min") and len(e.args) >= 2:
                d = self.ev(e.args[0])
                for a in e.args[1:]:
                    d = self.same(d, self.ev(a), e, f"{fn}(...) operands")
                return d
            if fn in ("max", "min", "only", "util.only") and len(e.args) == 1 and isinstance(e.args[0], (ast.GeneratorExp, ast.SetComp, ast.ListComp)):
                return self.ev(e.args[0].elt)
            if tail in self.params:
                for a, want in zip(e.args, self.params[tail]):
                    got = self.ev(a)
                    if want is not None:
                        self.same(parse_dim(want), got, a, f"argument {short(a, 30)} of {tail}(...)")
            if tail in self.rets:
                r = self.rets[tail]
                # still evaluate arguments for nested checks
                for a in e.args:
                    self.ev(a)
                return tuple(parse_dim(x) for x in r) if isinstance(r, (list, tuple)) and r and isinstance(r[0], str) else parse_dim(r)
            if tail == "_nudge_into_range" and len(e.args) >= 2:
                return self.ev(e.args[1])
            for a in e.args:
                self.ev(a)
            return UNKNOWN
        if isinstance(e, ast.Compare):
            d = self.ev(e.left)
            for c in e.comparators:
                d2 = self.ev(c)
                if not any(isinstance(o, (ast.In, ast.NotIn, ast.Is, ast.IsNot)) for o in e.ops):
                    self.same(d, d2, e, f"comparison {short(e, 60)}")
            return UNKNOWN
        if isinstance(e, ast.IfExp):
            return self.same(self.ev(e.body), self.ev(e.orelse), e, "conditional branches")
        if isinstance(e, ast.Tuple):
            return tuple(self.ev(x) for x in e.elts)
        if isinstance(e, ast.Subscript):
            base = self.ev(e.value)
            if isinstance(base, tuple) and base and isinstance(base[0], tuple) and isinstance(e.slice, ast.Constant):
                return base[e.slice.value]
            return UNKNOWN
        return UNKNOWN

    def run(self):
        for st in self.fi.body:
            self.stmt(st)
        return self

    def stmt(self, st):
        if isinstance(st, ast.Assign):
            d = self.ev(st.value)
            for t in st.targets:
                self.bind(t, d, st)
        elif isinstance(st, ast.AnnAssign) and st.value is not None:
            self.bind(st.target, self.ev(st.value), st)
        elif isinstance(st, ast.Return) and st.value is not None:
            d = self.ev(st.value)
            if self.ret is not None:
                want = tuple(parse_dim(x) for x in self.ret) if isinstance(self.ret, (list, tuple)) else parse_dim(self.ret)
                if isinstance(want, tuple) and want and isinstance(want[0], tuple):
                    if isinstance(d, tuple) and len(d) == len(want) and d and isinstance(d[0], (tuple, type(None), str)):
                        for w, g in zip(want, d):
                            self.same(w, g, st, "returned component")
                else:
                    self.same(want, d, st, f"return value of {self.fi.name}")
        elif isinstance(st, ast.Expr):
            self.ev(st.value)
        elif isinstance(st, (ast.If, ast.While)):
            self.ev(st.test)
            for s in st.body + st.orelse:
                self.stmt(s)
        elif isinstance(st, ast.For):
            for s in st.body + st.orelse:
                self.stmt(s)
        elif isinstance(st, ast.Assert):
            self.ev(st.test)
        elif isinstance(st, (ast.With, ast.Try)):
            for s in st.body:
                self.stmt(s)

    def bind(self, t, d, node):
        if isinstance(t, ast.Name):
            self.env[t.id] = d
            if t.id in self.seeds and d != UNKNOWN and d is not ANY and not (isinstance(d, tuple) and d and isinstance(d[0], tuple)):
                self.overridden.add(t.id)
        elif isinstance(t, (ast.Tuple, ast.List)) and isinstance(d, tuple) and len(d) == len(t.elts) and (not d or isinstance(d[0], (tuple, type(None), str))):
            for x, dd in zip(t.elts, d):
                self.bind(x, dd, node)
        elif isinstance(t, ast.Attribute):
            key = norm(t)
            for pat, want in self.sinks.items():
                if key.endswith(pat):
                    self.same(want, d, node, f"sink {key}")


def keyword_dims(chk: DimChecker, call: ast.Call, wants: Dict[str, str]):
    for k in call.keywords:
        if k.arg in wants:
            chk.same(parse_dim(wants[k.arg]), chk.ev(k.value), k.value, f"{norm(call.func)}({k.arg}=...)")
