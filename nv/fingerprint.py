"""E0b: effect fingerprints.  A function's observable doing, spelled without its temporaries.

For every function the statements that DO something (calls evaluated for effect, stores into attributes / items, returns of a value, raises, loop and
`with` headers, bindings whose value is not a plain value expression) are listed in source order.  Each is written with every single-definition local
replaced by its definition (dataflow.resolved), parameters called by position, the remaining locals numbered by first appearance, and the canonical
conditions it is control dependent on.  Two spellings of a function that differ only in naming, in which pure sub-expressions got a name, in how one name
is split or merged, in guard-clause vs nested-if style, have the same fingerprint.  It is compared with the fingerprint of the same function in the tree
the rules were confirmed on (stored in nv/refnames.json): when they are equal the function does what the reference function does, so a rule that merely
fails to READ the current spelling has nothing to report about it.

Sound direction only: equal fingerprints are used to silence "unrecognised form" outcomes, never to establish a violation; a change of behaviour changes
an effect, its order or its condition, hence the fingerprint (the text of every evaluated expression is part of it)."""
from __future__ import annotations

import ast
import copy
import hashlib
from typing import Dict, List, Optional, Tuple

from .cfg import cfg_of
from .model import FuncInfo


def _pure(e) -> bool:
    from .normalize import _pure as p
    return p(e)


class _Canon(ast.NodeTransformer):
    """params by position, other locals by first appearance, comprehension variables per comprehension."""

    def __init__(self, fi: FuncInfo, table: Dict[str, str], locals_: set):
        self.fi = fi
        self.table = table
        self.locals = locals_
        self.comp_depth = 0
        self.comp_stack: List[Dict[str, str]] = []

    def _name(self, n: str) -> str:
        for frame in reversed(self.comp_stack):
            if n in frame:
                return frame[n]
        if n in self.table:
            return self.table[n]
        if n in self.locals:
            self.table[n] = f"$v{sum(1 for v in self.table.values() if v.startswith('$v'))}"
            return self.table[n]
        return n

    def visit_Name(self, n):
        return ast.copy_location(ast.Name(id=self._name(n.id), ctx=ast.Load()), n)

    def _comp(self, n):
        frame: Dict[str, str] = {}
        self.comp_stack.append(frame)
        k = sum(len(f) for f in self.comp_stack)
        gens = []
        for g in n.generators:
            it = self.visit(copy.deepcopy(g.iter))
            for t in ast.walk(g.target):
                if isinstance(t, ast.Name) and t.id not in frame:
                    frame[t.id] = f"$c{k}"
                    k += 1
            tg = self.visit(copy.deepcopy(g.target))
            ifs = [self.visit(copy.deepcopy(c)) for c in g.ifs]
            gens.append(ast.comprehension(target=tg, iter=it, ifs=ifs, is_async=g.is_async))
        if isinstance(n, ast.DictComp):
            out = ast.DictComp(key=self.visit(copy.deepcopy(n.key)), value=self.visit(copy.deepcopy(n.value)), generators=gens)
        else:
            out = type(n)(elt=self.visit(copy.deepcopy(n.elt)), generators=gens)
        self.comp_stack.pop()
        return out

    visit_ListComp = visit_SetComp = visit_GeneratorExp = visit_DictComp = _comp

    def visit_Lambda(self, n):
        frame = {a.arg: f"$l{i}" for i, a in enumerate(n.args.args)}
        self.comp_stack.append(frame)
        out = ast.Lambda(args=ast.arguments(posonlyargs=[], args=[ast.arg(arg=frame[a.arg]) for a in n.args.args], kwonlyargs=[], kw_defaults=[], defaults=[]),
                         body=self.visit(copy.deepcopy(n.body)))
        self.comp_stack.pop()
        return out


def fingerprint(fi: FuncInfo, model=None) -> Optional[List[str]]:
    from .dataflow import resolved, fold_tuples
    from .guards import _atoms, canon_fact
    from .normalize import _negate
    if isinstance(fi.node, ast.Lambda):
        return None
    try:
        cfg = cfg_of(fi)
    except Exception:
        return None
    params = fi.params
    table: Dict[str, str] = {}
    for i, p in enumerate(params):
        table[p] = "$self" if (fi.cls and i == 0 and p in ("self", "cls")) else f"$p{i}"
    locals_ = set()
    for n in ast.walk(fi.node):
        if isinstance(n, ast.Name) and isinstance(n.ctx, (ast.Store, ast.Del)):
            locals_.add(n.id)
    canon = _Canon(fi, table, locals_)

    def txt(e, at) -> str:
        if e is None:
            return "None"
        try:
            r = fold_tuples(resolved(cfg, at, e))
        except Exception:
            r = copy.deepcopy(e)
        try:
            return ast.unparse(canon.visit(copy.deepcopy(r)))
        except Exception:
            return ast.unparse(r)

    def facts(at) -> str:
        out = []
        try:
            cts = cfg.controlling_tests(at)
        except Exception:
            cts = []
        for t, lab in cts:
            tn = cfg.nodes[t]
            test = getattr(tn.ast, "test", None)
            if isinstance(tn.ast, (ast.For, ast.AsyncFor, ast.While)) and lab == "T":
                out.append(f"@loop{loop_index.get(id(tn.ast), '?')}")  # which loop body the statement belongs to
            if test is None or isinstance(tn.ast, ast.While):
                continue
            for e, pol in _atoms(test, lab == "T", cfg, t, depth=0):
                # orderings are put in one spelling, negation folded into the polarity
                x, p = e, pol
                if isinstance(x, ast.Compare) and len(x.ops) == 1 and isinstance(x.ops[0], (ast.GtE, ast.Gt)) :
                    x, p = _negate(x), not p
                ct, cp = canon_fact(x, p)
                # canon_fact normalises on the unresolved expression; resolve + canonical names for the text
                try:
                    node = ast.parse(ct, mode="eval").body
                except SyntaxError:
                    node = x
                out.append(("" if cp else "not ") + txt(node, t))
        return " & ".join(sorted(set(out)))

    entries: List[str] = []
    loop_index = {id(n): i for i, n in enumerate(x for x in ast.walk(fi.node) if isinstance(x, (ast.For, ast.AsyncFor, ast.While)))}
    in_loop_or_try = set()
    for n in ast.walk(fi.node):
        if isinstance(n, (ast.For, ast.AsyncFor, ast.While, ast.Try, ast.With)):
            for b in ast.walk(n):
                if b is not n:
                    in_loop_or_try.add(id(b))
    # what is mutated where (method calls that change their receiver, stores into items / attributes, augmented assignments): a value expression that reads
    # something mutated later in the function is not freely movable, so its binding keeps its place in the fingerprint
    from .normalize import _MUTATORS, _pos
    mutated: List[Tuple[Tuple[int, int], str]] = []
    for n in ast.walk(fi.node):
        if isinstance(n, ast.Call) and isinstance(n.func, ast.Attribute) and n.func.attr in _MUTATORS:
            for x in ast.walk(n.func.value):
                if isinstance(x, ast.Name):
                    mutated.append((_pos(n), x.id))
                if isinstance(x, ast.Attribute):
                    mutated.append((_pos(n), "." + x.attr))
        if isinstance(n, (ast.Subscript, ast.Attribute)) and isinstance(n.ctx, (ast.Store, ast.Del)):
            for x in ast.walk(n.value):
                if isinstance(x, ast.Name):
                    mutated.append((_pos(n), x.id))
            if isinstance(n, ast.Attribute):
                mutated.append((_pos(n), "." + n.attr))
        if isinstance(n, ast.AugAssign):
            for x in ast.walk(n.target):
                if isinstance(x, ast.Name):
                    mutated.append((_pos(n), x.id))
                if isinstance(x, ast.Attribute):
                    mutated.append((_pos(n), "." + x.attr))
    stores_pos: Dict[str, List[Tuple[int, int]]] = {}
    for n in ast.walk(fi.node):
        if isinstance(n, ast.Name) and isinstance(n.ctx, (ast.Store, ast.Del)):
            stores_pos.setdefault(n.id, []).append(_pos(n))

    # names that some use sees with more than one (or no) reaching definition: loop-carried and conditionally bound names.  Only those stay names in the
    # resolved expressions; a name re-bound step by step (every use sees one definition) is just a chain of values
    merged = set()
    for n in ast.walk(fi.node):
        if isinstance(n, ast.Name) and isinstance(n.ctx, ast.Load) and n.id in locals_ and n.id not in merged:
            try:
                ds = cfg.reaching(cfg.node_for(n), n.id)
            except Exception:
                ds = []
            if len(ds) != 1 or ds[0].kind not in ("assign", "unpack"):
                merged.add(n.id)

    from .normalize import _structural_reads, _handed_over
    handed = _handed_over(fi.node)

    def movable(st, value) -> bool:
        here = _pos(st)
        sr = _structural_reads(value)
        if sr and any(pos > here and what in sr for pos, what in handed):
            return False
        bases = {m.id for m in ast.walk(value) if isinstance(m, ast.Name)}
        attrs = {"." + m.attr for m in ast.walk(value) if isinstance(m, ast.Attribute)}
        if any(pos >= here and (what in bases or what in attrs) for pos, what in mutated):
            return False
        if any(p_ > here for b in bases for p_ in stores_pos.get(b, [])):
            return False
        return True

    def own_statements(body):
        for st in body:
            yield st
            if isinstance(st, (ast.FunctionDef, ast.AsyncFunctionDef, ast.ClassDef)):
                continue
            for f in ("body", "orelse", "finalbody"):
                sub = getattr(st, f, None)
                if isinstance(sub, list) and sub and isinstance(sub[0], ast.stmt):
                    if f == "orelse" and isinstance(st, ast.Try):
                        entries_marker.append((st, "else"))
                    yield from own_statements(sub)
            if isinstance(st, ast.Try):
                for h in st.handlers:
                    yield h
                    yield from own_statements(h.body)

    entries_marker: List = []
    for st in own_statements(fi.body):
        if isinstance(st, ast.ExceptHandler):
            entries.append(f"except {ast.unparse(st.type) if st.type is not None else ''}")
            continue
        try:
            at = cfg.node_for(st)
        except Exception:
            at = None
        if at is None:
            continue
        if isinstance(st, ast.Expr):
            if isinstance(st.value, ast.Constant):
                continue  # docstring
            entries.append(f"do {txt(st.value, at)} if {facts(at)}")
        elif isinstance(st, ast.Return):
            if st.value is None or (isinstance(st.value, ast.Constant) and st.value.value is None):
                if id(st) in in_loop_or_try:
                    entries.append(f"return None if {facts(at)}")  # leaving a loop early is an effect of its own
                continue
            entries.append(f"return {txt(st.value, at)} if {facts(at)}")
        elif isinstance(st, ast.Raise):
            entries.append(f"raise {txt(st.exc, at) if st.exc is not None else ''} if {facts(at)}")
        elif isinstance(st, ast.Assert):
            entries.append(f"assert {txt(st.test, at)} if {facts(at)}")
        elif isinstance(st, (ast.Assign, ast.AnnAssign, ast.AugAssign)):
            targets = st.targets if isinstance(st, ast.Assign) else [st.target]
            value = st.value
            if value is None:
                continue
            stores = [t for t in targets if not isinstance(t, (ast.Name, ast.Tuple, ast.List))]
            op = type(st.op).__name__ if isinstance(st, ast.AugAssign) else ""
            if stores:
                for t in stores:
                    entries.append(f"store{op} {txt(t, at)} = {txt(value, at)} if {facts(at)}")
            name_targets = [t for t in targets if isinstance(t, (ast.Name, ast.Tuple, ast.List))]
            if name_targets:
                multi = any(isinstance(nm, ast.Name) and nm.id in merged for t in name_targets for nm in ast.walk(t))
                if isinstance(st, ast.AugAssign) or multi:
                    # a name with several definitions stays a name in later expressions: its bindings are part of what the function does
                    for t in name_targets:
                        entries.append(f"bind{op} {txt(t, at) if not isinstance(t, ast.Name) else canon._name(t.id)} = {txt(value, at)} if {facts(at)}")
                elif not _pure(value) or not movable(st, value):
                    entries.append(f"eval {txt(value, at)} if {facts(at)}")
        elif isinstance(st, (ast.For, ast.AsyncFor)):
            tg = ast.unparse(canon.visit(copy.deepcopy(st.target)))
            entries.append(f"for {tg} in {txt(st.iter, at)} if {facts(at)}")
        elif isinstance(st, ast.While):
            entries.append(f"while {txt(st.test, at)} if {facts(at)}")
        elif isinstance(st, (ast.With, ast.AsyncWith)):
            for it in st.items:
                entries.append(f"with {txt(it.context_expr, at)} if {facts(at)}")
        elif isinstance(st, ast.Try):
            entries.append("try")
        elif isinstance(st, ast.Break):
            entries.append(f"break if {facts(at)}")
        elif isinstance(st, ast.Delete):
            for t in st.targets:
                entries.append(f"del {txt(t, at)} if {facts(at)}")
        elif isinstance(st, (ast.FunctionDef, ast.AsyncFunctionDef)):
            inner = None
            if model is not None:
                inner = fi.module.functions.get(f"{fi.qualname}.{st.name}")
            sub = fingerprint(inner, model) if inner is not None else None
            entries.append(f"def {canon._name(st.name)} {digest(sub) if sub is not None else '?'}")
        elif isinstance(st, ast.ClassDef):
            entries.append(f"class {st.name}")
    # an `eval X` whose value is consumed exactly once, by the very next effect, is that effect's own sub-expression (a named intermediate result)
    out: List[str] = []
    for i, e in enumerate(entries):
        if e.startswith("eval "):
            x = e[5:].rsplit(" if ", 1)[0]
            later = entries[i + 1:]
            if later and len(x) > 3 and sum(l.count(x) for l in later) == 1 and x in later[0] and e.rsplit(" if ", 1)[1] == later[0].rsplit(" if ", 1)[1]:
                continue
        out.append(e)
    return out


def digest(fp: Optional[List[str]]) -> Optional[str]:
    if fp is None:
        return None
    return hashlib.sha1("\n".join(fp).encode()).hexdigest()[:16]


def module_level_digest(tree: ast.Module) -> str:
    """Everything of a module that is not inside a function: imports, assignments, class headers and class-level statements."""
    parts: List[str] = []

    def rec(body, prefix):
        for st in body:
            if isinstance(st, (ast.FunctionDef, ast.AsyncFunctionDef)):
                parts.append(f"{prefix}def {st.name}({ast.unparse(st.args)}) {[ast.unparse(d) for d in st.decorator_list]}")
            elif isinstance(st, ast.ClassDef):
                parts.append(f"{prefix}class {st.name}({[ast.unparse(b) for b in st.bases]}) {[ast.unparse(d) for d in st.decorator_list]}")
                rec(st.body, prefix + st.name + ".")
            elif isinstance(st, (ast.Import, ast.ImportFrom)):
                continue  # an unused or newly needed import changes nothing by itself; what is called is part of the functions' fingerprints
            elif isinstance(st, ast.Expr) and isinstance(st.value, ast.Constant):
                continue
            else:
                parts.append(prefix + ast.unparse(st))
    rec(tree.body, "")
    return hashlib.sha1("\n".join(parts).encode()).hexdigest()[:16]


def reference_fingerprints(model) -> dict:
    out = {"functions": {}, "modules": {}}
    for fi in model.all_functions():
        if isinstance(fi.node, ast.Lambda):
            continue
        out["functions"][fi.fq] = {"text": hashlib.sha1(ast.unparse(fi.node).encode()).hexdigest()[:16], "effects": digest(fingerprint(fi, model))}
    for name, mod in model.modules.items():
        out["modules"][name] = module_level_digest(mod.tree)
    return out


def compare_with_reference(model, ref: dict) -> Tuple[set, bool, List[str]]:
    """-> (functions that do what their reference namesake does, whole tree equivalent?, what differs)"""
    same = set()
    differs: List[str] = []
    cur = {fi.fq: fi for fi in model.all_functions() if not isinstance(fi.node, ast.Lambda)}
    for fq, r in ref.get("functions", {}).items():
        fi = cur.get(fq)
        if fi is None:
            differs.append(f"{fq}: gone")
            continue
        if hashlib.sha1(ast.unparse(fi.node).encode()).hexdigest()[:16] == r["text"]:
            same.add(fq)
            continue
        if r.get("effects") is not None and digest(fingerprint(fi, model)) == r["effects"]:
            same.add(fq)
        else:
            differs.append(fq)
    for name, d in ref.get("modules", {}).items():
        mod = model.modules.get(name)
        if mod is None or module_level_digest(mod.tree) != d:
            differs.append(f"<module {name}>")
    for name in model.modules:
        if name not in ref.get("modules", {}):
            differs.append(f"<new module {name}>")
    return same, not differs, differs
