"""Constant folding of small methods over constant ranges (an abstract evaluation on the syntax tree).

Used for PaintLinearGradient/PaintRadialGradient.check_overflows: loops over range(k)/constant tuples are unrolled,
f-strings over the loop constants are folded, getattr(self, "<const>") becomes the symbol 'self.<const>', subscripts
of symbols by constants become 'self.p0[1]', and every `if not (LO <= sym <= HI): raise` is recorded as a bound check
(sym, LO, HI). Anything outside these idioms raises Unfoldable -> ANALYSIS-ERROR (never a verdict)."""
from __future__ import annotations

import ast
from dataclasses import dataclass
from typing import Any, Dict, List, Tuple

from .model import AnalysisError, norm, short


class Unfoldable(AnalysisError):
    pass


@dataclass(frozen=True)
class Sym:
    text: str

    def __repr__(self):
        return self.text


class Folder:
    def __init__(self, consts: Dict[str, Any], selfname: str = "self", max_steps: int = 5000):
        self.consts = consts
        self.selfname = selfname
        self.checks: List[Tuple[str, Any, Any]] = []
        self.steps = 0
        self.max_steps = max_steps

    # -- expressions -----------------------------------------------------------------------
    def ev(self, e: ast.AST, env: Dict[str, Any]):
        self.steps += 1
        if self.steps > self.max_steps:
            raise Unfoldable("evaluation budget exhausted")
        if isinstance(e, ast.Constant):
            return e.value
        if isinstance(e, ast.Name):
            if e.id in env:
                return env[e.id]
            if e.id in self.consts:
                return self.consts[e.id]
            if e.id == self.selfname:
                return Sym(self.selfname)
            raise Unfoldable(f"unknown name {e.id}")
        if isinstance(e, ast.JoinedStr):
            s = ""
            for v in e.values:
                if isinstance(v, ast.Constant):
                    s += str(v.value)
                elif isinstance(v, ast.FormattedValue):
                    x = self.ev(v.value, env)
                    if isinstance(x, Sym):
                        raise Unfoldable("symbol inside f-string")
                    s += str(x)
            return s
        if isinstance(e, (ast.Tuple, ast.List)):
            vals = [self.ev(x, env) for x in e.elts]
            return tuple(vals) if isinstance(e, ast.Tuple) else list(vals)
        if isinstance(e, ast.Dict):
            return {self.ev(k, env): self.ev(v, env) for k, v in zip(e.keys, e.values)}
        if isinstance(e, ast.Call):
            fn = norm(e.func)
            if fn == "range":
                args = [self.ev(a, env) for a in e.args]
                if any(isinstance(a, Sym) for a in args):
                    raise Unfoldable("symbolic range")
                return list(range(*args))
            if fn == "getattr" and len(e.args) == 2:
                base = self.ev(e.args[0], env)
                nm = self.ev(e.args[1], env)
                if isinstance(base, Sym) and isinstance(nm, str):
                    return Sym(f"{base.text}.{nm}")
            if isinstance(e.func, ast.Attribute) and e.func.attr in ("append", "extend"):
                tgt = self.ev(e.func.value, env)
                if not isinstance(tgt, list):
                    raise Unfoldable("append on non-list")
                arg = e.args[0]
                if e.func.attr == "append":
                    tgt.append(self.ev(arg, env))
                else:
                    if isinstance(arg, ast.GeneratorExp):
                        tgt.extend(self.comp(arg, env))
                    else:
                        tgt.extend(self.ev(arg, env))
                return None
            raise Unfoldable(f"call {short(e)}")
        if isinstance(e, ast.Attribute):
            base = self.ev(e.value, env)
            if isinstance(base, Sym):
                return Sym(f"{base.text}.{e.attr}")
            raise Unfoldable(f"attribute of constant {short(e)}")
        if isinstance(e, ast.Subscript):
            base = self.ev(e.value, env)
            idx = self.ev(e.slice, env)
            if isinstance(base, Sym):
                return Sym(f"{base.text}[{idx}]")
            return base[idx]
        if isinstance(e, ast.GeneratorExp) or isinstance(e, ast.ListComp):
            return self.comp(e, env)
        if isinstance(e, ast.Compare):
            vals = [self.ev(e.left, env)] + [self.ev(c, env) for c in e.comparators]
            if any(isinstance(v, Sym) for v in vals):
                return ("cmp", e.ops, vals)
            res = True
            for op, a, b in zip(e.ops, vals, vals[1:]):
                if isinstance(op, ast.Eq):
                    res = res and a == b
                elif isinstance(op, ast.NotEq):
                    res = res and a != b
                elif isinstance(op, ast.LtE):
                    res = res and a <= b
                elif isinstance(op, ast.Lt):
                    res = res and a < b
                else:
                    raise Unfoldable("comparison operator")
            return res
        if isinstance(e, ast.UnaryOp) and isinstance(e.op, ast.Not):
            v = self.ev(e.operand, env)
            if isinstance(v, tuple) and v and v[0] == "cmp":
                return ("notcmp", v[1], v[2])
            return not v
        if isinstance(e, ast.UnaryOp) and isinstance(e.op, ast.USub):
            return -self.ev(e.operand, env)
        raise Unfoldable(f"expression {short(e)}")

    def comp(self, e, env):
        if len(e.generators) != 1 or e.generators[0].ifs:
            raise Unfoldable("comprehension shape")
        g = e.generators[0]
        out = []
        for v in self.ev(g.iter, env):
            env2 = dict(env)
            self.bind(g.target, v, env2)
            out.append(self.ev(e.elt, env2))
        return out

    def bind(self, target, value, env):
        if isinstance(target, ast.Name):
            env[target.id] = value
        elif isinstance(target, (ast.Tuple, ast.List)):
            vals = list(value)
            if len(vals) != len(target.elts):
                raise Unfoldable("unpack arity")
            for t, v in zip(target.elts, vals):
                self.bind(t, v, env)
        else:
            raise Unfoldable("bind target")

    # -- statements ------------------------------------------------------------------------
    def run(self, stmts, env):
        for st in stmts:
            if isinstance(st, ast.Expr):
                if isinstance(st.value, ast.Constant):
                    continue
                self.ev(st.value, env)
            elif isinstance(st, ast.Assign) and len(st.targets) == 1:
                self.bind(st.targets[0], self.ev(st.value, env), env)
            elif isinstance(st, ast.For):
                for v in self.ev(st.iter, env):
                    self.bind(st.target, v, env)
                    self.run(st.body, env)
            elif isinstance(st, ast.If):
                t = self.ev(st.test, env)
                if isinstance(t, tuple) and t and t[0] in ("cmp", "notcmp"):
                    raises = any(isinstance(b, ast.Raise) for b in st.body)
                    if t[0] == "notcmp" and raises and len(t[2]) == 3 and all(isinstance(o, ast.LtE) for o in t[1]):
                        lo, sym, hi = t[2]
                        if isinstance(sym, Sym) and not isinstance(lo, Sym) and not isinstance(hi, Sym):
                            self.checks.append((sym.text, lo, hi))
                            continue
                    raise Unfoldable(f"symbolic test {short(st.test)}")
                self.run(st.body if t else st.orelse, env)
            elif isinstance(st, ast.Return):
                return
            elif isinstance(st, ast.Raise):
                raise Unfoldable("unconditional raise")
            else:
                raise Unfoldable(f"statement {short(st)}")
