"""E7: guard dominance. Which atomic conditions hold on every path reaching a CFG node."""
from __future__ import annotations

import ast
from typing import List, Optional, Set, Tuple

from .cfg import CFG
from .model import callee_tail, names_in, norm


def _atoms(expr: ast.AST, pol: bool, cfg: CFG, at: int, depth: int = 3) -> List[Tuple[ast.AST, bool]]:
    out: List[Tuple[ast.AST, bool]] = []
    if isinstance(expr, ast.UnaryOp) and isinstance(expr.op, ast.Not):
        return _atoms(expr.operand, not pol, cfg, at, depth)
    if isinstance(expr, ast.BoolOp):
        if isinstance(expr.op, ast.And) and pol:
            for v in expr.values:
                out += _atoms(v, True, cfg, at, depth)
            return out
        if isinstance(expr.op, ast.Or) and not pol:
            for v in expr.values:
                out += _atoms(v, False, cfg, at, depth)
            return out
        return [(expr, pol)]
    if isinstance(expr, ast.Name) and depth > 0:
        defs = cfg.reaching(at, expr.id)
        if len(defs) == 1 and defs[0].value is not None and defs[0].kind == "assign":
            # flag variable: the fact about its defining expression holds if operands are not redefined since
            d = defs[0]
            inner = _atoms(d.value, pol, cfg, d.node, depth - 1)
            ok = True
            for nm in names_in(d.value):
                if [x.node for x in cfg.reaching(at, nm)] != [x.node for x in cfg.reaching(d.node, nm)]:
                    ok = False
            out.append((expr, pol))
            if ok:
                out += inner
            return out
        if len(defs) > 1 and all(d.value is not None and d.kind == "assign" for d in defs):
            # several definitions: a fact holds only if it follows from each of them
            out.append((expr, pol))
            per = []
            for d in defs:
                if isinstance(d.value, ast.Constant):
                    # constant definition contradicting the polarity: that path is infeasible here
                    if bool(d.value.value) != pol:
                        continue
                    per.append(None)  # gives no facts
                    continue
                per.append(_atoms(d.value, pol, cfg, d.node, depth - 1))
            per2 = [p for p in per if p is not None]
            if per2 and len(per2) == len(per):
                common = [a for a in per2[0] if all(any(norm(a[0]) == norm(b[0]) and a[1] == b[1] for b in q) for q in per2[1:])]
                out += common
            return out
    return [(expr, pol)]


def guard_facts(cfg: CFG, at: int, skip_abort_guards: bool = False) -> List[Tuple[ast.AST, bool]]:
    """Atomic (expression, polarity) facts that hold whenever control reaches node `at`.

    With skip_abort_guards, tests whose other branch can only end in an exception (assert, `if bad: raise`) are left
    out: they do not select between two ways of completing normally."""
    facts: List[Tuple[ast.AST, bool]] = []
    for t, lab in cfg.controlling_tests(at):
        tn = cfg.nodes[t]
        test = getattr(tn.ast, "test", None)
        if test is None:
            continue
        if skip_abort_guards:
            other = "F" if lab == "T" else "T"
            succ = [x for x, l in tn.succs if l == other]
            if succ and all(cfg.exit not in cfg.reachable_from(x) for x in succ):
                continue
        facts += _atoms(test, lab == "T", cfg, t)
    return facts


def fact_calls(facts, pred: str, polarity: bool = True) -> List[ast.Call]:
    out = []
    for e, pol in facts:
        if pol == polarity and isinstance(e, ast.Call) and callee_tail(e) == pred:
            out.append(e)
    return out


def guarded_names(facts, pred: str) -> Set[str]:
    """Names covered by a dominating true `pred(...)` call (positional or *starred args)."""
    out: Set[str] = set()
    for c in fact_calls(facts, pred, True):
        for a in c.args:
            out |= names_in(a)
    return out


def same_defs(cfg: CFG, a: int, b: int, name: str) -> bool:
    return [d.node for d in cfg.reaching(a, name)] == [d.node for d in cfg.reaching(b, name)]


def flag_values(facts) -> dict:
    """{name: bool} for facts about plain flag variables, in any of the spellings x / not x / x is True|False / x == True|False."""
    out = {}
    for e, pol in facts:
        if isinstance(e, ast.Name):
            out[e.id] = pol
        elif isinstance(e, ast.Compare) and len(e.ops) == 1 and isinstance(e.left, ast.Name) and isinstance(e.comparators[0], ast.Constant) \
                and isinstance(e.comparators[0].value, bool) and isinstance(e.ops[0], (ast.Is, ast.Eq, ast.IsNot, ast.NotEq)):
            same = isinstance(e.ops[0], (ast.Is, ast.Eq))
            val = e.comparators[0].value if same else (not e.comparators[0].value)
            out[e.left.id] = val if pol else (not val)
    return out


def canon_fact(e: ast.AST, pol: bool):
    """One canonical spelling per fact: `x is None` false == `x is not None` true; `not c` true == `c` false; `a != b` true == `a == b` false."""
    while True:
        if isinstance(e, ast.UnaryOp) and isinstance(e.op, ast.Not):
            e, pol = e.operand, not pol
            continue
        if isinstance(e, ast.Compare) and len(e.ops) == 1:
            op = e.ops[0]
            flip = {ast.Is: ast.IsNot, ast.NotEq: ast.Eq, ast.NotIn: ast.In}
            for a, b in flip.items():
                if isinstance(op, a):
                    e = ast.Compare(left=e.left, ops=[b()], comparators=e.comparators)
                    pol = not pol
                    break
        break
    from .model import norm
    return norm(e), pol


def canon_facts(cfg, node, **kw):
    return [canon_fact(e, pol) for e, pol in guard_facts(cfg, node, **kw)]


def return_cases(fi, fold=True):
    """Every way the function hands a value back, by role: [(value expression, sorted canonical facts under which it is returned)].
    `return a if c else b` counts as two cases, exactly like `if c: return a` / `return b`; module-level constants the reference tree
    does not have are folded into the values."""
    from .cfg import cfg_of
    from .dataflow import fold_module_constants
    from .model import walk_body
    cfg = cfg_of(fi)
    out = []

    def split(v, facts):
        if isinstance(v, ast.IfExp):
            split(v.body, facts + [canon_fact(e, p) for e, p in _atoms(v.test, True, cfg, at)])
            split(v.orelse, facts + [canon_fact(e, p) for e, p in _atoms(v.test, False, cfg, at)])
        else:
            out.append((fold_module_constants(v, fi) if fold and v is not None else v, sorted(set(facts))))
    for st in walk_body(fi):
        if isinstance(st, ast.Return):
            at = cfg.node_for(st)
            split(st.value, canon_facts(cfg, at))
    return out


def value_cases(cfg: CFG, st: ast.stmt, value: Optional[ast.AST] = None):
    """The value a statement assigns / returns, case by case: a conditional expression counts like the if/else it abbreviates.
    -> [(value expression, [(fact text, polarity)] holding when that value is taken)]  (facts as norm text, statement guards first)."""
    at = cfg.node_for(st)
    base = [(norm(e), pol) for e, pol in guard_facts(cfg, at)]
    out = []

    def split(v, facts):
        if isinstance(v, ast.IfExp):
            split(v.body, facts + [(norm(e), p) for e, p in _atoms(v.test, True, cfg, at)])
            split(v.orelse, facts + [(norm(e), p) for e, p in _atoms(v.test, False, cfg, at)])
        else:
            out.append((v, facts))
    split(value if value is not None else getattr(st, "value", None), base)
    return out


def _atoms_and_eval(e: ast.AST):
    """Boolean structure of `e`: returns (atoms, fn) where atoms are canonical texts of the non-boolean leaves (a `!=` leaf is the negation of the `==`
    atom, `is None` of `is not None`, `not in` of `in`) and fn(assignment: dict) evaluates e."""
    from .model import norm
    atoms = []

    def leaf(x):
        t, pol = canon_fact(x, True)
        if t not in atoms:
            atoms.append(t)
        return lambda a, t=t, pol=pol: a[t] if pol else (not a[t])

    def build(x):
        if isinstance(x, ast.BoolOp):
            parts = [build(v) for v in x.values]
            if isinstance(x.op, ast.And):
                return lambda a: all(p(a) for p in parts)
            return lambda a: any(p(a) for p in parts)
        if isinstance(x, ast.UnaryOp) and isinstance(x.op, ast.Not):
            inner = build(x.operand)
            return lambda a: not inner(a)
        if isinstance(x, ast.Call) and isinstance(x.func, ast.Name) and x.func.id == "bool" and len(x.args) == 1:
            return build(x.args[0])
        return leaf(x)
    fn = build(e)
    return atoms, fn


def call_condition(cfg: CFG, node: int, fi=None, mention: Tuple[str, ...] = ()):
    """The condition under which `node` executes, restricted to the controlling tests that mention one of the `mention` substrings after every local has been
    resolved to its definition: (atoms, fn).  Named booleans, De Morgan rewrites, nesting and guard clauses all give the same truth table."""
    from .dataflow import resolved, inline_new_helpers
    from .model import norm
    parts = []
    atoms_all = []
    for t, lab in cfg.controlling_tests(node):
        test = getattr(cfg.nodes[t].ast, "test", None)
        if test is None:
            continue
        r = resolved(cfg, t, test)
        if fi is not None:
            r = inline_new_helpers(r, fi)
        if mention and not any(m in norm(r) for m in mention):
            continue
        atoms, fn = _atoms_and_eval(r)
        for a in atoms:
            if a not in atoms_all:
                atoms_all.append(a)
        parts.append((fn, lab == "T"))

    def total(a):
        return all((fn(a) if pol else not fn(a)) for fn, pol in parts)
    return atoms_all, total, len(parts)


def same_truth_table(atoms, fn, expected_atoms, expected_fn) -> bool:
    import itertools
    if set(atoms) != set(expected_atoms):
        return False
    for vals in itertools.product([False, True], repeat=len(atoms)):
        a = dict(zip(atoms, vals))
        if bool(fn(a)) != bool(expected_fn(a)):
            return False
    return True


def canon_compare(e: ast.AST) -> str:
    """One spelling per comparison: `b > a` is `a < b`, `b >= a` is `a <= b`, the operands of == / != are put in text order."""
    if isinstance(e, ast.Compare) and len(e.ops) == 1:
        a, b, op = e.left, e.comparators[0], e.ops[0]
        if isinstance(op, ast.Gt):
            a, b, op = b, a, ast.Lt()
        elif isinstance(op, ast.GtE):
            a, b, op = b, a, ast.LtE()
        elif isinstance(op, (ast.Eq, ast.NotEq)) and norm(a) > norm(b):
            a, b = b, a
        return norm(ast.Compare(left=a, ops=[op], comparators=[b]))
    return norm(e)


def canon_conjuncts(test: ast.AST) -> List[str]:
    """The conjuncts of a test (a single `and`, nested or flat), each in canon_compare spelling, sorted."""
    out = []

    def rec(x):
        if isinstance(x, ast.BoolOp) and isinstance(x.op, ast.And):
            for v in x.values:
                rec(v)
        else:
            out.append(canon_compare(x))
    rec(test)
    return sorted(out)
