"""E1: program model of src/nanoemoji parsed with ast (nothing is imported or executed)."""
from __future__ import annotations

import ast
import hashlib
import os
from dataclasses import dataclass, field
from pathlib import Path
from typing import Dict, Iterable, Iterator, List, Optional, Set, Tuple


class AnalysisError(Exception):
    """The analysis cannot do its job (anchor vanished, idiom unknown, floor unmet)."""


class AnchorMissing(AnalysisError):
    pass


def norm(node) -> str:
    """Normalised source text of a node (position independent)."""
    if node is None:
        return "None"
    if isinstance(node, str):
        return node
    try:
        return ast.unparse(node)
    except Exception:  # pragma: no cover
        return ast.dump(node)


def short(node, n: int = 110) -> str:
    s = " ".join(norm(node).split())
    return s if len(s) <= n else s[: n - 3] + "..."


@dataclass
class FuncInfo:
    module: "Module"
    qualname: str
    node: ast.AST  # FunctionDef | AsyncFunctionDef | Lambda
    cls: Optional[str] = None
    parent: Optional["FuncInfo"] = None

    @property
    def name(self) -> str:
        return self.qualname.rsplit(".", 1)[-1]

    @property
    def fq(self) -> str:
        return f"{self.module.name}.{self.qualname}"

    @property
    def params(self) -> List[str]:
        a = self.node.args
        return [x.arg for x in a.posonlyargs + a.args] + (
            [a.vararg.arg] if a.vararg else []
        ) + [x.arg for x in a.kwonlyargs] + ([a.kwarg.arg] if a.kwarg else [])

    @property
    def body(self) -> List[ast.stmt]:
        if isinstance(self.node, ast.Lambda):
            return [ast.Return(value=self.node.body)]
        return self.node.body

    def loc(self, node=None) -> str:
        n = node if node is not None else self.node
        return f"{self.module.relpath}:{getattr(n, 'lineno', '?')}"


@dataclass
class ClassInfo:
    module: "Module"
    name: str
    node: ast.ClassDef
    bases: List[str]
    fields: List[Tuple[str, Optional[ast.AST], Optional[ast.AST]]]  # (name, annotation, default)
    methods: Dict[str, FuncInfo] = field(default_factory=dict)
    classvars: Dict[str, ast.AST] = field(default_factory=dict)

    def is_dataclass(self) -> bool:
        for d in self.node.decorator_list:
            if "dataclass" in norm(d):
                return True
        return False

    def field_names(self) -> List[str]:
        return [f[0] for f in self.fields]


@dataclass
class Module:
    name: str  # short name, e.g. "write_font"
    path: Path
    relpath: str
    source: str
    tree: ast.Module
    imports: Dict[str, str] = field(default_factory=dict)  # local -> dotted origin
    functions: Dict[str, FuncInfo] = field(default_factory=dict)
    classes: Dict[str, ClassInfo] = field(default_factory=dict)
    assigns: Dict[str, ast.AST] = field(default_factory=dict)  # module-level NAME = value (last)

    def func(self, qualname: str) -> FuncInfo:
        f = self.functions.get(qualname)
        if f is None:
            raise AnchorMissing(f"function {self.name}.{qualname} not found in {self.relpath}")
        return f

    def has_func(self, qualname: str) -> bool:
        return qualname in self.functions

    def cls(self, name: str) -> ClassInfo:
        c = self.classes.get(name)
        if c is None:
            raise AnchorMissing(f"class {self.name}.{name} not found in {self.relpath}")
        return c

    def const(self, name: str) -> ast.AST:
        v = self.assigns.get(name)
        if v is None:
            raise AnchorMissing(f"module-level name {self.name}.{name} not found")
        return v


def _is_classvar(ann) -> bool:
    return ann is not None and "ClassVar" in norm(ann)


class _Indexer(ast.NodeVisitor):
    def __init__(self, mod: Module):
        self.mod = mod
        self.stack: List[str] = []
        self.cls_stack: List[Optional[str]] = [None]
        self.fn_stack: List[Optional[FuncInfo]] = [None]

    # imports -------------------------------------------------------------
    def visit_Import(self, node):
        for a in node.names:
            local = a.asname or a.name.split(".")[0]
            self.mod.imports[local] = a.name if a.asname else a.name.split(".")[0]
            if a.asname:
                self.mod.imports[local] = a.name

    def visit_ImportFrom(self, node):
        base = node.module or ""
        if node.level:
            base = "nanoemoji" + ("." + base if base else "")
        for a in node.names:
            self.mod.imports[a.asname or a.name] = f"{base}.{a.name}"

    # defs ----------------------------------------------------------------
    def _enter_func(self, node, name):
        qual = ".".join(self.stack + [name])
        fi = FuncInfo(self.mod, qual, node, cls=self.cls_stack[-1], parent=self.fn_stack[-1])
        self.mod.functions[qual] = fi  # later definition wins, like Python
        cur_cls = self.cls_stack[-1]
        if cur_cls and self.fn_stack[-1] is None and cur_cls in self.mod.classes:
            self.mod.classes[cur_cls].methods[name] = fi
        self.stack.append(name)
        self.fn_stack.append(fi)
        self.cls_stack.append(None)
        for st in node.body if not isinstance(node, ast.Lambda) else []:
            self.visit(st)
        self.cls_stack.pop()
        self.fn_stack.pop()
        self.stack.pop()

    def visit_FunctionDef(self, node):
        self._enter_func(node, node.name)

    visit_AsyncFunctionDef = visit_FunctionDef

    def visit_ClassDef(self, node):
        fields = []
        classvars = {}
        for st in node.body:
            if isinstance(st, ast.AnnAssign) and isinstance(st.target, ast.Name):
                if _is_classvar(st.annotation):
                    if st.value is not None:
                        classvars[st.target.id] = st.value
                else:
                    fields.append((st.target.id, st.annotation, st.value))
            elif isinstance(st, ast.Assign):
                for t in st.targets:
                    if isinstance(t, ast.Name):
                        classvars[t.id] = st.value
        ci = ClassInfo(self.mod, node.name, node, [norm(b) for b in node.bases], fields, {}, classvars)
        if not self.stack:
            self.mod.classes[node.name] = ci
        self.stack.append(node.name)
        self.cls_stack.append(node.name if len(self.stack) == 1 else None)
        for st in node.body:
            self.visit(st)
        self.cls_stack.pop()
        self.stack.pop()

    def visit_Assign(self, node):
        if not self.stack:
            for t in node.targets:
                if isinstance(t, ast.Name):
                    self.mod.assigns[t.id] = node.value
        self.generic_visit(node)

    def visit_AnnAssign(self, node):
        if not self.stack and isinstance(node.target, ast.Name) and node.value is not None:
            self.mod.assigns[node.target.id] = node.value
        self.generic_visit(node)


@dataclass
class Model:
    repo: Path
    modules: Dict[str, Module] = field(default_factory=dict)
    parse_errors: List[str] = field(default_factory=list)
    normalisation: Dict[str, object] = field(default_factory=dict)
    deletion_only: Set[str] = field(default_factory=set)  # functions that differ from the reference only by removed statements (and whose module got no new function)
    same_effects: Set[str] = field(default_factory=set)  # functions whose effect fingerprint equals the reference function's (nv/fingerprint.py)
    tree_equivalent: bool = False  # every reference function and every module level unchanged in effect
    effect_differences: List[str] = field(default_factory=list)
    drift: Dict[str, Optional[int]] = field(default_factory=dict)  # statement-skeleton distance of each function from the reference tree (None: new function)

    def mod(self, name: str) -> Module:
        m = self.modules.get(name)
        if m is None:
            raise AnchorMissing(f"module nanoemoji.{name} not found under {self.repo}/src/nanoemoji")
        return m

    def func(self, modname: str, qualname: str) -> FuncInfo:
        return self.mod(modname).func(qualname)

    def all_functions(self) -> Iterator[FuncInfo]:
        for m in self.modules.values():
            yield from m.functions.values()

    def call_sites(self, target: "FuncInfo"):
        """Every (calling function, call) in the package whose callee resolves to `target`."""
        cache = getattr(self, "_call_sites", None)
        if cache is None:
            cache = {}
            for m in self.modules.values():
                for f in m.functions.values():
                    if isinstance(f.node, ast.Lambda):
                        continue
                    for c in calls_in(f):
                        r = self.resolve_call(f, c)
                        if r is not None:
                            cache.setdefault(r.fq, []).append((f, c))
            object.__setattr__(self, "_call_sites", cache) if hasattr(type(self), "__dataclass_fields__") else setattr(self, "_call_sites", cache)
        return cache.get(target.fq, [])

    def arguments_for(self, target: "FuncInfo", param: str):
        """The expressions every call site binds to `param` of `target` (positional or keyword): [(caller, call, expr)]; expr None when not passed."""
        ps = [x for x in target.params if not (target.cls and x in ("self", "cls"))]
        out = []
        for f, c in self.call_sites(target):
            e = None
            if param in ps and ps.index(param) < len(c.args) and not any(isinstance(a, ast.Starred) for a in c.args[: ps.index(param) + 1]):
                e = c.args[ps.index(param)]
            for k in c.keywords:
                if k.arg == param:
                    e = k.value
            out.append((f, c, e))
        return out

    def stats(self) -> dict:
        nfunc = sum(len(m.functions) for m in self.modules.values())
        ncls = sum(len(m.classes) for m in self.modules.values())
        ncalls = 0
        for m in self.modules.values():
            ncalls += sum(1 for n in ast.walk(m.tree) if isinstance(n, ast.Call))
        return {
            "modules": len(self.modules),
            "functions": nfunc,
            "classes": ncls,
            "call_sites": ncalls,
            "source_digest": self.digest(),
        }

    def digest(self) -> str:
        h = hashlib.sha256()
        for name in sorted(self.modules):
            h.update(name.encode())
            h.update(self.modules[name].source.encode())
        return h.hexdigest()[:16]

    # -- call resolution ---------------------------------------------------
    def resolve_call(self, fi: FuncInfo, call: ast.Call, fuzzy: bool = False) -> Optional[FuncInfo]:
        """Resolve a call's callee to a FuncInfo in the package, if possible.
        fuzzy: for `obj.method(...)` with an untyped receiver, fall back to the unique method of that name in the package."""
        r = self.resolve_callee(fi, call.func)
        if r is None and fuzzy and isinstance(call.func, ast.Attribute):
            name = call.func.attr
            if name in _COMMON_METHODS or name.startswith("__"):
                return None
            cands = [f for m in self.modules.values() for f in m.functions.values() if f.cls and f.name == name and f.parent is None]
            if len(cands) == 1:
                return cands[0]
        return r

    def resolve_callee(self, fi: FuncInfo, fn: ast.AST) -> Optional[FuncInfo]:
        mod = fi.module
        if isinstance(fn, ast.Name):
            # nested function of an enclosing function
            p: Optional[FuncInfo] = fi
            while p is not None:
                cand = mod.functions.get(f"{p.qualname}.{fn.id}")
                if cand is not None:
                    return cand
                p = p.parent
            if fn.id in mod.functions:
                return mod.functions[fn.id]
            origin = mod.imports.get(fn.id)
            if origin and origin.startswith("nanoemoji."):
                parts = origin.split(".")
                if len(parts) == 3 and parts[1] in self.modules:
                    return self.modules[parts[1]].functions.get(parts[2])
            return None
        if isinstance(fn, ast.Attribute):
            base = fn.value
            if isinstance(base, ast.Name):
                if base.id in ("self", "cls") and fi.cls:
                    return self._method(mod, fi.cls, fn.attr)
                origin = mod.imports.get(base.id)
                if origin and origin.startswith("nanoemoji."):
                    parts = origin.split(".")
                    if len(parts) == 2 and parts[1] in self.modules:
                        return self.modules[parts[1]].functions.get(fn.attr)
                    if len(parts) == 3 and parts[1] in self.modules:
                        # imported class: Class.method
                        return self.modules[parts[1]].functions.get(f"{parts[2]}.{fn.attr}")
                if base.id in mod.classes:
                    return mod.functions.get(f"{base.id}.{fn.attr}")
        return None

    def _method(self, mod: Module, cls: str, name: str) -> Optional[FuncInfo]:
        seen = set()
        todo = [cls]
        while todo:
            c = todo.pop(0)
            if c in seen:
                continue
            seen.add(c)
            f = mod.functions.get(f"{c}.{name}")
            if f is not None:
                return f
            ci = mod.classes.get(c)
            if ci:
                todo.extend(b for b in ci.bases if b in mod.classes)
        return None


_COMMON_METHODS = {
    "append", "add", "get", "items", "keys", "values", "update", "pop", "join", "format", "strip", "split", "startswith",
    "endswith", "read", "write", "save", "open", "parse", "build", "rule", "info", "debug", "warning", "error", "extend",
    "remove", "insert", "index", "count", "copy", "sort", "lower", "upper", "replace", "encode", "decode", "find", "draw",
    "round", "apply", "create", "load", "main", "newline", "comment", "tostring", "fromstring", "match", "search",
}


def load_model(repo: str | os.PathLike = "/repo", normalize: bool = True) -> Model:
    repo = Path(repo)
    src = repo / "src" / "nanoemoji"
    if not src.is_dir():
        raise AnchorMissing(f"{src} is not a directory")
    model = Model(repo)
    parsed = []
    for p in sorted(src.glob("*.py")):
        text = p.read_text(encoding="utf-8")
        try:
            tree = ast.parse(text, filename=str(p))
        except SyntaxError as e:
            raise AnalysisError(f"cannot parse {p}: {e}")
        parsed.append((p, text, tree))
    if normalize and os.environ.get("NV_NO_NORMALIZE") != "1":
        from .normalize import Normalizer
        nz = Normalizer()
        for p, text, tree in parsed:
            nz.module(p.stem, tree)
        nz.fix_keywords({p.stem: tree for p, _, tree in parsed})
        nz.positionalise({p.stem: tree for p, _, tree in parsed})
        from .normalize import functions as _nz_functions, skeleton as _nz_skeleton, skeleton_drift as _nz_drift, skeleton_deletion_only as _nz_del, text_skeleton as _nz_tsk
        drift = {}
        del_only = set()
        new_in_module = {}
        for p, text, tree in parsed:
            for qn, fn in _nz_functions(tree):
                ref = nz.ref.get(f"{p.stem}:{qn}")
                if ref and "skeleton" in ref:
                    sk = _nz_skeleton(fn)
                    drift[f"{p.stem}.{qn}"] = _nz_drift(sk, ref["skeleton"])
                    if "text_skeleton" in ref and _nz_del(_nz_tsk(fn), ref["text_skeleton"]):
                        del_only.add(f"{p.stem}.{qn}")
                else:
                    drift[f"{p.stem}.{qn}"] = None
                    new_in_module[p.stem] = new_in_module.get(p.stem, 0) + 1
        model.drift = drift
        model.deletion_only = {k for k in del_only if not new_in_module.get(k.split(".")[0])}
        model.normalisation = {"renamed": nz.renamed, "temp_returns_inlined": nz.inlined, "log_statements_dropped": nz.log_stmts, "negated_ifs_unflipped": nz.unflipped, "annotated_local_assignments_made_plain": nz.annotated, "new_single_use_temporaries_inlined": nz.temps, "new_accumulator_loops_folded": nz.folded, "new_pure_explaining_variables_inlined": nz.pure_temps, "control_flow_restyled_towards_reference": nz.restyled, "calls_to_new_single_expression_helpers_inlined": nz.helpers_inlined, "new_module_level_literals_folded": nz.constants_folded, "keyword_spelled_positional_arguments": nz.positionalised, "new_helper_bodies_inlined_at_statement_level": nz.helper_bodies_inlined}
    for p, text, tree in parsed:
        mod = Module(p.stem, p, str(p.relative_to(repo)), text, tree)
        _Indexer(mod).visit(tree)
        model.modules[p.stem] = mod
    if len(model.modules) < 10:
        raise AnalysisError(f"only {len(model.modules)} modules parsed under {src}")
    model.same_effects, model.tree_equivalent, model.effect_differences = set(), False, []
    if normalize and os.environ.get("NV_NO_NORMALIZE") != "1" and os.environ.get("NV_NO_FINGERPRINT") != "1":
        fpf = Path(__file__).resolve().parent / "reffp.json"
        if fpf.exists():
            import json as _json
            from .fingerprint import compare_with_reference
            try:
                model.same_effects, model.tree_equivalent, model.effect_differences = compare_with_reference(model, _json.loads(fpf.read_text()))
            except Exception:  # the comparison is an optimisation of precision: without it every reading stands on its own
                model.same_effects, model.tree_equivalent, model.effect_differences = set(), False, ["<comparison failed>"]
    return model


# ---- generic AST helpers -------------------------------------------------------------------


def walk_no_nested(node: ast.AST) -> Iterator[ast.AST]:
    """ast.walk that does not descend into nested function/class definitions or lambdas."""
    todo = [node]
    first = True
    while todo:
        n = todo.pop()
        if not first and isinstance(n, (ast.FunctionDef, ast.AsyncFunctionDef, ast.ClassDef, ast.Lambda)):
            continue
        first = False
        yield n
        todo.extend(ast.iter_child_nodes(n))


FOLLOW_NEW_HELPERS = False


def new_helpers_called(fi: FuncInfo) -> List[FuncInfo]:
    """Functions of fi's module that the reference tree does not have (an 'extract function' refactoring creates them) and that fi calls by name."""
    from . import report as _report
    if not _report.CURRENT_DRIFT:
        return []
    mod = fi.module
    new = {q: f for q, f in mod.functions.items() if _report.CURRENT_DRIFT.get(f"{mod.name}.{q}", 0) is None and f is not fi}
    if not new:
        return []
    out = []
    for st in fi.body:
        for n in ast.walk(st):
            if isinstance(n, ast.Call):
                name = n.func.id if isinstance(n.func, ast.Name) else (n.func.attr if isinstance(n.func, ast.Attribute) and isinstance(n.func.value, ast.Name) and n.func.value.id in ("self", "cls") else None)
                for q, f in new.items():
                    if name is not None and (q == name or q.endswith("." + name)) and f not in out:
                        out.append(f)
    return out


def walk_body(fi: FuncInfo, nested: bool = False, follow_new: Optional[bool] = None) -> Iterator[ast.AST]:
    """Nodes of fi's body.  Statements of helper functions that did not exist in the reference tree and that fi calls are included too (one level):
    a rule that looks for a construct 'in f' still finds it after the construct was moved into an extracted helper."""
    for st in fi.body:
        if nested:
            yield from ast.walk(st)
        else:
            if isinstance(st, (ast.FunctionDef, ast.AsyncFunctionDef, ast.ClassDef)):
                continue
            yield from walk_no_nested(st)
    if FOLLOW_NEW_HELPERS if follow_new is None else follow_new:
        for h in new_helpers_called(fi):
            for st in h.body:
                if nested:
                    yield from ast.walk(st)
                elif not isinstance(st, (ast.FunctionDef, ast.AsyncFunctionDef, ast.ClassDef)):
                    yield from walk_no_nested(st)


def calls_in(fi_or_node, nested: bool = False) -> Iterator[ast.Call]:
    it = walk_body(fi_or_node, nested) if isinstance(fi_or_node, FuncInfo) else (
        ast.walk(fi_or_node) if nested else walk_no_nested(fi_or_node)
    )
    for n in it:
        if isinstance(n, ast.Call):
            yield n


def call_name(call: ast.Call) -> str:
    """Dotted textual name of the callee ('Affine2D.compose_ltr', 'nw.build', 'sorted')."""
    return norm(call.func)


def callee_tail(call: ast.Call) -> str:
    f = call.func
    if isinstance(f, ast.Attribute):
        return f.attr
    if isinstance(f, ast.Name):
        return f.id
    return ""


def find_calls(fi_or_node, tail: str, nested: bool = False) -> List[ast.Call]:
    return [c for c in calls_in(fi_or_node, nested) if callee_tail(c) == tail]


def kwarg(call: ast.Call, name: str) -> Optional[ast.AST]:
    for k in call.keywords:
        if k.arg == name:
            return k.value
    return None


def arg(call: ast.Call, index: int, name: Optional[str] = None) -> Optional[ast.AST]:
    if name is not None:
        v = kwarg(call, name)
        if v is not None:
            return v
    pos = [a for a in call.args]
    if index < len(pos) and not isinstance(pos[index], ast.Starred):
        return pos[index]
    return None


def names_in(node: ast.AST) -> set:
    return {n.id for n in ast.walk(node) if isinstance(n, ast.Name)}


def attr_chain(node: ast.AST) -> Optional[str]:
    """'a.b.c' for Name/Attribute chains, else None."""
    parts = []
    while isinstance(node, ast.Attribute):
        parts.append(node.attr)
        node = node.value
    if isinstance(node, ast.Name):
        parts.append(node.id)
        return ".".join(reversed(parts))
    return None


def parent_map(root: ast.AST) -> Dict[ast.AST, ast.AST]:
    pm = {}
    for n in ast.walk(root):
        for c in ast.iter_child_nodes(n):
            pm[c] = n
    return pm


def enclosing_stmt(node: ast.AST, pm: Dict[ast.AST, ast.AST]) -> ast.stmt:
    while not isinstance(node, ast.stmt):
        node = pm[node]
    return node


def const_value(node: ast.AST, env: Optional[dict] = None):
    """Tiny constant folder: numbers, strings, tuples/lists/sets/dicts of those, unary minus,
    + - * / << on numbers, names bound in env. Raises ValueError when not constant."""
    env = env or {}
    if isinstance(node, ast.Constant):
        return node.value
    if isinstance(node, ast.Name) and node.id in env:
        return env[node.id]
    if isinstance(node, (ast.Tuple, ast.List)):
        return tuple(const_value(e, env) for e in node.elts)
    if isinstance(node, ast.Set):
        return frozenset(const_value(e, env) for e in node.elts)
    if isinstance(node, ast.Dict):
        return {const_value(k, env): const_value(v, env) for k, v in zip(node.keys, node.values)}
    if isinstance(node, ast.UnaryOp) and isinstance(node.op, ast.USub):
        return -const_value(node.operand, env)
    if isinstance(node, ast.BinOp):
        l, r = const_value(node.left, env), const_value(node.right, env)
        ops = {ast.Add: lambda a, b: a + b, ast.Sub: lambda a, b: a - b, ast.Mult: lambda a, b: a * b,
               ast.Div: lambda a, b: a / b, ast.LShift: lambda a, b: a << b, ast.FloorDiv: lambda a, b: a // b}
        for k, f in ops.items():
            if isinstance(node.op, k):
                return f(l, r)
    raise ValueError(f"not a constant: {short(node)}")
