"""E6: static model of the ninja build graph written by nanoemoji.py / maximum_color.py.

Rules (nw.rule / module_rule): name, the $variables their command and rspfile use.
Edge sites (nw.build): output / rule / inputs / implicit / variables expressions with their enclosing function.
Nothing is generated or read: the model is reconstructed from the source of the driver."""
from __future__ import annotations

import ast
import re
from dataclasses import dataclass, field
from typing import Dict, List, Optional, Set, Tuple

from .cfg import cfg_of
from .model import (AnalysisError, FuncInfo, Model, Module, arg, calls_in, callee_tail, kwarg, norm, short, walk_body)

VAR_RE = re.compile(r"\$\{?([A-Za-z_][A-Za-z0-9_]*)\}?")


def string_fragments(e: ast.AST) -> List[str]:
    """All constant string fragments of an expression (f-strings, +, join of tuples)."""
    out = []
    for n in ast.walk(e):
        if isinstance(n, ast.Constant) and isinstance(n.value, str):
            out.append(n.value)
    return out


def dollar_vars(exprs) -> Set[str]:
    out = set()
    for e in exprs:
        if e is None:
            continue
        for s in string_fragments(e):
            out |= set(VAR_RE.findall(s))
    return out


@dataclass
class Rule:
    module: str
    name: Optional[str]  # None when dynamic
    name_expr: ast.AST
    vars: Set[str]
    fi: FuncInfo
    call: ast.Call
    kind: str  # 'rule' | 'module_rule'
    rspfile: bool = False
    command_exprs: List[ast.AST] = field(default_factory=list)
    extra: Dict[str, ast.AST] = field(default_factory=dict)  # other keywords (restat, generator, ...)


@dataclass
class Edge:
    module: str
    fi: FuncInfo
    call: ast.Call
    outputs: ast.AST
    rule_expr: ast.AST
    inputs: Optional[ast.AST]
    implicit: Optional[ast.AST]
    order_only: Optional[ast.AST]
    variables: Optional[ast.AST]

    def site(self) -> str:
        return f"{self.fi.fq}: nw.build({short(self.outputs, 50)}, {short(self.rule_expr, 40)}, ...)"


def _is_nw(call: ast.Call, method: str) -> bool:
    f = call.func
    return isinstance(f, ast.Attribute) and f.attr == method and isinstance(f.value, ast.Name) and f.value.id in ("nw",)


def extract(model: Model, modname: str) -> Tuple[List[Rule], List[Edge]]:
    mod = model.mod(modname)
    rules: List[Rule] = []
    edges: List[Edge] = []
    for fi in mod.functions.values():
        for c in calls_in(fi):
            if _is_nw(c, "rule"):
                name_e = arg(c, 0, "name")
                cmd = arg(c, 1, "command")
                extra = {k.arg: k.value for k in c.keywords if k.arg not in ("name", "command", "rspfile", "rspfile_content")}
                exprs = [cmd, kwarg(c, "rspfile"), kwarg(c, "rspfile_content")]
                # the command may be a name assigned from a string expression
                exprs2 = []
                cfg = cfg_of(fi)
                for e in exprs:
                    if isinstance(e, ast.Name):
                        for d in cfg.reaching(cfg.node_for(c), e.id):
                            if d.value is not None:
                                exprs2.append(d.value)
                    elif e is not None:
                        exprs2.append(e)
                nm = name_e.value if isinstance(name_e, ast.Constant) else (
                    "".join(string_fragments(name_e)) if isinstance(name_e, ast.JoinedStr) and not any(
                        isinstance(v, ast.FormattedValue) for v in name_e.values) else None)
                alts = [nm]
                if nm is None:
                    # `"a" if flag else "b"` (directly or through a temporary): the rule is defined under each of the names
                    from .dataflow import resolved as _resolved

                    def consts(e):
                        if isinstance(e, ast.Constant) and isinstance(e.value, str):
                            return [e.value]
                        if isinstance(e, ast.IfExp):
                            a_, b_ = consts(e.body), consts(e.orelse)
                            return a_ + b_ if a_ and b_ else []
                        return []
                    got = consts(_resolved(cfg, cfg.node_for(c), name_e))
                    if got:
                        alts = got
                for nm_ in alts:
                    rules.append(Rule(modname, nm_, name_e, dollar_vars(exprs2), fi, c, "rule",
                                      kwarg(c, "rspfile") is not None, exprs2, extra))
            elif callee_tail(c) == "module_rule" and isinstance(c.func, ast.Name):
                mod_e = arg(c, 1, "mod_name")
                pat = arg(c, 2, "arg_pattern")
                rn = kwarg(c, "rule_name")
                name_e = rn if rn is not None else mod_e
                nm = name_e.value if isinstance(name_e, ast.Constant) else None
                exprs = [pat, kwarg(c, "rspfile"), kwarg(c, "rspfile_content")]
                extra = {k.arg: k.value for k in c.keywords if k.arg in ("restat", "generator", "depfile", "deps")}
                rules.append(Rule(modname, nm, name_e, dollar_vars(exprs), fi, c, "module_rule",
                                  kwarg(c, "rspfile") is not None, [e for e in exprs if e is not None], extra))
            elif _is_nw(c, "build"):
                edges.append(Edge(modname, fi, c, arg(c, 0, "outputs"), arg(c, 1, "rule"), arg(c, 2, "inputs"),
                                  arg(c, 3, "implicit"), arg(c, 4, "order_only"), arg(c, 5, "variables")))
    return rules, edges


# -- resolving names of rules and keys of variables --------------------------------------------------

def callers_of(model: Model, target: FuncInfo) -> List[Tuple[FuncInfo, ast.Call]]:
    out = []
    for fi in model.all_functions():
        for c in calls_in(fi):
            if model.resolve_call(fi, c) is target:
                out.append((fi, c))
    return out


def bind_args(callee: FuncInfo, call: ast.Call) -> Dict[str, ast.AST]:
    params = callee.params
    out = {}
    for i, a in enumerate(call.args):
        if isinstance(a, ast.Starred):
            break
        if i < len(params):
            out[params[i]] = a
    for k in call.keywords:
        if k.arg:
            out[k.arg] = k.value
    # defaults
    a = callee.node.args
    pos = [x.arg for x in a.posonlyargs + a.args]
    for name, d in zip(pos[len(pos) - len(a.defaults):], a.defaults):
        out.setdefault(name, d)
    for kwn, d in zip([x.arg for x in a.kwonlyargs], a.kw_defaults):
        if d is not None:
            out.setdefault(kwn, d)
    return out


def resolve_values(model: Model, fi: FuncInfo, expr: ast.AST, at: ast.AST, depth: int = 2) -> List[Tuple[FuncInfo, ast.AST, Optional[ast.Call]]]:
    """Possible defining expressions of `expr`, following local reaching definitions and (for parameters)
    the argument expressions at every call site. Returns (function, expression, call-site or None)."""
    out = []
    if not isinstance(expr, ast.Name):
        return [(fi, expr, None)]
    cfg = cfg_of(fi)
    defs = cfg.reaching(cfg.node_for(at), expr.id)
    if not defs:
        return [(fi, expr, None)]
    for d in defs:
        if d.kind == "param":
            if depth <= 0:
                out.append((fi, expr, None))
                continue
            cs = callers_of(model, fi)
            if not cs:
                out.append((fi, expr, None))
            for cfi, call in cs:
                b = bind_args(fi, call)
                if expr.id in b:
                    for r in resolve_values(model, cfi, b[expr.id], call, depth - 1):
                        out.append((r[0], r[1], call if r[2] is None else r[2]))
                else:
                    out.append((fi, expr, call))
        elif d.value is not None and d.kind in ("assign",):
            if isinstance(d.value, ast.Name):
                out += resolve_values(model, fi, d.value, d.stmt, depth)
            else:
                out.append((fi, d.value, None))
        else:
            out.append((fi, expr, None))
    return out


def namedtuple_fields(model: Model, modname: str, cls: str) -> List[str]:
    return model.mod(modname).cls(cls).field_names()


def variable_keys(model: Model, edge: Edge, bound_call: Optional[ast.Call] = None) -> Tuple[Optional[Dict[str, Optional[ast.AST]]], str]:
    """Keys (with value expressions where known) of the `variables=` mapping of an edge.
    Returns (mapping or None when undecidable, explanation)."""
    v = edge.variables
    if v is None:
        return {}, "no variables"
    fi = edge.fi
    cfg = cfg_of(fi)
    cands = resolve_values(model, fi, v, edge.call, depth=1 if bound_call is None else 0)
    if bound_call is not None and isinstance(v, ast.Name) and v.id in fi.params:
        b = bind_args(fi, bound_call)
        if v.id in b:
            cfi = None
            for f2 in model.all_functions():
                for c in calls_in(f2):
                    if c is bound_call:
                        cfi = f2
            cands = resolve_values(model, cfi, b[v.id], bound_call, 0) if cfi else [(fi, b[v.id], None)]
    result: Dict[str, Optional[ast.AST]] = {}
    notes = []
    for cfi, e, _ in cands:
        if isinstance(e, ast.Constant) and e.value is None:
            continue
        if isinstance(e, ast.Dict):
            for k, val in zip(e.keys, e.values):
                if not isinstance(k, ast.Constant):
                    return None, f"non-constant key {short(k)}"
                result[k.value] = val
            notes.append("dict literal")
        elif isinstance(e, ast.Call) and callee_tail(e) == "_asdict":
            base = e.func.value
            # parameter annotated with a NamedTuple class
            cls = None
            if isinstance(base, ast.Name):
                for a in cfi.node.args.args:
                    if a.arg == base.id and a.annotation is not None:
                        cls = norm(a.annotation)
            if cls is None:
                return None, f"cannot type {short(base)}._asdict()"
            for f in namedtuple_fields(model, cfi.module.name, cls):
                result[f] = None
            notes.append(f"{cls}._asdict() fields")
        elif isinstance(e, ast.Call):
            callee = model.resolve_call(cfi, e)
            if callee is None:
                return None, f"unresolved call {short(e)}"
            from .paintmodel import returned_dict

            d = returned_dict(callee)
            if d is None:
                return None, f"{callee.fq} does not return a dict literal"
            for k, val in zip(d.keys, d.values):
                result[k.value] = val
            notes.append(f"returned by {callee.fq}")
        elif isinstance(e, ast.Name) and e.id in cfi.params:
            return None, f"variables is parameter {e.id} without a bound call site"
        else:
            return None, f"unrecognised variables expression {short(e)}"
    # subscript stores on the same variable: variables["k"] = ...
    if isinstance(v, ast.Name):
        for st in walk_body(fi):
            if isinstance(st, ast.Assign) and isinstance(st.targets[0], ast.Subscript) and norm(st.targets[0].value) == v.id:
                k = st.targets[0].slice
                if isinstance(k, ast.Constant):
                    result[k.value] = st.value
    return result, "; ".join(notes)
