"""E0: behaviour-preserving normalisation of the parsed program, applied before any rule runs.

The rules name constructs the way the pinned tree names them ("reuse_result", "glyph_order").  A maintainer who renames a
local variable, or gives a returned expression a name first, changes nothing a user can observe, so such an edit must not
change a verdict.  Rather than teach a hundred rules a hundred aliases, the program is brought to a normal form first:

N1  alpha-renaming towards reference names.  For every function, each local variable gets a *binding signature*: the kinds
    and right-hand sides of all its binding sites with every local name blanked out (so the signature is itself invariant
    under renaming).  `nv/refnames.json` (tools/gen_refnames.py, generated from the tree the rules were confirmed on)
    holds the same signatures for the reference names.  A current local whose signature matches exactly one reference local
    (ties broken by binding order when the counts agree) is renamed to the reference name, provided the new name is fresh in
    the whole function subtree.  Any capture-free bijective renaming of locals is semantics-preserving, so the choice of
    the bijection can not make a violating program look clean; at worst a local is left as it is.
    Parameters are mapped by position when the arity is unchanged; keyword arguments at call sites whose callee name is the
    function's name are renamed along.
N2  `x = e` immediately followed by `return x` becomes `return e` (x a local that no closure, finally block or global
    declaration can observe after the return).

N3  statement-level `logging.debug(...)` / `logging.info(...)` calls whose arguments are side-effect free are dropped (they can influence neither a
    font nor the build graph). Warnings and errors are kept: R13b asks for one.
N4  a two-armed `if not c: A else: B` is written `if c: B else: A`.
N5  inside a function `x: T = e` is `x = e`.
N6  a local that the reference tree does not have, bound once by `t = e` and read once by the directly following simple
    statement, with nothing but names / constants / attribute chains evaluated before that read, is replaced by `e`
    (undoes "extract variable"; locals of the reference tree are never inlined, so the pinned tree is its own normal form).

Functions that use locals()/vars()/eval/exec are left alone.  Line numbers of the original nodes are kept, so reports
still point into /repo's files; the evidence lists how many names were mapped."""
from __future__ import annotations

import ast
import json
from pathlib import Path
from typing import Dict, Iterator, List, Optional, Set, Tuple

REF_FILE = Path(__file__).resolve().parent / "refnames.json"
INLINE_TEMPS = True
RESTYLE = True
INLINE_HELPERS = True

_FUNC = (ast.FunctionDef, ast.AsyncFunctionDef)


def functions(tree: ast.AST) -> List[Tuple[str, ast.AST]]:
    out = []

    def rec(node, prefix):
        for ch in ast.iter_child_nodes(node):
            if isinstance(ch, _FUNC):
                out.append((prefix + ch.name, ch))
                rec(ch, prefix + ch.name + ".")
            elif isinstance(ch, ast.ClassDef):
                rec(ch, prefix + ch.name + ".")
            elif isinstance(ch, (ast.If, ast.Try, ast.With, ast.For, ast.While)):
                rec(ch, prefix)
    rec(tree, "")
    return out


def _params(fn) -> List[str]:
    a = fn.args
    out = [x.arg for x in a.posonlyargs + a.args]
    if a.vararg:
        out.append("*" + a.vararg.arg)
    out += [x.arg for x in a.kwonlyargs]
    if a.kwarg:
        out.append("**" + a.kwarg.arg)
    return out


def _own_nodes(fn) -> Iterator[ast.AST]:
    """Nodes of fn's own scope: nested function/lambda/class bodies excluded (their decorators/defaults included)."""
    todo = list(fn.body)
    while todo:
        n = todo.pop()
        yield n
        if isinstance(n, _FUNC + (ast.Lambda, ast.ClassDef)):
            continue
        todo.extend(ast.iter_child_nodes(n))


def _scope_info(fn):
    params = {p.lstrip("*") for p in _params(fn)}
    declared = set()
    stored: List[str] = []
    banned = set()
    for n in _own_nodes(fn):
        if isinstance(n, (ast.Global, ast.Nonlocal)):
            declared.update(n.names)
        elif isinstance(n, ast.Name) and isinstance(n.ctx, (ast.Store, ast.Del)):
            if n.id not in stored:
                stored.append(n.id)
        elif isinstance(n, ast.ExceptHandler) and n.name:
            banned.add(n.name)
        elif isinstance(n, (ast.Import, ast.ImportFrom)):
            for al in n.names:
                banned.add((al.asname or al.name).split(".")[0])
        elif isinstance(n, _FUNC + (ast.ClassDef,)):
            banned.add(n.name)
        elif isinstance(n, ast.Call) and isinstance(n.func, ast.Name) and n.func.id in ("locals", "vars", "eval", "exec"):
            return None
    locs = [s for s in stored if s not in params and s not in declared and s not in banned and not s.startswith("__")]
    return params, locs


class _Blank(ast.NodeTransformer):
    def __init__(self, names: Set[str]):
        self.names = names

    def visit_Name(self, n):
        if n.id in self.names:
            return ast.copy_location(ast.Name(id="_", ctx=ast.Load()), n)
        return ast.copy_location(ast.Name(id=n.id, ctx=ast.Load()), n)


def _blank(e: Optional[ast.AST], names: Set[str]) -> str:
    if e is None:
        return ""
    import copy
    return ast.unparse(_Blank(names).visit(copy.deepcopy(e)))


def _targets(t: ast.AST, path: str = "") -> Iterator[Tuple[str, str]]:
    if isinstance(t, ast.Name):
        yield t.id, path
    elif isinstance(t, (ast.Tuple, ast.List)):
        for i, e in enumerate(t.elts):
            yield from _targets(e, f"{path}.{i}")
    elif isinstance(t, ast.Starred):
        yield from _targets(t.value, path + "*")


def signatures(fn) -> Optional[Dict[str, Tuple[str, ...]]]:
    info = _scope_info(fn)
    if info is None:
        return None
    params, locs = info
    blank = set(locs)
    sigs: Dict[str, List[str]] = {v: [] for v in locs}

    def add(name, s):
        if name in sigs:
            sigs[name].append(s)
    for n in _own_nodes(fn):
        if isinstance(n, ast.Assign):
            for t in n.targets:
                for name, path in _targets(t):
                    add(name, f"assign{path}:{_blank(n.value, blank)}")
        elif isinstance(n, ast.AnnAssign) and n.value is not None:
            for name, path in _targets(n.target):
                add(name, f"assign{path}:{_blank(n.value, blank)}")
        elif isinstance(n, ast.AugAssign):
            for name, path in _targets(n.target):
                add(name, f"aug{type(n.op).__name__}:{_blank(n.value, blank)}")
        elif isinstance(n, (ast.For, ast.AsyncFor)):
            for name, path in _targets(n.target):
                add(name, f"for{path}:{_blank(n.iter, blank)}")
        elif isinstance(n, (ast.With, ast.AsyncWith)):
            for it in n.items:
                if it.optional_vars is not None:
                    for name, path in _targets(it.optional_vars):
                        add(name, f"with{path}:{_blank(it.context_expr, blank)}")
        elif isinstance(n, ast.comprehension):
            for name, path in _targets(n.target):
                add(name, f"comp{path}:{_blank(n.iter, blank)}")
        elif isinstance(n, ast.NamedExpr):
            add(n.target.id, f"walrus:{_blank(n.value, blank)}")
    return {v: tuple(sorted(s)) for v, s in sigs.items() if s}


def skeleton(fn) -> List[str]:
    """Statement skeleton of a function (own scope, pre-order): statement kinds with the names of the functions they call.  Invariant under renaming
    of variables and rewriting of operands; changes when statements are added, removed, moved, split or merged."""
    out: List[str] = []

    def calls(e) -> str:
        names = []
        for n in ast.walk(e):
            if isinstance(n, ast.Call):
                names.append(n.func.attr if isinstance(n.func, ast.Attribute) else (n.func.id if isinstance(n.func, ast.Name) else "?"))
        return ",".join(names) + ("?" if any(isinstance(n, ast.IfExp) for n in ast.walk(e)) else "")

    def rec(body):
        for st in body:
            k = type(st).__name__
            if isinstance(st, _FUNC + (ast.ClassDef,)):
                out.append(f"def:{st.name}")
                continue
            if isinstance(st, (ast.Assign, ast.AnnAssign, ast.AugAssign, ast.Return, ast.Expr, ast.Raise, ast.Assert, ast.Delete)):
                out.append(f"{k}:{calls(st)}")
            elif isinstance(st, (ast.If, ast.While)):
                out.append(f"{k}:{calls(st.test)}")
                rec(st.body)
                if st.orelse:
                    out.append("else")
                    rec(st.orelse)
            elif isinstance(st, (ast.For, ast.AsyncFor)):
                out.append(f"{k}:{calls(st.iter)}")
                rec(st.body)
                if st.orelse:
                    out.append("else")
                    rec(st.orelse)
            elif isinstance(st, (ast.With, ast.AsyncWith)):
                out.append(f"{k}:{','.join(calls(i.context_expr) for i in st.items)}")
                rec(st.body)
            elif isinstance(st, ast.Try):
                out.append("Try")
                rec(st.body)
                for h in st.handlers:
                    out.append("except")
                    rec(h.body)
                if st.orelse:
                    out.append("else")
                    rec(st.orelse)
                if st.finalbody:
                    out.append("finally")
                    rec(st.finalbody)
            else:
                out.append(k)
    rec(fn.body)
    return out


def skeleton_drift(cur: List[str], ref: List[str]) -> int:
    import difflib
    sm = difflib.SequenceMatcher(a=ref, b=cur, autojunk=False)
    d = 0
    for tag, i1, i2, j1, j2 in sm.get_opcodes():
        if tag != "equal":
            d += max(i2 - i1, j2 - j1)
    return d


def text_skeleton(fn) -> List[str]:
    """Like skeleton(), with each simple statement / each compound statement's header spelled out (digest of its normalised text)."""
    import hashlib
    out: List[str] = []

    def h(x) -> str:
        return hashlib.sha1(ast.unparse(x).encode()).hexdigest()[:10]

    def rec(body):
        for st in body:
            if isinstance(st, _FUNC + (ast.ClassDef,)):
                out.append(f"def:{st.name}")
            elif isinstance(st, (ast.If, ast.While)):
                out.append(f"{type(st).__name__}:{h(st.test)}")
                rec(st.body)
                if st.orelse:
                    out.append("else")
                    rec(st.orelse)
            elif isinstance(st, (ast.For, ast.AsyncFor)):
                out.append(f"For:{h(st.target)}:{h(st.iter)}")
                rec(st.body)
                if st.orelse:
                    out.append("else")
                    rec(st.orelse)
            elif isinstance(st, (ast.With, ast.AsyncWith)):
                out.append("With:" + ",".join(h(i.context_expr) for i in st.items))
                rec(st.body)
            elif isinstance(st, ast.Try):
                out.append("Try")
                rec(st.body)
                for hd in st.handlers:
                    out.append("except:" + (h(hd.type) if hd.type is not None else ""))
                    rec(hd.body)
                if st.orelse:
                    out.append("else")
                    rec(st.orelse)
                if st.finalbody:
                    out.append("finally")
                    rec(st.finalbody)
            else:
                out.append(h(st))
    rec(fn.body)
    return out


def skeleton_deletion_only(cur: List[str], ref: List[str]) -> bool:
    """True when `cur` is `ref` with some statements removed and nothing added, moved or rewritten."""
    import difflib
    sm = difflib.SequenceMatcher(a=ref, b=cur, autojunk=False)
    return all(tag in ("equal", "delete") for tag, *_ in sm.get_opcodes())


def reference_table(src_dir: Path) -> dict:
    table = {}
    for p in sorted(src_dir.glob("*.py")):
        tree = ast.parse(p.read_text())
        for qn, fn in functions(tree):
            sg = signatures(fn)
            entry = {"params": _params(fn), "skeleton": skeleton(fn)}
            if sg is not None:
                entry["locals"] = [[v, list(s)] for v, s in sg.items()]
            table[f"{p.stem}:{qn}"] = entry
        table[f"{p.stem}:<module>"] = {"names": sorted(_module_level_names(tree)), "classes": sorted(c.name for c in tree.body if isinstance(c, ast.ClassDef))}
    return table


def _module_level_names(tree: ast.Module) -> Set[str]:
    out: Set[str] = set()
    for st in tree.body:
        todo = [st]
        while todo:
            x = todo.pop()
            if isinstance(x, (ast.Assign, ast.AnnAssign, ast.AugAssign)):
                for t in (x.targets if isinstance(x, ast.Assign) else [x.target]):
                    out.update(n.id for n in ast.walk(t) if isinstance(n, ast.Name))
            elif isinstance(x, (ast.If, ast.Try, ast.With)):
                todo.extend(ch for ch in ast.iter_child_nodes(x) if isinstance(ch, (ast.stmt, ast.ExceptHandler)))
            elif isinstance(x, ast.ExceptHandler):
                todo.extend(x.body)
    return out


def _erase_new_records(tree: ast.Module, known_classes: Set[str]) -> int:
    """A NamedTuple class the reference tree does not have, with plain fields only, is a tuple with names: `C(a, b)` is `(a, b)`, and `v.field` is `v[i]`
    for every local v all of whose bindings are such constructor calls, or calls of module functions all of whose returns are.  (A NamedTuple IS a tuple:
    unpacking, indexing, equality and hashing are unchanged; only repr and type differ.)  Together with the temp / tuple folding that follows, values that were
    merely packed to travel together read as before."""
    import copy
    recs: Dict[str, List[str]] = {}
    defaults: Dict[str, Dict[str, ast.AST]] = {}
    for c in tree.body:
        if not isinstance(c, ast.ClassDef) or c.name in known_classes or c.decorator_list or c.keywords:
            continue
        if not any((isinstance(b, ast.Name) and b.id == "NamedTuple") or (isinstance(b, ast.Attribute) and b.attr == "NamedTuple") for b in c.bases):
            continue
        fields, dflt, ok = [], {}, True
        for st in c.body:
            if isinstance(st, ast.Expr) and isinstance(st.value, ast.Constant):
                continue
            if isinstance(st, ast.AnnAssign) and isinstance(st.target, ast.Name):
                fields.append(st.target.id)
                if st.value is not None:
                    if not isinstance(st.value, ast.Constant):
                        ok = False
                    dflt[st.target.id] = st.value
            else:
                ok = False
        if ok and fields:
            recs[c.name] = fields
            defaults[c.name] = dflt
    if not recs:
        return 0
    k = 0

    def ctor(e):
        return isinstance(e, ast.Call) and isinstance(e.func, ast.Name) and e.func.id in recs and not any(isinstance(a, ast.Starred) for a in e.args) \
            and all(kw.arg for kw in e.keywords)
    # functions that always hand back one kind of record
    returns_rec: Dict[str, str] = {}
    for st in tree.body:
        if isinstance(st, ast.FunctionDef):
            rets = [r for r in ast.walk(st) if isinstance(r, ast.Return)]
            kinds = {r.value.func.id if r.value is not None and ctor(r.value) else None for r in rets}
            if rets and len(kinds) == 1 and None not in kinds and not any(isinstance(n, (ast.Yield, ast.YieldFrom)) for n in ast.walk(st)):
                returns_rec[st.name] = kinds.pop()

    def kind_of(v) -> Optional[str]:
        if ctor(v):
            return v.func.id
        if isinstance(v, ast.Call) and isinstance(v.func, ast.Name) and v.func.id in returns_rec:
            return returns_rec[v.func.id]
        return None
    for qn, fn in functions(tree):
        binds: Dict[str, Set[Optional[str]]] = {}
        for n in _own_nodes(fn):
            if isinstance(n, ast.Assign):
                for t in n.targets:
                    if isinstance(t, ast.Name):
                        binds.setdefault(t.id, set()).add(kind_of(n.value))
                    else:
                        for m in ast.walk(t):
                            if isinstance(m, ast.Name):
                                binds.setdefault(m.id, set()).add(None)
            elif isinstance(n, (ast.For, ast.AugAssign, ast.AnnAssign, ast.With, ast.NamedExpr, ast.comprehension)):
                tg = n.target if hasattr(n, "target") else None
                if tg is not None:
                    for m in ast.walk(tg):
                        if isinstance(m, ast.Name):
                            binds.setdefault(m.id, set()).add(kind_of(n.value) if isinstance(n, ast.NamedExpr) else None)
        for p_ in _params(fn):
            binds.setdefault(p_.lstrip("*"), set()).add(None)
        typed = {v: next(iter(ks)) for v, ks in binds.items() if len(ks) == 1 and None not in ks}
        for n in list(_own_nodes(fn)):
            for field, val in list(ast.iter_fields(n)):
                items = val if isinstance(val, list) else [val]
                for idx, a in enumerate(items):
                    if not isinstance(a, ast.Attribute) or not isinstance(a.ctx, ast.Load):
                        continue
                    kind = typed.get(a.value.id) if isinstance(a.value, ast.Name) else kind_of(a.value)
                    if kind is None or a.attr not in recs[kind]:
                        continue
                    sub = ast.copy_location(ast.Subscript(value=a.value, slice=ast.Constant(value=recs[kind].index(a.attr)), ctx=ast.Load()), a)
                    if isinstance(val, list):
                        val[idx] = sub
                    else:
                        setattr(n, field, sub)
                    k += 1
    # constructor calls become tuples
    class T(ast.NodeTransformer):
        def visit_Call(self, e):
            self.generic_visit(e)
            nonlocal k
            if not ctor(e):
                return e
            fields = recs[e.func.id]
            vals: Dict[str, ast.AST] = dict(zip(fields, e.args))
            for kw in e.keywords:
                if kw.arg not in fields or kw.arg in vals:
                    return e
                vals[kw.arg] = kw.value
            for f_ in fields:
                if f_ not in vals:
                    if f_ in defaults[e.func.id]:
                        vals[f_] = copy.deepcopy(defaults[e.func.id][f_])
                    else:
                        return e
            k += 1
            return ast.copy_location(ast.Tuple(elts=[vals[f_] for f_ in fields], ctx=ast.Load()), e)
    for st in tree.body:
        if isinstance(st, ast.ClassDef) and st.name in recs:
            continue
        T().visit(st)
    # (a, b)[i] with everything else plain is the i-th element
    class F(ast.NodeTransformer):
        def visit_Subscript(self, e):
            self.generic_visit(e)
            if isinstance(e.value, ast.Tuple) and isinstance(e.slice, ast.Constant) and isinstance(e.slice.value, int) and isinstance(e.ctx, ast.Load) \
                    and 0 <= e.slice.value < len(e.value.elts) and all(_pure(x) for i_, x in enumerate(e.value.elts) if i_ != e.slice.value):
                return e.value.elts[e.slice.value]
            return e
    if k:
        F().visit(tree)
        ast.fix_missing_locations(tree)
    return k


def _fold_tuple_subscripts(tree: ast.AST) -> int:
    k = 0

    class F(ast.NodeTransformer):
        def visit_Subscript(self, e):
            nonlocal k
            self.generic_visit(e)
            if isinstance(e.value, ast.Tuple) and isinstance(e.slice, ast.Constant) and isinstance(e.slice.value, int) and isinstance(e.ctx, ast.Load) \
                    and 0 <= e.slice.value < len(e.value.elts) and all(_pure(x) for i_, x in enumerate(e.value.elts) if i_ != e.slice.value):
                k += 1
                return e.value.elts[e.slice.value]
            return e
    F().visit(tree)
    if k:
        ast.fix_missing_locations(tree)
    return k


def _fold_new_module_constants(tree: ast.Module, known: Set[str]) -> int:
    """A literal given a name (`_PREFIX = "g_"` at module level, bound once, never re-bound, absent from the reference tree) is that literal wherever it is read."""
    import copy
    cands = {}
    counts: Dict[str, int] = {}
    for st in tree.body:
        if isinstance(st, (ast.Assign, ast.AnnAssign)):
            tg = st.targets if isinstance(st, ast.Assign) else [st.target]
            for t in tg:
                for n in ast.walk(t):
                    if isinstance(n, ast.Name):
                        counts[n.id] = counts.get(n.id, 0) + 1
            v = st.value
            if len(tg) == 1 and isinstance(tg[0], ast.Name) and v is not None:
                def lit(x, depth=0):
                    if isinstance(x, (ast.Constant, ast.Name)):
                        return True
                    if isinstance(x, ast.UnaryOp) and isinstance(x.op, ast.USub):
                        return lit(x.operand, depth)
                    if isinstance(x, ast.Tuple) and depth < 3:
                        return all(lit(e, depth + 1) for e in x.elts)
                    if isinstance(x, ast.Dict) and depth < 2:
                        return all(k is not None and isinstance(k, ast.Constant) for k in x.keys) and all(lit(e, depth + 1) for e in x.values)
                    return False
                ok = lit(v) and not isinstance(v, ast.Name) or (isinstance(v, ast.Tuple) and all(isinstance(e, (ast.Constant, ast.Name)) for e in v.elts)) \
                    or (isinstance(v, ast.UnaryOp) and isinstance(v.op, ast.USub) and isinstance(v.operand, ast.Constant))
                if ok and tg[0].id not in known:
                    cands[tg[0].id] = v
    stored_elsewhere: Set[str] = set()
    for n in ast.walk(tree):
        if isinstance(n, ast.Global):
            stored_elsewhere.update(n.names)
    # a container literal is only a constant while nothing in the module changes it in place
    touched: Set[str] = set()
    for n in ast.walk(tree):
        if isinstance(n, (ast.Subscript, ast.Attribute)) and isinstance(n.ctx, (ast.Store, ast.Del)) and isinstance(n.value, ast.Name):
            touched.add(n.value.id)
        if isinstance(n, ast.Call) and isinstance(n.func, ast.Attribute) and isinstance(n.func.value, ast.Name) and n.func.attr in _MUTATORS:
            touched.add(n.func.value.id)
        if isinstance(n, ast.AugAssign):
            for x in ast.walk(n.target):
                if isinstance(x, ast.Name):
                    touched.add(x.id)
    cands = {k: v for k, v in cands.items() if counts.get(k) == 1 and k not in stored_elsewhere
             and not (isinstance(v, ast.Dict) and (k in touched or not v.keys))}
    if not cands:
        return 0
    k = 0

    def visit(node, shadow: Set[str]):
        nonlocal k
        for field, val in ast.iter_fields(node):
            items = val if isinstance(val, list) else [val]
            for idx, ch in enumerate(items):
                if not isinstance(ch, ast.AST):
                    continue
                if isinstance(ch, _FUNC + (ast.Lambda,)):
                    sh = set(shadow)
                    sh.update(a.arg for a in ast.walk(ch.args) if isinstance(a, ast.arg))
                    body = ch.body if isinstance(ch.body, list) else [ch.body]
                    for b in body:
                        for m in ast.walk(b):
                            if isinstance(m, ast.Name) and isinstance(m.ctx, (ast.Store, ast.Del)):
                                sh.add(m.id)
                    visit(ch, sh)
                    continue
                if isinstance(ch, ast.Name) and isinstance(ch.ctx, ast.Load) and ch.id in cands and ch.id not in shadow:
                    new = ast.copy_location(copy.deepcopy(cands[ch.id]), ch)
                    if isinstance(val, list):
                        val[idx] = new
                    else:
                        setattr(node, field, new)
                    k += 1
                    continue
                visit(ch, shadow)
    visit(tree, set())
    return k


def _all_names(fn) -> Set[str]:
    out = set()
    for n in ast.walk(fn):
        if isinstance(n, ast.Name):
            out.add(n.id)
        elif isinstance(n, ast.arg):
            out.add(n.arg)
        elif isinstance(n, (ast.Global, ast.Nonlocal)):
            out.update(n.names)
        elif isinstance(n, _FUNC + (ast.ClassDef,)):
            out.add(n.name)
        elif isinstance(n, ast.ExceptHandler) and n.name:
            out.add(n.name)
        elif isinstance(n, ast.alias):
            out.add((n.asname or n.name).split(".")[0])
    return out


def _binds(fn, name: str) -> bool:
    """Does the nested scope fn (function or lambda) bind `name` itself?"""
    a = fn.args
    if any(x.arg == name for x in a.posonlyargs + a.args + a.kwonlyargs) or (a.vararg and a.vararg.arg == name) or (a.kwarg and a.kwarg.arg == name):
        return True
    if isinstance(fn, ast.Lambda):
        return False
    nonlocal_ = False
    stored = False
    for n in _own_nodes(fn):
        if isinstance(n, (ast.Nonlocal, ast.Global)) and name in n.names:
            nonlocal_ = True
        if isinstance(n, ast.Name) and n.id == name and isinstance(n.ctx, (ast.Store, ast.Del)):
            stored = True
    return stored and not nonlocal_


def _rename_in(fn, mapping: Dict[str, str], include_params: bool = False):
    def rec(node, active: Dict[str, str]):
        for ch in ast.iter_child_nodes(node):
            if isinstance(ch, _FUNC + (ast.Lambda,)):
                sub = {k: v for k, v in active.items() if not _binds(ch, k)}
                # defaults and decorators are evaluated in the enclosing scope
                for d in ch.args.defaults + [x for x in ch.args.kw_defaults if x is not None]:
                    _apply(d, active)
                    rec(d, active)
                if not isinstance(ch, ast.Lambda):
                    for d in ch.decorator_list:
                        _apply(d, active)
                        rec(d, active)
                    for st in ch.body:
                        _apply(st, sub)
                        rec(st, sub)
                else:
                    _apply(ch.body, sub)
                    rec(ch.body, sub)
                continue
            _apply(ch, active)
            rec(ch, active)

    def _apply(n, active):
        if isinstance(n, ast.Name) and n.id in active:
            n.id = active[n.id]
        elif isinstance(n, (ast.Nonlocal, ast.Global)):
            n.names = [active.get(x, x) for x in n.names]

    if include_params:
        a = fn.args
        for x in a.posonlyargs + a.args + a.kwonlyargs + ([a.vararg] if a.vararg else []) + ([a.kwarg] if a.kwarg else []):
            if x.arg in mapping:
                x.arg = mapping[x.arg]
    for st in fn.body:
        _apply(st, mapping)
        rec(st, mapping)


def _callable_table(trees: Dict[str, ast.Module]) -> Dict[str, List[str]]:
    """simple name -> positional parameter names (receiver dropped), for names that denote ONE signature in the whole package."""
    sigs: Dict[str, List[List[str]]] = {}
    for tree in trees.values():
        for qn, fn in functions(tree):
            if fn.args.vararg or fn.args.posonlyargs:
                ps = None
            else:
                ps = [a.arg for a in fn.args.args]
                decos = {(d.id if isinstance(d, ast.Name) else getattr(d, "attr", "")) for d in fn.decorator_list}
                in_class = False
                parts = qn.split(".")
                if len(parts) >= 2:
                    for c in ast.walk(tree):
                        if isinstance(c, ast.ClassDef) and c.name == parts[-2] and fn in c.body:
                            in_class = True
                if in_class and "staticmethod" not in decos and ps:
                    ps = ps[1:]
            sigs.setdefault(fn.name, []).append(ps)
            if len(qn.split(".")) == 2:
                sigs.setdefault(qn, []).append(ps)  # Class.method, for calls spelled Class.method(...)
        for c in ast.walk(tree):
            if isinstance(c, ast.ClassDef):
                # record classes (NamedTuple / dataclass without their own __init__ / __new__): the constructor takes the annotated fields in order
                bases = {ast.unparse(b).split(".")[-1] for b in c.bases}
                decos = {ast.unparse(d).split("(")[0].split(".")[-1] for d in c.decorator_list}
                own_init = any(isinstance(m, _FUNC) and m.name in ("__init__", "__new__") for m in c.body)
                if ("NamedTuple" in bases and len(bases) == 1 or ("dataclass" in decos and not c.bases)) and not own_init:
                    fields = [m.target.id for m in c.body if isinstance(m, ast.AnnAssign) and isinstance(m.target, ast.Name)
                              and "ClassVar" not in ast.unparse(m.annotation)]
                    sigs.setdefault(c.name, []).append(fields)
                else:
                    sigs.setdefault(c.name, []).append(None)  # other constructors: left alone
    return {k: v[0] for k, v in sigs.items() if len(v) == 1 and v[0] is not None}


def call_keywords(trees: Dict[str, ast.Module]) -> Dict[str, List[str]]:
    out: Dict[str, Set[str]] = {}
    for tree in trees.values():
        for n in ast.walk(tree):
            if isinstance(n, ast.Call):
                name = n.func.attr if isinstance(n.func, ast.Attribute) else (n.func.id if isinstance(n.func, ast.Name) else None)
                if name:
                    out.setdefault(name, set()).update(k.arg for k in n.keywords if k.arg)
    return {k: sorted(v) for k, v in out.items() if v}


def _positionalise(trees: Dict[str, ast.Module], ref_keywords: Dict[str, List[str]]) -> int:
    """`f(a, q=b)` -> `f(a, b)` when q is f's next positional parameter and the reference tree never passes q= to f: keyword spelling of a positional
    argument (same binding, same evaluation order because only a contiguous prefix is converted)."""
    table_all = _callable_table(trees)
    k = 0
    for stem_, tree in trees.items():
        table = dict(table_all)
        table.update(_callable_table({stem_: tree}))  # what the module defines itself wins over a same-named definition elsewhere
        for n in ast.walk(tree):
            if not isinstance(n, ast.Call) or not n.keywords or any(isinstance(a, ast.Starred) for a in n.args):
                continue
            name = n.func.attr if isinstance(n.func, ast.Attribute) else (n.func.id if isinstance(n.func, ast.Name) else None)
            ps = table.get(name)
            if ps is None and isinstance(n.func, ast.Attribute) and isinstance(n.func.value, ast.Name):
                ps = table.get(f"{n.func.value.id}.{n.func.attr}")
            if ps is None:
                continue
            refk = set(ref_keywords.get(name, ()))
            while n.keywords and len(n.args) < len(ps):
                nxt = ps[len(n.args)]
                kw = n.keywords[0]
                if kw.arg != nxt or kw.arg in refk:
                    break
                n.args.append(kw.value)
                del n.keywords[0]
                k += 1
    return k


def _helper_expression(fn) -> Optional[ast.AST]:
    """The single expression a small function computes: `return e`, or guard returns `if c: return a` ... `return b` (-> a if c else b)."""
    body = [st for st in fn.body if not (isinstance(st, ast.Expr) and isinstance(st.value, ast.Constant))]

    def as_expr(b):
        if len(b) == 1 and isinstance(b[0], ast.Return) and b[0].value is not None:
            return b[0].value
        if b and isinstance(b[0], ast.If) and len(b[0].body) == 1 and isinstance(b[0].body[0], ast.Return) and b[0].body[0].value is not None:
            rest = b[0].orelse if b[0].orelse else b[1:]
            if b[0].orelse and len(b) > 1:
                return None
            tail = as_expr(list(rest))
            if tail is not None:
                return ast.IfExp(test=b[0].test, body=b[0].body[0].value, orelse=tail)
        return None
    e = as_expr(body)
    if e is None or any(isinstance(n, (ast.Yield, ast.YieldFrom, ast.Await, ast.Lambda, ast.NamedExpr)) for n in ast.walk(e)):
        return None
    return e


def _inline_new_helper_calls(tree: ast.Module, stem: str, ref: dict) -> int:
    """Extract-function undone: a call to a function of this module that the reference tree does not have, whose body is one expression of its parameters and
    module-level names, is replaced by that expression with the arguments substituted.  An argument that is not a plain value expression is substituted only
    where the parameter is read exactly once (evaluated once, as before)."""
    import copy
    funcs = functions(tree)
    known = {qn for qn, _ in funcs if f"{stem}:{qn}" in ref}
    helpers = {}
    for qn, fn in funcs:
        if qn in known or fn.decorator_list or fn.args.vararg or fn.args.kwarg or fn.args.kwonlyargs or fn.args.posonlyargs:
            continue
        parts = qn.split(".")
        if len(parts) > 2:
            continue
        if len(parts) == 2 and not any(isinstance(c, ast.ClassDef) and c.name == parts[0] for c in tree.body):
            continue  # nested function: left to the rule-level helper inliner
        # normalise the helper's own body first (all its locals are new)
        keep = {p.lstrip("*") for p in _params(fn)}
        _plain_annotated_assignments(fn)
        _fold_accumulators(fn, keep)
        _inline_pure_temps(fn, keep)
        _inline_adjacent_temps(fn, keep)
        _inline_temp_returns(fn)
        e = _helper_expression(fn)
        if e is None:
            continue
        params = [a.arg for a in fn.args.args]
        defaults = dict(zip(params[len(params) - len(fn.args.defaults):], fn.args.defaults))
        bound_in_e = {t.id for n in ast.walk(e) if isinstance(n, (ast.ListComp, ast.SetComp, ast.DictComp, ast.GeneratorExp))
                      for g in n.generators for t in ast.walk(g.target) if isinstance(t, ast.Name)}
        free = {n.id for n in ast.walk(e) if isinstance(n, ast.Name)} - set(params) - bound_in_e
        if any(isinstance(n, (ast.ListComp, ast.SetComp, ast.DictComp, ast.GeneratorExp)) and
               ({t.id for g in n.generators for t in ast.walk(g.target) if isinstance(t, ast.Name)} & set(params)) for n in ast.walk(e)):
            continue
        helpers[qn] = (fn, e, params, defaults, free, bound_in_e)
    if not helpers:
        return 0
    k = 0
    for qn, caller in funcs + [("<module>", tree)]:
        if qn in helpers:
            continue
        local_names = set()
        if qn != "<module>":
            local_names = {p_.lstrip("*") for p_ in _params(caller)}
            for m_ in _own_nodes(caller):
                if isinstance(m_, ast.Name) and isinstance(m_.ctx, (ast.Store, ast.Del)):
                    local_names.add(m_.id)
                elif isinstance(m_, _FUNC + (ast.ClassDef,)):
                    local_names.add(m_.name)
                elif isinstance(m_, ast.ExceptHandler) and m_.name:
                    local_names.add(m_.name)
                elif isinstance(m_, (ast.Import, ast.ImportFrom)):
                    local_names.update((al.asname or al.name).split(".")[0] for al in m_.names)
        cls = qn.split(".")[0] if "." in qn else None

        class I(ast.NodeTransformer):
            def visit_FunctionDef(self, n):
                if n is caller or qn == "<module>":
                    if qn == "<module>":
                        return n  # module level: only top-level statements outside functions
                    self.generic_visit(n)
                return n

            visit_AsyncFunctionDef = visit_FunctionDef

            def visit_ClassDef(self, n):
                return n if qn == "<module>" else self.generic_visit(n) or n

            def visit_Call(self, n):
                nonlocal k
                self.generic_visit(n)
                name, recv = None, None
                if isinstance(n.func, ast.Name) and n.func.id in helpers and "." not in n.func.id:
                    name = n.func.id
                elif isinstance(n.func, ast.Attribute) and isinstance(n.func.value, ast.Name) and n.func.value.id in ("self", "cls") and cls \
                        and f"{cls}.{n.func.attr}" in helpers:
                    name, recv = f"{cls}.{n.func.attr}", n.func.value
                if name is None:
                    return n
                fn, e, params, defaults, free, bound_in_e = helpers[name]
                if name in local_names or (free & local_names):
                    return n  # the caller shadows a name the expression reads
                ps = list(params)
                binding = {}
                if recv is not None:
                    if not ps:
                        return n
                    binding[ps[0]] = recv
                    ps = ps[1:]
                if any(isinstance(a, ast.Starred) for a in n.args) or any(kw.arg is None for kw in n.keywords) or len(n.args) > len(ps):
                    return n
                for p_, a in zip(ps, n.args):
                    binding[p_] = a
                for kw in n.keywords:
                    if kw.arg not in ps or kw.arg in binding:
                        return n
                    binding[kw.arg] = kw.value
                for p_ in ps:
                    if p_ not in binding:
                        if p_ in defaults:
                            binding[p_] = defaults[p_]
                        else:
                            return n
                if any(isinstance(m, ast.Name) and m.id in bound_in_e for a in binding.values() for m in ast.walk(a)):
                    return n  # an argument would be captured by a comprehension variable of the expression
                uses = {p_: sum(1 for m in ast.walk(e) if isinstance(m, ast.Name) and m.id == p_) for p_ in binding}
                if any(uses[p_] != 1 and not _pure(a) for p_, a in binding.items()):
                    return n

                class S(ast.NodeTransformer):
                    def visit_Name(self, m):
                        return copy.deepcopy(binding[m.id]) if m.id in binding and isinstance(m.ctx, ast.Load) else m
                k += 1
                return ast.copy_location(S().visit(copy.deepcopy(e)), n)
        if qn == "<module>":
            for i, st in enumerate(tree.body):
                if not isinstance(st, _FUNC + (ast.ClassDef,)):
                    tree.body[i] = I().visit(st)
        else:
            for i, st in enumerate(caller.body):
                caller.body[i] = I().visit(st)
    return k


def _returns_to_assignments(body: List[ast.stmt], target: ast.Name) -> Optional[List[ast.stmt]]:
    """A body all of whose returns are in tail position (last statement, or the last statement of an if/else arm that is itself in tail position, or an
    `if c: ...; return e` followed by the rest) with every `return e` replaced by `target = e`; None when a return sits anywhere else (loops, try, mid-body)."""
    import copy

    def count_returns(stmts):
        return sum(1 for s_ in stmts for n_ in ast.walk(s_) if isinstance(n_, ast.Return))

    def tail(stmts):
        if not stmts:
            return None
        head, last = stmts[:-1], stmts[-1]
        out = []
        i = 0
        while i < len(head):
            h_ = head[i]
            if count_returns([h_]) == 0:
                out.append(h_)
                i += 1
                continue
            # `if c: ... return e` (no else) followed by the rest: the rest is its else branch
            if isinstance(h_, ast.If) and not h_.orelse and h_.body and isinstance(h_.body[-1], ast.Return):
                a_ = tail(h_.body)
                b_ = tail(head[i + 1:] + [last])
                if a_ is None or b_ is None:
                    return None
                return out + [ast.copy_location(ast.If(test=h_.test, body=a_, orelse=b_), h_)]
            return None
        if isinstance(last, ast.Return):
            if last.value is None:
                return None
            return out + [ast.copy_location(ast.Assign(targets=[copy.deepcopy(target)], value=last.value), last)]
        if isinstance(last, ast.If) and last.orelse:
            a_, b_ = tail(last.body), tail(last.orelse)
            if a_ is None or b_ is None:
                return None
            return out + [ast.copy_location(ast.If(test=last.test, body=a_, orelse=b_), last)]
        if isinstance(last, ast.Raise):
            return out + [last]
        return None
    return tail(list(body))


def _inline_new_helper_statements(tree: ast.Module, stem: str, ref: dict) -> int:
    """Extract-function undone at statement level.  A call to a function of this module that the reference tree does not have is replaced by the function's
    body when the call is (a) the whole value of a `return` (every return of the body is then a return of the caller), (b) an expression statement and the
    body never returns a value, (c) the whole right-hand side of an assignment and the body's only return is its last statement.  Parameters become
    assignments `p = <argument>` placed first (the later passes fold them), names of the body that would clash with the caller's are made fresh."""
    import copy
    funcs = functions(tree)
    known = {qn for qn, _ in funcs if f"{stem}:{qn}" in ref}
    helpers = {}
    generators = {}
    for qn, fn in funcs:
        parts = qn.split(".")
        if qn in known or fn.decorator_list or fn.args.vararg or fn.args.kwarg or fn.args.kwonlyargs or fn.args.posonlyargs or len(parts) > 2:
            continue
        if len(parts) == 2 and not any(isinstance(c, ast.ClassDef) and c.name == parts[0] for c in tree.body):
            continue
        if any(isinstance(n, (ast.YieldFrom, ast.Await, ast.Global, ast.Nonlocal)) for n in ast.walk(fn)):
            continue
        if any(isinstance(n, _FUNC + (ast.ClassDef,)) for n in ast.walk(fn) if n is not fn):
            continue
        if any(isinstance(n, ast.Call) and isinstance(n.func, ast.Name) and n.func.id == fn.name for n in ast.walk(fn)):
            continue  # recursive
        body = [st for st in fn.body if not (isinstance(st, ast.Expr) and isinstance(st.value, ast.Constant))]
        if not body or len(body) > 40:
            continue
        rets = [n for n in ast.walk(fn) if isinstance(n, ast.Return)]
        yields = [n for n in ast.walk(fn) if isinstance(n, ast.Yield)]
        if yields:
            # a generator helper: one `yield E` as a statement, the last statement of the block it stands in, no return
            if len(yields) == 1 and not rets and yields[0].value is not None:
                generators[qn] = (fn, body, yields[0])
            continue
        helpers[qn] = (fn, body, rets)
    if not helpers and not generators:
        return 0
    k = 0
    counter = [0]

    def bound_names(fn):
        out = {p_.lstrip("*") for p_ in _params(fn)}
        for m_ in _own_nodes(fn):
            if isinstance(m_, ast.Name) and isinstance(m_.ctx, (ast.Store, ast.Del)):
                out.add(m_.id)
        return out

    def expand(call, caller, cls, target_name=None, want_generator=False):
        """-> (helper qn, binding statements, body copy) or None"""
        name, recv = None, None
        table_ = generators if want_generator else helpers
        if isinstance(call.func, ast.Name) and call.func.id in table_:
            name = call.func.id
        elif isinstance(call.func, ast.Attribute) and isinstance(call.func.value, ast.Name) and call.func.value.id in ("self", "cls") and cls \
                and f"{cls}.{call.func.attr}" in table_:
            name, recv = f"{cls}.{call.func.attr}", call.func.value
        if name is None:
            return None
        fn, body, rets = table_[name]
        if fn is caller:
            return None
        params = [a.arg for a in fn.args.args]
        defaults = dict(zip(params[len(params) - len(fn.args.defaults):], fn.args.defaults))
        binding = {}
        ps = list(params)
        if recv is not None:
            if not ps:
                return None
            binding[ps[0]] = recv
            ps = ps[1:]
        if any(isinstance(a, ast.Starred) for a in call.args) or any(kw.arg is None for kw in call.keywords) or len(call.args) > len(ps):
            return None
        for p_, a in zip(ps, call.args):
            binding[p_] = a
        for kw in call.keywords:
            if kw.arg not in ps or kw.arg in binding:
                return None
            binding[kw.arg] = kw.value
        for p_ in ps:
            if p_ not in binding:
                if p_ in defaults:
                    binding[p_] = defaults[p_]
                else:
                    return None
        caller_names = bound_names(caller) | {m.id for m in ast.walk(caller) if isinstance(m, ast.Name)}
        helper_bound = bound_names(fn)
        ren = {}

        def dead_at_call(nm) -> bool:
            """the caller uses `nm` only as the variable of for-loops that do not contain the call: nothing of it is alive there"""
            loops = [l for l in _own_nodes(caller) if isinstance(l, ast.For) and any(isinstance(t, ast.Name) and t.id == nm for t in ast.walk(l.target))]
            if not loops:
                return False
            inside = set()
            for l in loops:
                for m in ast.walk(l):
                    inside.add(id(m))
            if id(call) in inside:
                return False
            return all(id(m) in inside for m in ast.walk(caller) if isinstance(m, ast.Name) and m.id == nm)
        # the name the helper returns becomes the caller's assignment target when nothing else stands in the way
        returned = body[-1].value.id if body and isinstance(body[-1], ast.Return) and isinstance(body[-1].value, ast.Name) else None
        if want_generator:
            returned = rets.value.id if isinstance(rets, ast.Yield) and isinstance(rets.value, ast.Name) else None
        forced = None
        if target_name is not None and returned is not None and returned not in params \
                and not any(isinstance(m, ast.Name) and m.id == target_name for a in binding.values() for m in ast.walk(a)) \
                and target_name not in (helper_bound - {returned}):
            forced = returned
            if returned != target_name:
                ren[returned] = target_name
        for nm in sorted(helper_bound):
            if nm == forced:
                continue
            same_arg = nm in binding and isinstance(binding[nm], ast.Name) and binding[nm].id == nm
            if nm in caller_names and not same_arg and not dead_at_call(nm):
                counter[0] += 1
                ren[nm] = f"{nm}__h{counter[0]}"
        new_body = copy.deepcopy(body)
        holder = ast.Module(body=new_body, type_ignores=[])
        if ren:
            for m in ast.walk(holder):
                if isinstance(m, ast.Name) and m.id in ren:
                    m.id = ren[m.id]
        binds = []
        for p_ in params:
            tgt = ren.get(p_, p_)
            a = binding[p_]
            if isinstance(a, ast.Name) and a.id == tgt:
                continue
            binds.append(ast.copy_location(ast.Assign(targets=[ast.Name(id=tgt, ctx=ast.Store())], value=copy.deepcopy(a)), call))
        return name, binds, holder.body

    def hoist_nested_calls(caller, cls):
        """`f(a, helper(x), b)` -> `t = helper(x)` / `f(a, t, b)` when what is evaluated before the call is plain: the statement forms above then apply"""
        n_ = 0
        for owner in list(_own_nodes(caller)) + [caller]:
            for field in ("body", "orelse", "finalbody"):
                blk = getattr(owner, field, None)
                if not (isinstance(blk, list) and blk and isinstance(blk[0], ast.stmt)):
                    continue
                i = 0
                while i < len(blk):
                    st = blk[i]
                    i += 1
                    if not isinstance(st, (ast.Expr, ast.Assign, ast.Return)) or st.value is None:
                        continue
                    top = st.value
                    # only calls that are direct arguments of the statement's top-level call (or of a call that is itself such an argument / receiver chain)
                    def find(e, depth):
                        if not isinstance(e, ast.Call) or depth > 2:
                            return None
                        pre_ok = _pure(e.func) or (isinstance(e.func, ast.Attribute) and _pure(e.func.value))
                        if isinstance(e.func, ast.Attribute) and isinstance(e.func.value, ast.Call):
                            got_ = find(e.func.value, depth + 1)
                            if got_ is not None:
                                return got_
                            pre_ok = False
                        if not pre_ok:
                            return None
                        slots = [("args", idx, a_) for idx, a_ in enumerate(e.args)] + [("kw", idx, k_.value) for idx, k_ in enumerate(e.keywords)]
                        for kind_, idx, a_ in slots:
                            if isinstance(a_, ast.Call):
                                nm_ = a_.func.id if isinstance(a_.func, ast.Name) else None
                                if nm_ in helpers and _helper_expression(helpers[nm_][0]) is None:
                                    return e, (kind_, idx)
                                got_ = find(a_, depth + 1)
                                if got_ is not None:
                                    return got_
                            if not _pure(a_):
                                return None
                        return None
                    if isinstance(top, ast.Call) and isinstance(top.func, ast.Name) and top.func.id in helpers:
                        continue  # already a statement form
                    got_ = find(top, 0)
                    if got_ is None:
                        continue
                    parent_call, (kind_, idx) = got_
                    counter[0] += 1
                    tmp = f"hoisted__h{counter[0]}"
                    old_v = parent_call.args[idx] if kind_ == "args" else parent_call.keywords[idx].value
                    bind = ast.copy_location(ast.Assign(targets=[ast.Name(id=tmp, ctx=ast.Store())], value=old_v), st)
                    ref_ = ast.copy_location(ast.Name(id=tmp, ctx=ast.Load()), st)
                    if kind_ == "args":
                        parent_call.args[idx] = ref_
                    else:
                        parent_call.keywords[idx].value = ref_
                    blk.insert(i - 1, bind)
                    i += 1
                    n_ += 1
        return n_

    for qn, caller in funcs:
        if qn in helpers or qn in generators:
            continue
        cls = qn.split(".")[0] if "." in qn else None
        if helpers:
            hoist_nested_calls(caller, cls)
        changed = True
        rounds = 0
        while changed and rounds < 4:
            changed = False
            rounds += 1
            for owner in list(_own_nodes(caller)) + [caller]:
                fields = ["body", "orelse", "finalbody"]
                blks = [getattr(owner, f, None) for f in fields]
                if isinstance(owner, ast.Try):
                    blks += [h.body for h in owner.handlers]
                for blk in blks:
                    if not (isinstance(blk, list) and blk and isinstance(blk[0], ast.stmt)):
                        continue
                    for i, st in enumerate(blk):
                        got = None
                        if isinstance(st, ast.Return) and isinstance(st.value, ast.Call):
                            got = expand(st.value, caller, cls)
                            if got is not None:
                                name, binds, body = got
                                fn, _, rets = helpers[name]
                                if not (body and isinstance(body[-1], (ast.Return, ast.Raise))):
                                    body = body + [ast.copy_location(ast.Return(value=None), st)]
                                repl = binds + body
                        elif isinstance(st, ast.For) and not st.orelse and isinstance(st.iter, ast.Call) and generators \
                                and not any(isinstance(y_, ast.Break) for b_ in st.body for y_ in ast.walk(b_)):
                            # `for X in gen(args): BODY` with gen a new generator helper: gen's body with `yield E` replaced by `X = E; BODY`
                            got = expand(st.iter, caller, cls, st.target.id if isinstance(st.target, ast.Name) else None, want_generator=True)
                            if got is not None:
                                name, binds, body = got
                                ys = [(par_, f_, i_) for par_ in ast.walk(ast.Module(body=body, type_ignores=[])) for f_ in ("body", "orelse", "finalbody")
                                      for i_, x_ in enumerate(getattr(par_, f_, []) if isinstance(getattr(par_, f_, None), list) else [])
                                      if isinstance(x_, ast.Expr) and isinstance(x_.value, ast.Yield)]
                                if len(ys) == 1 and ys[0][2] == len(getattr(ys[0][0], ys[0][1])) - 1:
                                    par_, f_, i_ = ys[0]
                                    yv = getattr(par_, f_)[i_].value.value
                                    bind_x = ast.copy_location(ast.Assign(targets=[st.target], value=yv), st)
                                    trivial_ = isinstance(st.target, ast.Name) and isinstance(yv, ast.Name) and yv.id == st.target.id
                                    getattr(par_, f_)[i_:i_ + 1] = ([] if trivial_ else [bind_x]) + st.body
                                    repl = binds + body
                                else:
                                    got = None
                        elif isinstance(st, ast.Expr) and isinstance(st.value, ast.Call):
                            got = expand(st.value, caller, cls)
                            if got is not None:
                                name, binds, body = got
                                fn, _, rets = helpers[name]
                                trailing = bool(body) and isinstance(body[-1], ast.Return) and body[-1].value is None
                                inner = [r for r in rets]
                                if any(r.value is not None for r in inner) or len(inner) > (1 if trailing else 0):
                                    got = None
                                else:
                                    repl = binds + (body[:-1] if trailing else body)
                                    if not repl:
                                        repl = [ast.copy_location(ast.Pass(), st)]
                        elif isinstance(st, ast.Assign) and len(st.targets) == 1 and isinstance(st.value, ast.Call):
                            got = expand(st.value, caller, cls, st.targets[0].id if isinstance(st.targets[0], ast.Name) else None)
                            if got is not None:
                                name, binds, body = got
                                fn, _, rets = helpers[name]
                                tail_ = None
                                if not (len(rets) == 1 and body and isinstance(body[-1], ast.Return)) and rets and isinstance(st.targets[0], ast.Name):
                                    tail_ = _returns_to_assignments(body, st.targets[0])
                                if tail_ is not None:
                                    repl = binds + tail_
                                elif len(rets) == 1 and body and isinstance(body[-1], ast.Return) and body[-1].value is not None:
                                    last = ast.copy_location(ast.Assign(targets=st.targets, value=body[-1].value), st)
                                    trivial = isinstance(st.targets[0], ast.Name) and isinstance(body[-1].value, ast.Name) and st.targets[0].id == body[-1].value.id
                                    repl = binds + body[:-1] + ([] if trivial and (binds or body[:-1]) else [last])
                                else:
                                    got = None
                        if got is not None:
                            for r_ in repl:
                                ast.fix_missing_locations(ast.copy_location(r_, st) if not hasattr(r_, "lineno") else r_)
                            blk[i:i + 1] = repl
                            k += 1
                            changed = True
                            break
                    if changed:
                        break
                if changed:
                    break
    return k


def _generator_helpers_to_genexp(tree: ast.Module, stem: str, ref: dict) -> int:
    """A generator function the reference tree does not have whose body is one loop nest that yields one element per innermost iteration
    (`for ..: [for ..:] [if C: continue] [if C:] yield E`, or `if C: yield A else: yield B`), possibly after bindings of new locals to plain
    arithmetic / comparisons of its parameters, is the generator expression with the same elements in the same order: the body becomes
    `return (<that expression>)`, which the single-expression helper inlining then carries to the call sites.  Only taken when the outermost iterable is
    a plain name or attribute chain (a generator expression evaluates it at creation, a generator function at the first element)."""
    import copy
    k = 0
    for qn, fn in functions(tree):
        if f"{stem}:{qn}" in ref or "." in qn or fn.decorator_list or isinstance(fn, ast.AsyncFunctionDef):
            continue
        own = list(_own_nodes(fn))
        ys = [n for n in own if isinstance(n, ast.Yield)]
        if not ys or any(isinstance(n, (ast.YieldFrom, ast.Return, ast.Await, ast.NamedExpr, ast.Lambda, ast.Try, ast.With, ast.While, ast.Break)) for n in own):
            continue
        body = [st for st in fn.body if not (isinstance(st, ast.Expr) and isinstance(st.value, ast.Constant))]
        if not body or not isinstance(body[-1], ast.For):
            continue
        params = {a.arg for a in fn.args.args}
        subst: Dict[str, ast.AST] = {}
        ok = True

        def plain(e):
            if isinstance(e, ast.Constant):
                return True
            if isinstance(e, ast.Name):
                return e.id in params or e.id in subst
            if isinstance(e, ast.Compare):
                return plain(e.left) and all(plain(c) for c in e.comparators)
            if isinstance(e, ast.BoolOp):
                return all(plain(v) for v in e.values)
            if isinstance(e, ast.UnaryOp):
                return plain(e.operand)
            if isinstance(e, ast.BinOp):
                return plain(e.left) and plain(e.right)
            return False
        for st in body[:-1]:
            if isinstance(st, ast.Assign) and len(st.targets) == 1 and isinstance(st.targets[0], ast.Name) and st.targets[0].id not in params \
                    and st.targets[0].id not in subst and plain(st.value):
                subst[st.targets[0].id] = st.value
            else:
                ok = False
                break
        if not ok:
            continue
        stores = [n.id for n in own if isinstance(n, ast.Name) and not isinstance(n.ctx, ast.Load)]
        if any(stores.count(nm) != 1 for nm in subst) or any(p_ in stores for p_ in params):
            continue
        gens = []
        cur = body[-1]
        elt = None

        def yielded(st):
            return st.value.value if isinstance(st, ast.Expr) and isinstance(st.value, ast.Yield) and st.value.value is not None else None
        while True:
            if isinstance(cur, ast.For) and not cur.orelse and cur.body and all(
                    isinstance(g_, ast.If) and not g_.orelse and len(g_.body) == 1 and isinstance(g_.body[0], ast.Continue) for g_ in cur.body[:-1]):
                gens.append(ast.comprehension(target=cur.target, iter=cur.iter, ifs=[_negate(g_.test) for g_ in cur.body[:-1]], is_async=0))
                cur = cur.body[-1]
                continue
            if isinstance(cur, ast.If) and not cur.orelse and len(cur.body) == 1 and gens:
                gens[-1].ifs.append(cur.test)
                cur = cur.body[0]
                continue
            break
        if yielded(cur) is not None:
            elt = yielded(cur)
        elif isinstance(cur, ast.If) and len(cur.body) == 1 and len(cur.orelse) == 1 and yielded(cur.body[0]) is not None and yielded(cur.orelse[0]) is not None:
            elt = ast.copy_location(ast.IfExp(test=cur.test, body=yielded(cur.body[0]), orelse=yielded(cur.orelse[0])), cur)
        if elt is None or not gens or len([n for n in ast.walk(ast.Module(body=[body[-1]], type_ignores=[])) if isinstance(n, ast.Yield)]) != len(ys):
            continue
        it0 = gens[0].iter
        if not (isinstance(it0, ast.Name) or (isinstance(it0, ast.Attribute) and _pure(it0))):
            continue
        tnames = {m.id for g in gens for m in ast.walk(g.target) if isinstance(m, ast.Name)}
        if tnames & (params | set(subst)):
            continue
        gen = ast.GeneratorExp(elt=elt, generators=gens)
        if subst:
            class S(ast.NodeTransformer):
                def visit_Name(self, n):
                    if isinstance(n.ctx, ast.Load) and n.id in subst:
                        return S().visit(copy.deepcopy(subst[n.id]))
                    return n
            gen = S().visit(gen)
        doc = [st for st in fn.body if isinstance(st, ast.Expr) and isinstance(st.value, ast.Constant)][:1]
        fn.body = doc + [ast.copy_location(ast.Return(value=gen), body[-1])]
        ast.fix_missing_locations(fn)
        k += 1
    return k


def _inline_walrus(fn, keep: Set[str]) -> int:
    """`(x := E)` with x a local the reference tree does not have, bound nowhere else, E a plain read (names, attributes, constant subscripts) none of whose names
    is re-bound in the function after the binding, and every read of x inside the statement that holds the binding (its test and the blocks under it): x is E."""
    import copy
    k = 0
    params = {p.lstrip("*") for p in _params(fn)}
    for holder in list(_own_nodes(fn)):
        if not isinstance(holder, (ast.If, ast.While, ast.Assign, ast.Expr, ast.Return)):
            continue
        top = holder.test if isinstance(holder, (ast.If, ast.While)) else holder.value
        if top is None:
            continue
        for w in [n for n in ast.walk(top) if isinstance(n, ast.NamedExpr)]:
            x = w.target.id
            if x in keep or x in params or not _pure(w.value) or any(isinstance(n, ast.Call) for n in ast.walk(w.value)):
                continue
            stores = [n for n in ast.walk(fn) if isinstance(n, ast.Name) and n.id == x and not isinstance(n.ctx, ast.Load)]
            if len(stores) != 1:
                continue
            inside = {id(n) for n in ast.walk(holder)}
            loads = [n for n in ast.walk(fn) if isinstance(n, ast.Name) and n.id == x and isinstance(n.ctx, ast.Load)]
            if any(id(n) not in inside for n in loads):
                continue
            enames = {n.id for n in ast.walk(w.value) if isinstance(n, ast.Name)}
            rebound = [n for n in ast.walk(holder) if isinstance(n, ast.Name) and n.id in enames and not isinstance(n.ctx, ast.Load)]
            if rebound or isinstance(holder, ast.While):
                continue
            if any(isinstance(n, ast.Call) and isinstance(n.func, ast.Attribute) and n.func.attr in _MUTATORS and any(isinstance(m, ast.Name) and m.id in enames for m in ast.walk(n.func.value))
                   for n in ast.walk(holder)):
                continue

            class S(ast.NodeTransformer):
                def visit_NamedExpr(self, n):
                    if n is w:
                        return copy.deepcopy(w.value)
                    return self.generic_visit(n)

                def visit_Name(self, n):
                    if n.id == x and isinstance(n.ctx, ast.Load):
                        return copy.deepcopy(w.value)
                    return n
            S().visit(holder)
            ast.fix_missing_locations(holder)
            k += 1
    return k


def _split_tuple_temps(fn, keep: Set[str]) -> int:
    """`v = (e0, .., en)` directly followed by a statement that reads v only as `v[0]`, `v[1]`, ... (constant indices, each at most once, in that order), v a
    new local read nowhere else: each `v[i]` is `e_i`, provided the elements left out and everything else the statement evaluates are plain reads (nothing
    is evaluated in another order that could tell)."""
    import copy
    k = 0
    params = {p.lstrip("*") for p in _params(fn)}
    for owner in list(_own_nodes(fn)) + [fn]:
        for field in ("body", "orelse", "finalbody"):
            blk = getattr(owner, field, None)
            if not (isinstance(blk, list) and blk and isinstance(blk[0], ast.stmt)):
                continue
            i = 0
            while i + 1 < len(blk):
                a, b = blk[i], blk[i + 1]
                i += 1
                if not (isinstance(a, ast.Assign) and len(a.targets) == 1 and isinstance(a.targets[0], ast.Name) and isinstance(a.value, ast.Tuple)):
                    continue
                v = a.targets[0].id
                if v in keep or v in params or isinstance(b, (ast.For, ast.While, ast.If, ast.With, ast.Try) + _FUNC):
                    continue
                if sum(1 for n in ast.walk(fn) if isinstance(n, ast.Name) and n.id == v and not isinstance(n.ctx, ast.Load)) != 1:
                    continue
                loads = [n for n in ast.walk(fn) if isinstance(n, ast.Name) and n.id == v and isinstance(n.ctx, ast.Load)]
                subs = [n for n in ast.walk(b) if isinstance(n, ast.Subscript) and isinstance(n.value, ast.Name) and n.value.id == v and isinstance(n.ctx, ast.Load)
                        and isinstance(n.slice, ast.Constant) and isinstance(n.slice.value, int) and 0 <= n.slice.value < len(a.value.elts)]
                if not loads or len(subs) != len(loads) or {id(n.value) for n in subs} != {id(n) for n in loads}:
                    continue
                subs.sort(key=lambda n: (n.lineno, n.col_offset))
                idxs = [n.slice.value for n in subs]
                if idxs != sorted(set(idxs)):
                    continue
                if not all(_pure(e) for j, e in enumerate(a.value.elts) if j not in idxs):
                    continue
                # everything else evaluated by b must be plain
                sub_ids = {id(n) for n in subs}

                def plain(e) -> bool:
                    if id(e) in sub_ids:
                        return True
                    if isinstance(e, (ast.Dict,)):
                        return all(x is None or plain(x) for x in e.keys) and all(plain(x) for x in e.values)
                    if isinstance(e, (ast.Tuple, ast.List, ast.Set)):
                        return all(plain(x) for x in e.elts)
                    if isinstance(e, ast.Call):
                        return _pure(e.func) and all(plain(x) for x in e.args) and all(plain(kw.value) for kw in e.keywords) and \
                            sum(1 for n in ast.walk(e) if id(n) in sub_ids) == len(subs)  # a call may only come last: it must hold every use
                    if isinstance(e, ast.keyword):
                        return plain(e.value)
                    return _pure(e)
                tops = [x for x in (getattr(b, "value", None), *(getattr(b, "targets", []) or [])) if x is not None]
                if not tops or not all(plain(x) for x in tops):
                    continue

                class S(ast.NodeTransformer):
                    def visit_Subscript(self, n):
                        if id(n) in sub_ids:
                            return copy.deepcopy(a.value.elts[n.slice.value])
                        return self.generic_visit(n)
                S().visit(b)
                ast.fix_missing_locations(b)
                del blk[i - 1]
                i -= 1
                k += 1
    return k


def _inline_temp_returns(fn) -> int:
    k = 0
    # names read later than a return can only be read by a closure or a finally block: those keep their assignment
    pinned: Set[str] = set()
    for n in _own_nodes(fn):
        if isinstance(n, _FUNC + (ast.Lambda, ast.ClassDef)):
            pinned.update(x.id for x in ast.walk(n) if isinstance(x, ast.Name))
        if isinstance(n, ast.Try):
            for st in n.finalbody:
                pinned.update(x.id for x in ast.walk(st) if isinstance(x, ast.Name))
        if isinstance(n, (ast.Global, ast.Nonlocal)):
            pinned.update(n.names)
    params = {p.lstrip("*") for p in _params(fn)}

    def do_body(body: List[ast.stmt]):
        nonlocal k
        i = 0
        while i + 1 < len(body):
            a, b = body[i], body[i + 1]
            if (isinstance(a, ast.Assign) and len(a.targets) == 1 and isinstance(a.targets[0], ast.Name) and isinstance(b, ast.Return)
                    and isinstance(b.value, ast.Name) and b.value.id == a.targets[0].id and b.value.id not in pinned and b.value.id not in params):
                b.value = a.value
                del body[i]
                k += 1
                continue
            i += 1
    for n in _own_nodes(fn):
        for field in ("body", "orelse", "finalbody"):
            blk = getattr(n, field, None)
            if isinstance(blk, list) and blk and isinstance(blk[0], ast.stmt):
                do_body(blk)
        if isinstance(n, ast.Try):
            for h in n.handlers:
                do_body(h.body)
    do_body(fn.body)
    return k


_PURE_CALLS = {"len", "str", "repr", "sorted", "list", "tuple", "set", "dict", "int", "float", "bool", "type", "id", "min", "max", "sum", "abs", "round", "hex"}
_PURE_METHODS = {"relative_to", "join", "format", "keys", "values", "items", "get", "hex", "name", "stem", "resolve", "absolute", "tostring", "decode"}


def _pure(e: ast.AST) -> bool:
    """Conservative: evaluating e can neither change program state nor the file system."""
    if isinstance(e, (ast.Constant, ast.Name)):
        return True
    if isinstance(e, ast.Attribute):
        return _pure(e.value)
    if isinstance(e, ast.Subscript):
        return _pure(e.value) and _pure(e.slice)
    if isinstance(e, ast.Slice):
        return all(x is None or _pure(x) for x in (e.lower, e.upper, e.step))
    if isinstance(e, ast.JoinedStr):
        return all(_pure(v) for v in e.values)
    if isinstance(e, ast.FormattedValue):
        return _pure(e.value) and (e.format_spec is None or _pure(e.format_spec))
    if isinstance(e, (ast.Tuple, ast.List, ast.Set)):
        return all(_pure(x) for x in e.elts)
    if isinstance(e, ast.Dict):
        return all(k is None or _pure(k) for k in e.keys) and all(_pure(v) for v in e.values)
    if isinstance(e, ast.BinOp):
        return _pure(e.left) and _pure(e.right)
    if isinstance(e, ast.UnaryOp):
        return _pure(e.operand)
    if isinstance(e, ast.BoolOp):
        return all(_pure(v) for v in e.values)
    if isinstance(e, ast.Compare):
        return _pure(e.left) and all(_pure(c) for c in e.comparators)
    if isinstance(e, ast.IfExp):
        return _pure(e.test) and _pure(e.body) and _pure(e.orelse)
    if isinstance(e, ast.Starred):
        return _pure(e.value)
    if isinstance(e, ast.Call):
        ok = (isinstance(e.func, ast.Name) and e.func.id in _PURE_CALLS) or (isinstance(e.func, ast.Attribute) and e.func.attr in _PURE_METHODS and _pure(e.func.value))
        return ok and all(_pure(a) for a in e.args) and all(_pure(k.value) for k in e.keywords)
    return False


def _is_log_stmt(st: ast.stmt) -> bool:
    if not (isinstance(st, ast.Expr) and isinstance(st.value, ast.Call)):
        return False
    c = st.value
    f = c.func
    if isinstance(f, ast.Attribute) and f.attr in ("debug", "info") \
            and isinstance(f.value, ast.Name) and f.value.id in ("logging", "logger", "log", "LOG", "_LOG", "_logger"):
        return all(_pure(a) for a in c.args) and all(_pure(k.value) for k in c.keywords)
    return False


def _plain_annotated_assignments(fn) -> int:
    """Inside a function `x: T = e` is `x = e` (annotations of locals are not evaluated into behaviour)."""
    k = 0
    for n in _own_nodes(fn):
        for field in ("body", "orelse", "finalbody"):
            blk = getattr(n, field, None)
            if isinstance(blk, list):
                for i, st in enumerate(blk):
                    if isinstance(st, ast.AnnAssign) and st.value is not None and isinstance(st.target, ast.Name):
                        blk[i] = ast.copy_location(ast.Assign(targets=[st.target], value=st.value), st)
                        k += 1
        if isinstance(n, ast.Try):
            for h in n.handlers:
                for i, st in enumerate(h.body):
                    if isinstance(st, ast.AnnAssign) and st.value is not None and isinstance(st.target, ast.Name):
                        h.body[i] = ast.copy_location(ast.Assign(targets=[st.target], value=st.value), st)
                        k += 1
    for i, st in enumerate(fn.body):
        if isinstance(st, ast.AnnAssign) and st.value is not None and isinstance(st.target, ast.Name):
            fn.body[i] = ast.copy_location(ast.Assign(targets=[st.target], value=st.value), st)
            k += 1
    return k


def _simple(e) -> bool:
    return isinstance(e, (ast.Name, ast.Constant)) or (isinstance(e, ast.Attribute) and _simple(e.value))


def _eval_order(st: ast.stmt) -> Optional[List[ast.AST]]:
    """Expressions a simple statement evaluates, in evaluation order (None: not a statement we inline into)."""
    if isinstance(st, ast.Expr):
        return [st.value]
    if isinstance(st, ast.Return) and st.value is not None:
        return [st.value]
    if isinstance(st, ast.Assign):
        return [st.value] + list(st.targets)
    if isinstance(st, ast.AugAssign):
        return [st.target, st.value]
    if isinstance(st, ast.For) and not st.orelse:
        return [st.iter]
    if isinstance(st, ast.If):
        return [st.test]
    return None


def _merge_split_names(fn, entry) -> List[str]:
    """"One name per meaning": the reference re-binds a local X (`bounds = tuple(round(v) for v in bounds)`), the tree under analysis gives that later value its
    own name Y.  When Y is bound exactly once, outside any loop, by an expression the reference binds to X, and X is neither read nor bound after that
    statement, Y is X re-used: renamed back."""
    if "locals" not in entry:
        return []
    cur = signatures(fn)
    if not cur:
        return []
    ref = {v: set(sg) for v, sg in entry["locals"]}
    params = {p.lstrip("*") for p in _params(fn)}
    done = []
    in_loop: Set[int] = set()
    for n in _own_nodes(fn):
        if isinstance(n, (ast.For, ast.While, ast.AsyncFor)):
            for st in n.body + n.orelse:
                for m in ast.walk(st):
                    in_loop.add(id(m))
    pinned: Set[str] = set()
    for n in _own_nodes(fn):
        if isinstance(n, _FUNC + (ast.Lambda, ast.ClassDef, ast.ListComp, ast.SetComp, ast.DictComp, ast.GeneratorExp)):
            pass
        if isinstance(n, _FUNC + (ast.Lambda, ast.ClassDef)):
            pinned.update(x.id for x in ast.walk(n) if isinstance(x, ast.Name))
    for y, sg in list(cur.items()):
        if y in ref or y in params or y in pinned or len(sg) != 1 or not sg[0].startswith("assign:"):
            continue
        cands = [x for x, rs in ref.items() if sg[0] in rs and sg[0] not in cur.get(x, ()) and x in cur and x not in pinned]
        if len(cands) != 1:
            continue
        x = cands[0]
        defs = [n for n in _own_nodes(fn) if isinstance(n, ast.Assign) and len(n.targets) == 1 and isinstance(n.targets[0], ast.Name) and n.targets[0].id == y]
        if len(defs) != 1 or id(defs[0]) in in_loop:
            continue
        d = defs[0]
        end = (getattr(d, "end_lineno", d.lineno), getattr(d, "end_col_offset", 10 ** 6))
        later = [m for m in ast.walk(fn) if isinstance(m, ast.Name) and m.id == x and _pos(m) > end]
        if later:
            continue
        _rename_in(fn, {y: x})
        done.append(f"{y} -> {x} (split name merged)")
        cur = signatures(fn) or {}
    return done


def _fold_accumulators(fn, keep: Set[str]) -> int:
    """Only for locals the reference tree does not have: `x = []` directly followed by `for T in IT: [for ..:] [if C:] x.append(E)` (likewise `x = {}` with
    `x[K] = V`, `x = set()` with `x.add(E)`), `x` bound nowhere else and not read inside the loop, the loop targets not read after the loop: the pair
    becomes `x = [E for T in IT if C]` (same elements in the same order)."""
    k = 0
    stores: Dict[str, int] = {}
    loads: Dict[str, int] = {}
    for n in ast.walk(fn):
        if isinstance(n, ast.Name):
            if isinstance(n.ctx, ast.Load):
                loads[n.id] = loads.get(n.id, 0) + 1
            else:
                stores[n.id] = stores.get(n.id, 0) + 1
    params = {p.lstrip("*") for p in _params(fn)}

    def kind_of(v):
        if isinstance(v, ast.List) and not v.elts:
            return "list"
        if isinstance(v, ast.Dict) and not v.keys:
            return "dict"
        if isinstance(v, ast.Call) and isinstance(v.func, ast.Name) and v.func.id in ("set", "list", "dict") and not v.args and not v.keywords:
            return v.func.id
        return None

    two_armed: Set[int] = set()

    def unwrap(loop, x, kind):
        """-> (generators, element) or None"""
        gens = []
        cur = loop
        while True:
            if isinstance(cur, ast.For) and not cur.orelse and len(cur.body) == 1:
                gens.append(ast.comprehension(target=cur.target, iter=cur.iter, ifs=[], is_async=0))
                cur = cur.body[0]
                continue
            if isinstance(cur, ast.For) and not cur.orelse and len(cur.body) >= 2 and all(
                    isinstance(g_, ast.If) and not g_.orelse and len(g_.body) == 1 and isinstance(g_.body[0], ast.Continue) for g_ in cur.body[:-1]):
                # guard clauses `if C: continue` in front of the one statement that matters are filters `if not C`
                gens.append(ast.comprehension(target=cur.target, iter=cur.iter, ifs=[_negate(g_.test) for g_ in cur.body[:-1]], is_async=0))
                cur = cur.body[-1]
                continue
            if isinstance(cur, ast.If) and not cur.orelse and len(cur.body) == 1 and gens:
                gens[-1].ifs.append(cur.test)
                cur = cur.body[0]
                continue
            break
        if not gens:
            return None

        def pushed(st):
            if kind in ("list", "set") and isinstance(st, ast.Expr) and isinstance(st.value, ast.Call) and isinstance(st.value.func, ast.Attribute) \
                    and isinstance(st.value.func.value, ast.Name) and st.value.func.value.id == x and len(st.value.args) == 1 and not st.value.keywords \
                    and st.value.func.attr == ("append" if kind == "list" else "add") and not isinstance(st.value.args[0], ast.Starred):
                return st.value.args[0]
            return None
        if pushed(cur) is not None:
            return gens, pushed(cur)
        if isinstance(cur, ast.If) and len(cur.body) == 1 and len(cur.orelse) == 1 and pushed(cur.body[0]) is not None and pushed(cur.orelse[0]) is not None:
            # one element either way: `if C: x.append(A) else: x.append(B)` pushes `A if C else B`
            two_armed.add(id(cur))
            return gens, ast.copy_location(ast.IfExp(test=cur.test, body=pushed(cur.body[0]), orelse=pushed(cur.orelse[0])), cur)
        if kind == "dict" and isinstance(cur, ast.Assign) and len(cur.targets) == 1 and isinstance(cur.targets[0], ast.Subscript) \
                and isinstance(cur.targets[0].value, ast.Name) and cur.targets[0].value.id == x:
            return gens, (cur.targets[0].slice, cur.value)
        return None

    for n in list(_own_nodes(fn)) + [fn]:
        for field in ("body", "orelse", "finalbody"):
            blk = getattr(n, field, None)
            if not (isinstance(blk, list) and blk and isinstance(blk[0], ast.stmt)):
                continue
            i = 0
            while i + 1 < len(blk):
                a, b = blk[i], blk[i + 1]
                i += 1
                if not (isinstance(a, ast.Assign) and len(a.targets) == 1 and isinstance(a.targets[0], ast.Name) and isinstance(b, ast.For)):
                    continue
                x = a.targets[0].id
                kind = kind_of(a.value)
                if kind is None or x in keep or x in params or stores.get(x, 0) != 1:
                    continue
                hit = unwrap(b, x, kind)
                if hit is None:
                    continue
                gens, elt = hit
                inside = [m for m in ast.walk(b) if isinstance(m, ast.Name)]
                if sum(1 for m in inside if m.id == x) != (2 if any(id(m) in two_armed for m in ast.walk(b)) else 1):
                    continue  # the accumulator is read inside the loop
                if any(isinstance(m, (ast.Yield, ast.YieldFrom, ast.Await, ast.NamedExpr, ast.Lambda)) for m in ast.walk(b)):
                    continue
                tnames = {m.id for g in gens for m in ast.walk(g.target) if isinstance(m, ast.Name)}
                if any(stores.get(t, 0) != sum(1 for m in inside if m.id == t and not isinstance(m.ctx, ast.Load)) for t in tnames):
                    continue  # a loop target is bound elsewhere too
                if any(loads.get(t, 0) != sum(1 for m in inside if m.id == t and isinstance(m.ctx, ast.Load)) for t in tnames):
                    continue  # a loop target is read after the loop
                if kind == "dict":
                    comp = ast.DictComp(key=elt[0], value=elt[1], generators=gens)
                elif kind == "set":
                    comp = ast.SetComp(elt=elt, generators=gens)
                else:
                    comp = ast.ListComp(elt=elt, generators=gens)
                a.value = ast.copy_location(comp, b)
                ast.fix_missing_locations(a)
                a.end_lineno = getattr(b, "end_lineno", None)
                del blk[i]
                k += 1
    return k


_PURE_BUILTINS = {"len", "set", "frozenset", "tuple", "list", "dict", "sorted", "min", "max", "sum", "any", "all", "abs", "round", "int", "float", "str", "bool",
                  "isinstance", "zip", "enumerate", "reversed", "range", "repr", "hex", "ord", "chr", "divmod"}
_MUTATORS = {"append", "extend", "add", "update", "pop", "remove", "insert", "clear", "sort", "reverse", "setdefault", "discard", "popleft", "appendleft",
             "popitem", "difference_update", "intersection_update", "symmetric_difference_update", "write", "writelines"}


def _pure(e) -> bool:
    """Expressions whose value depends only on the current values of the names / attributes they read (no calls except a few builtins)."""
    if isinstance(e, (ast.Name, ast.Constant)):
        return True
    if isinstance(e, ast.Attribute):
        return _pure(e.value)
    if isinstance(e, (ast.Compare,)):
        return _pure(e.left) and all(_pure(c) for c in e.comparators)
    if isinstance(e, ast.BinOp):
        return _pure(e.left) and _pure(e.right)
    if isinstance(e, ast.BoolOp):
        return all(_pure(v) for v in e.values)
    if isinstance(e, ast.UnaryOp):
        return _pure(e.operand)
    if isinstance(e, ast.IfExp):
        return _pure(e.test) and _pure(e.body) and _pure(e.orelse)
    if isinstance(e, ast.Tuple):
        return all(_pure(x) for x in e.elts)
    if isinstance(e, ast.Call):
        return isinstance(e.func, ast.Name) and e.func.id in _PURE_BUILTINS \
            and all(_pure(a) or (isinstance(a, ast.GeneratorExp) and _pure_comp(a)) or _pure_chain(a) for a in e.args) \
            and all(k.arg is not None and _pure(k.value) for k in e.keywords)
    if isinstance(e, (ast.ListComp, ast.SetComp, ast.DictComp)):
        return _pure_comp(e)
    if isinstance(e, ast.JoinedStr):
        return all(_pure(v) for v in e.values)
    if isinstance(e, ast.FormattedValue):
        return _pure(e.value) and (e.format_spec is None or _pure(e.format_spec))
    return False


def _is_chain_from_iterable(e) -> bool:
    return isinstance(e, ast.Call) and ast.unparse(e.func) in ("chain.from_iterable", "itertools.chain.from_iterable") and len(e.args) == 1 and not e.keywords


def _pure_chain(e) -> bool:
    """chain.from_iterable(<pure>) handed straight to a consuming builtin (a one-shot iterator, like a bare generator expression)"""
    return _is_chain_from_iterable(e) and (_pure(e.args[0]) or (isinstance(e.args[0], ast.GeneratorExp) and _pure_comp(e.args[0])))


def _pure_comp(e) -> bool:
    """a comprehension all of whose parts are pure (a bare generator expression is only pure as the direct argument of a consuming builtin: it can be read once)"""
    for g in e.generators:
        if g.is_async or not _pure(g.iter) or not all(_pure(c) for c in g.ifs):
            return False
    if isinstance(e, ast.DictComp):
        return _pure(e.key) and _pure(e.value)
    return _pure(e.elt)


def _pos(n):
    return (getattr(n, "lineno", 0), getattr(n, "col_offset", 0))


_STRUCTURAL_BUILTINS = {"len", "sorted", "tuple", "list", "set", "frozenset", "dict", "min", "max", "sum", "any", "all", "enumerate", "zip", "reversed", "bool", "str", "repr"}


def _structural_reads(value) -> Set[str]:
    """names whose CONTENTS the expression reads (length, items, membership, iteration): these change when anything the name is handed to mutates it"""
    out: Set[str] = set()

    def base(e):
        while isinstance(e, (ast.Attribute, ast.Subscript)):
            e = e.value
        return e.id if isinstance(e, ast.Name) else None
    for n in ast.walk(value):
        if isinstance(n, ast.Call) and isinstance(n.func, ast.Name) and n.func.id in _STRUCTURAL_BUILTINS:
            for a in n.args:
                b = base(a.value if isinstance(a, ast.Starred) else a)
                if b:
                    out.add(b)
        elif isinstance(n, ast.Subscript):
            b = base(n.value)
            if b:
                out.add(b)
        elif isinstance(n, ast.Compare) and any(isinstance(o, (ast.In, ast.NotIn)) for o in n.ops):
            for c in n.comparators:
                b = base(c)
                if b:
                    out.add(b)
        elif isinstance(n, ast.comprehension):
            b = base(n.iter)
            if b:
                out.add(b)
        elif isinstance(n, ast.Starred):
            b = base(n.value)
            if b:
                out.add(b)
    return out


def _handed_over(fn) -> List[Tuple[Tuple[int, int], str]]:
    """(position, name) for every name passed to (or used as the receiver of) a call that is not a consuming builtin: the callee may change its contents"""
    out = []

    def base(e):
        while isinstance(e, (ast.Attribute, ast.Subscript)):
            e = e.value
        return e.id if isinstance(e, ast.Name) else None
    for n in ast.walk(fn):
        if isinstance(n, ast.Call):
            if isinstance(n.func, ast.Name) and n.func.id in _PURE_BUILTINS:
                continue
            for a in list(n.args) + [k.value for k in n.keywords]:
                b = base(a.value if isinstance(a, ast.Starred) else a)
                if b:
                    out.append((_pos(n), b))
            if isinstance(n.func, ast.Attribute):
                b = base(n.func.value)
                if b:
                    out.append((_pos(n), b))
    return out


def _inline_pure_temps(fn, keep: Set[str]) -> int:
    """Only for locals the reference tree does not have ("explaining variables"): `t = e` with `e` pure (names, attribute chains, constants, operators, a few
    builtins), `t` bound exactly once, every read of `t` later in the same block (at any depth), nothing `e` reads re-bound or mutated after the
    assignment: every read of `t` is replaced by `e` and the assignment is dropped."""
    import copy
    k = 0
    # `a, b = X, Y` with new names on the left and nothing on the right reading them: two plain assignments
    for owner in list(_own_nodes(fn)) + [fn]:
        for field in ("body", "orelse", "finalbody"):
            blk = getattr(owner, field, None)
            if not (isinstance(blk, list) and blk and isinstance(blk[0], ast.stmt)):
                continue
            i = 0
            while i < len(blk):
                st = blk[i]
                if isinstance(st, ast.Assign) and len(st.targets) == 1 and isinstance(st.targets[0], ast.Tuple) and isinstance(st.value, ast.Tuple) \
                        and len(st.targets[0].elts) == len(st.value.elts) and all(isinstance(t, ast.Name) and t.id not in keep for t in st.targets[0].elts) \
                        and not any(isinstance(x, ast.Starred) for x in st.value.elts) and all(_pure(v) for v in st.value.elts):
                    tn = {t.id for t in st.targets[0].elts}
                    if len(tn) == len(st.targets[0].elts) and not any(isinstance(m, ast.Name) and m.id in tn for v in st.value.elts for m in ast.walk(v)):
                        blk[i:i + 1] = [ast.copy_location(ast.Assign(targets=[t], value=v), st) for t, v in zip(st.targets[0].elts, st.value.elts)]
                        i += len(tn)
                        continue
                i += 1
    changed = True
    while changed:
        changed = False
        stores: Dict[str, List[ast.AST]] = {}
        loads: Dict[str, int] = {}
        for n in ast.walk(fn):
            if isinstance(n, ast.Name):
                if isinstance(n.ctx, ast.Load):
                    loads[n.id] = loads.get(n.id, 0) + 1
                else:
                    stores.setdefault(n.id, []).append(n)
            elif isinstance(n, ast.arg):
                pass
        params = {p.lstrip("*") for p in _params(fn)}
        pinned: Set[str] = set()
        comp_bound: Set[str] = set()
        for n in _own_nodes(fn):
            if isinstance(n, _FUNC + (ast.ClassDef,)):
                pinned.update(x.id for x in ast.walk(n) if isinstance(x, ast.Name))
                pinned.update(x.arg for x in ast.walk(n) if isinstance(x, ast.arg))
            if isinstance(n, (ast.Global, ast.Nonlocal)):
                pinned.update(n.names)
            if isinstance(n, ast.Lambda):
                comp_bound.update(x.arg for x in ast.walk(n.args) if isinstance(x, ast.arg))
            if isinstance(n, (ast.ListComp, ast.SetComp, ast.DictComp, ast.GeneratorExp)):
                for g in n.generators:
                    comp_bound.update(x.id for x in ast.walk(g.target) if isinstance(x, ast.Name))
        handed = _handed_over(fn)
        # mutations, by position
        mutated: List[Tuple[Tuple[int, int], str]] = []  # (position, base name or ".attr")
        for n in ast.walk(fn):
            if isinstance(n, ast.Call) and isinstance(n.func, ast.Attribute) and n.func.attr in _MUTATORS:
                for x in ast.walk(n.func.value):
                    if isinstance(x, ast.Name):
                        mutated.append((_pos(n), x.id))
            if isinstance(n, (ast.Subscript, ast.Attribute)) and isinstance(n.ctx, (ast.Store, ast.Del)):
                for x in ast.walk(n.value):
                    if isinstance(x, ast.Name):
                        mutated.append((_pos(n), x.id))
                if isinstance(n, ast.Attribute):
                    mutated.append((_pos(n), "." + n.attr))
            if isinstance(n, ast.AugAssign):
                for x in ast.walk(n.target):
                    if isinstance(x, ast.Name):
                        mutated.append((_pos(n), x.id))
                    if isinstance(x, ast.Attribute):
                        mutated.append((_pos(n), "." + x.attr))
        for owner in list(_own_nodes(fn)) + [fn]:
            for field in ("body", "orelse", "finalbody"):
                blk = getattr(owner, field, None)
                if not (isinstance(blk, list) and blk and isinstance(blk[0], ast.stmt)):
                    continue
                for i, st in enumerate(blk):
                    if not (isinstance(st, ast.Assign) and len(st.targets) == 1 and isinstance(st.targets[0], ast.Name)):
                        continue
                    x = st.targets[0].id
                    if x in keep or x in params or x in pinned or x in comp_bound or len(stores.get(x, [])) != 1 or not _pure(st.value):
                        continue
                    if isinstance(st.value, ast.Constant) and isinstance(st.value.value, (bool, type(None))):
                        pass
                    rest = blk[i + 1:]
                    uses = [m for r in rest for m in ast.walk(r) if isinstance(m, ast.Name) and m.id == x and isinstance(m.ctx, ast.Load)]
                    if not uses or len(uses) != loads.get(x, 0):
                        continue
                    own_bound = {t.id for m in ast.walk(st.value) if isinstance(m, (ast.ListComp, ast.SetComp, ast.DictComp, ast.GeneratorExp))
                                 for g in m.generators for t in ast.walk(g.target) if isinstance(t, ast.Name)}
                    bases = {m.id for m in ast.walk(st.value) if isinstance(m, ast.Name)} - own_bound
                    attrs = {"." + m.attr for m in ast.walk(st.value) if isinstance(m, ast.Attribute)}
                    other_bound = set()
                    for m in _own_nodes(fn):
                        if isinstance(m, (ast.ListComp, ast.SetComp, ast.DictComp, ast.GeneratorExp)) and not any(m is z for z in ast.walk(st.value)):
                            for g in m.generators:
                                other_bound.update(t.id for t in ast.walk(g.target) if isinstance(t, ast.Name))
                        if isinstance(m, ast.Lambda):
                            other_bound.update(a.arg for a in ast.walk(m.args) if isinstance(a, ast.arg))
                    if bases & other_bound or own_bound & (set(stores) - own_bound):
                        continue
                    here = _pos(st)
                    if any(_pos(sn) >= here for b in bases for sn in stores.get(b, [])):
                        continue  # something the expression reads is re-bound after the assignment
                    if any(pos >= here and (what in bases or what in attrs) for pos, what in mutated):
                        continue
                    sr_ = _structural_reads(st.value)
                    last_use = max(_pos(u) for u in uses)
                    if sr_ and any(here < pos <= last_use and what in sr_ for pos, what in handed):
                        continue  # the contents it reads may be changed by a call made before the value is used
                    has_call = any(isinstance(m, (ast.Call, ast.ListComp, ast.SetComp, ast.DictComp)) for m in ast.walk(st.value))
                    if has_call:
                        # a freshly built object must only be read as a value: no attribute / item access on the temporary
                        bad = False
                        for r in rest:
                            for m in ast.walk(r):
                                if isinstance(m, (ast.Attribute, ast.Subscript)) and isinstance(m.value, ast.Name) and m.value.id == x:
                                    bad = True
                                if isinstance(m, (ast.For, ast.comprehension)) and isinstance(m.iter, ast.Name) and m.iter.id == x and len(uses) > 1 \
                                        and isinstance(st.value, ast.Call) and st.value.func.id in ("zip", "enumerate", "reversed"):
                                    bad = True  # a one-shot iterator read twice
                        if bad:
                            continue

                    class S(ast.NodeTransformer):
                        def visit_Name(self, m):
                            if m.id == x and isinstance(m.ctx, ast.Load):
                                return ast.copy_location(copy.deepcopy(st.value), m)
                            return m
                    for j in range(i + 1, len(blk)):
                        blk[j] = S().visit(blk[j])
                    del blk[i]
                    k += 1
                    changed = True
                    break
                if changed:
                    break
            if changed:
                break
    return k


def _inline_adjacent_temps(fn, keep: Set[str]) -> int:
    """Only for locals the reference tree does not have (`keep` = the reference names): `t = e` directly followed by a simple statement that reads `t` exactly once, `t` bound and read nowhere else, and nothing but
    names / constants / attribute chains evaluated before that read: the read is replaced by `e` (same values in the same order)."""
    k = 0
    stores: Dict[str, int] = {}
    loads: Dict[str, int] = {}
    pinned: Set[str] = set()
    for n in ast.walk(fn):
        if isinstance(n, ast.Name):
            if isinstance(n.ctx, ast.Load):
                loads[n.id] = loads.get(n.id, 0) + 1
            else:
                stores[n.id] = stores.get(n.id, 0) + 1
    for n in _own_nodes(fn):
        if isinstance(n, _FUNC + (ast.Lambda, ast.ClassDef)):
            pinned.update(x.id for x in ast.walk(n) if isinstance(x, ast.Name))
        if isinstance(n, (ast.Global, ast.Nonlocal)):
            pinned.update(n.names)
        if isinstance(n, (ast.ListComp, ast.SetComp, ast.DictComp, ast.GeneratorExp)):
            pinned.update(x.id for x in ast.walk(n) if isinstance(x, ast.Name))
    params = {p.lstrip("*") for p in _params(fn)}

    def first_use_ok(st, name) -> Optional[Tuple[ast.AST, str, object]]:
        order = _eval_order(st)
        if order is None:
            return None
        # walk in evaluation order; stop at the first non-simple node that is not an ancestor of the use
        found = []

        def visit(e, parent, field, idx) -> bool:
            """returns False when evaluation of something impure/unknown happens before the use is met"""
            if isinstance(e, ast.Name):
                if e.id == name and isinstance(e.ctx, ast.Load):
                    found.append((parent, field, idx))
                    return True
                return True
            if isinstance(e, ast.Constant):
                return True
            if isinstance(e, ast.Attribute):
                return visit(e.value, e, "value", None) and not found or bool(found)
            if isinstance(e, ast.Call):
                if not visit(e.func, e, "func", None):
                    return False
                if found:
                    return True
                for i, a in enumerate(e.args):
                    if isinstance(a, ast.Starred):
                        return False
                    if not visit(a, e, "args", i):
                        return False
                    if found:
                        return True
                    if not _simple(a):
                        return False  # a complex argument evaluated before the use
                for kw in e.keywords:
                    if not visit(kw.value, kw, "value", None):
                        return False
                    if found:
                        return True
                    if not _simple(kw.value):
                        return False
                return False  # the call itself completes before any later use
            if isinstance(e, ast.Subscript):
                if not visit(e.value, e, "value", None):
                    return False
                if found:
                    return True
                return visit(e.slice, e, "slice", None) if _simple(e.value) else False
            if isinstance(e, (ast.Tuple, ast.List)):
                for i, x in enumerate(e.elts):
                    if not visit(x, e, "elts", i):
                        return False
                    if found:
                        return True
                    if not _simple(x):
                        return False
                return True
            if isinstance(e, ast.BinOp):
                if not visit(e.left, e, "left", None):
                    return False
                if found:
                    return True
                return visit(e.right, e, "right", None) if _simple(e.left) else False
            if isinstance(e, ast.UnaryOp):
                return visit(e.operand, e, "operand", None)
            if isinstance(e, ast.Compare):
                if not visit(e.left, e, "left", None):
                    return False
                if found:
                    return True
                if not _simple(e.left):
                    return False
                return visit(e.comparators[0], e, "comparators", 0)
            return False
        for i, e in enumerate(order):
            holder = next((f for f in ("value", "iter", "test") if e is getattr(st, f, None)), None)
            ok = visit(e, st, holder, None)
            if found:
                return found[0]
            if not ok or not _simple(e):
                return None
        return None

    def do(body: List[ast.stmt]):
        nonlocal k
        i = 0
        while i + 1 < len(body):
            a, b = body[i], body[i + 1]
            if (isinstance(a, ast.Assign) and len(a.targets) == 1 and isinstance(a.targets[0], ast.Name)):
                t = a.targets[0].id
                if t not in keep and stores.get(t) == 1 and loads.get(t) == 1 and t not in pinned and t not in params and not isinstance(a.value, (ast.Lambda, ast.Yield, ast.YieldFrom, ast.Await, ast.IfExp)):
                    if isinstance(b, ast.Assign) and len(b.targets) == 1 and isinstance(b.targets[0], ast.Name) and isinstance(b.value, ast.Constant) \
                            and b.targets[0].id != t and b.targets[0].id not in {x.id for x in ast.walk(a.value) if isinstance(x, ast.Name)} and i + 2 < len(body):
                        # `n = <constant>` in between neither observes nor disturbs the temporary's expression: look past it
                        body[i], body[i + 1] = b, a
                        i += 1
                        continue
                    hit = first_use_ok(b, t)
                    if hit is not None:
                        parent, field, idx = hit
                        if field is not None:
                            if idx is None:
                                setattr(parent, field, a.value)
                            else:
                                getattr(parent, field)[idx] = a.value
                            del body[i]
                            k += 1
                            continue
            i += 1
    for n in list(_own_nodes(fn)):
        for field in ("body", "orelse", "finalbody"):
            blk = getattr(n, field, None)
            if isinstance(blk, list) and blk and isinstance(blk[0], ast.stmt):
                do(blk)
        if isinstance(n, ast.Try):
            for h in n.handlers:
                do(h.body)
    do(fn.body)
    return k


# ------------------------------------------------------------------------------------------------------------------------------
# N9: control-flow restyling, undone by search.  Each rewrite below is an equivalence of Python statements; one is applied only when it brings the
# function's statement skeleton strictly closer to the reference skeleton, so an unchanged function is never touched and a restyled one is read in the
# reference's own style (guard clause vs nested if, early return vs else, conditional expression vs if/else, loop over a generator vs nested loops).
_TERMINATORS = (ast.Return, ast.Raise, ast.Continue, ast.Break)


def _negate(c: ast.AST) -> ast.AST:
    import copy
    if isinstance(c, ast.UnaryOp) and isinstance(c.op, ast.Not):
        return copy.deepcopy(c.operand)
    if isinstance(c, ast.Compare) and len(c.ops) == 1:
        # orderings too (a <= b  <->  not a > b): exact for the ints / finite numbers this code base compares (it would not be for NaN)
        flip = {ast.Eq: ast.NotEq, ast.NotEq: ast.Eq, ast.Is: ast.IsNot, ast.IsNot: ast.Is, ast.In: ast.NotIn, ast.NotIn: ast.In,
                ast.Lt: ast.GtE, ast.GtE: ast.Lt, ast.Gt: ast.LtE, ast.LtE: ast.Gt}
        for a, b in flip.items():
            if isinstance(c.ops[0], a):
                return ast.copy_location(ast.Compare(left=copy.deepcopy(c.left), ops=[b()], comparators=copy.deepcopy(c.comparators)), c)
    return ast.copy_location(ast.UnaryOp(op=ast.Not(), operand=copy.deepcopy(c)), c)


def _ends_in_terminator(body) -> bool:
    return bool(body) and isinstance(body[-1], _TERMINATORS)


def _restyle_candidates(fn):
    """-> list of thunks; each applies one equivalence rewrite in place.  The enumeration order is a function of the tree alone, so the i-th candidate of
    a deep copy is the same rewrite."""
    out = []

    def blocks(node, in_loop_body):
        for field in ("body", "orelse", "finalbody"):
            blk = getattr(node, field, None)
            if isinstance(blk, list) and blk and isinstance(blk[0], ast.stmt):
                yield blk, (field == "body" and isinstance(node, (ast.For, ast.While)) and not node.orelse), (field == "body" and node is fn)
        if isinstance(node, ast.Try):
            for h in node.handlers:
                yield h.body, False, False

    def has_break(stmts):
        for st in stmts:
            for n in ast.walk(st):
                if isinstance(n, (ast.Break,)):
                    return True
        return False

    todo = [fn]
    owners = []
    while todo:
        n = todo.pop(0)
        owners.append(n)
        for ch in ast.iter_child_nodes(n):
            if isinstance(ch, _FUNC + (ast.Lambda, ast.ClassDef)):
                continue
            if isinstance(ch, (ast.stmt, ast.ExceptHandler)):
                todo.append(ch)
    for owner in owners:
        for blk, loop_body, func_body in blocks(owner, False):
            for i, st in enumerate(blk):
                if isinstance(st, ast.If):
                    rest = blk[i + 1:]
                    # A: guard-continue -> nested if
                    if loop_body and not st.orelse and len(st.body) == 1 and isinstance(st.body[0], ast.Continue) and rest:
                        def a(blk=blk, i=i, st=st):
                            new = ast.copy_location(ast.If(test=_negate(st.test), body=blk[i + 1:], orelse=[]), st)
                            blk[i:] = [new]
                        out.append(a)
                    if func_body and not st.orelse and len(st.body) == 1 and isinstance(st.body[0], ast.Return) and st.body[0].value is None and rest \
                            and not isinstance(rest[-1], ast.Return):
                        def a2(blk=blk, i=i, st=st):
                            new = ast.copy_location(ast.If(test=_negate(st.test), body=blk[i + 1:], orelse=[]), st)
                            blk[i:] = [new]
                        out.append(a2)
                    # A': trailing nested if -> guard-continue
                    if loop_body and not st.orelse and i == len(blk) - 1 and not (len(st.body) == 1 and isinstance(st.body[0], ast.Continue)):
                        def a1(blk=blk, i=i, st=st):
                            g = ast.copy_location(ast.If(test=_negate(st.test), body=[ast.copy_location(ast.Continue(), st)], orelse=[]), st)
                            blk[i:] = [g] + st.body
                        out.append(a1)
                    # B: `if c: ...terminator` + REST -> if/else
                    if not st.orelse and _ends_in_terminator(st.body) and rest:
                        def b(blk=blk, i=i, st=st):
                            st.orelse = blk[i + 1:]
                            del blk[i + 1:]
                        out.append(b)
                    # B': if/else with a terminating arm -> guard + rest
                    if st.orelse and not (len(st.orelse) == 1 and isinstance(st.orelse[0], ast.If)) and i == len(blk) - 1:
                        if _ends_in_terminator(st.body):
                            def b1(blk=blk, i=i, st=st):
                                tail = st.orelse
                                st.orelse = []
                                blk[i + 1:i + 1] = tail
                            out.append(b1)
                        if _ends_in_terminator(st.orelse):
                            def b2(blk=blk, i=i, st=st):
                                body = st.body
                                st.test = _negate(st.test)
                                st.body, st.orelse = st.orelse, []
                                blk[i + 1:i + 1] = body
                            out.append(b2)
                    # G: flip a two-armed if
                    if st.orelse and not (len(st.orelse) == 1 and isinstance(st.orelse[0], ast.If)):
                        def g(st=st):
                            st.test = _negate(st.test)
                            st.body, st.orelse = st.orelse, st.body
                        out.append(g)
                    # F: nested ifs <-> and
                    if not st.orelse and len(st.body) == 1 and isinstance(st.body[0], ast.If) and not st.body[0].orelse:
                        def f(st=st):
                            inner = st.body[0]
                            st.test = ast.copy_location(ast.BoolOp(op=ast.And(), values=[st.test, inner.test]), st.test)
                            st.body = inner.body
                        out.append(f)
                    if not st.orelse and isinstance(st.test, ast.BoolOp) and isinstance(st.test.op, ast.And) and len(st.test.values) >= 2:
                        def f1(st=st):
                            vals = st.test.values
                            first = vals[0]
                            restt = vals[1] if len(vals) == 2 else ast.copy_location(ast.BoolOp(op=ast.And(), values=vals[1:]), st.test)
                            inner = ast.copy_location(ast.If(test=restt, body=st.body, orelse=[]), st)
                            st.test = first
                            st.body = [inner]
                        out.append(f1)
                    # C': if/else assigning the same name -> conditional expression
                    if len(st.body) == 1 and len(st.orelse) == 1 and isinstance(st.body[0], ast.Assign) and isinstance(st.orelse[0], ast.Assign) \
                            and len(st.body[0].targets) == 1 and len(st.orelse[0].targets) == 1 and ast.dump(st.body[0].targets[0]) == ast.dump(st.orelse[0].targets[0]):
                        def c1(blk=blk, i=i, st=st):
                            v = ast.copy_location(ast.IfExp(test=st.test, body=st.body[0].value, orelse=st.orelse[0].value), st)
                            blk[i] = ast.copy_location(ast.Assign(targets=st.body[0].targets, value=v), st)
                        out.append(c1)
                    # H: `if c: return a` / `return b`  ->  `if not c: return b` / `return a`
                    if len(st.body) == 1 and isinstance(st.body[0], ast.Return) and not st.orelse and len(rest) == 1 and isinstance(rest[0], ast.Return):
                        def h(blk=blk, i=i, st=st):
                            other = blk[i + 1]
                            st.test = _negate(st.test)
                            blk[i + 1] = st.body[0]
                            st.body = [other]
                        out.append(h)
                    # D': `if c: return a` / `return b` -> return a if c else b
                    if len(st.body) == 1 and isinstance(st.body[0], ast.Return) and st.body[0].value is not None and not st.orelse and len(rest) == 1 \
                            and isinstance(rest[0], ast.Return) and rest[0].value is not None:
                        def d1(blk=blk, i=i, st=st):
                            v = ast.copy_location(ast.IfExp(test=st.test, body=st.body[0].value, orelse=blk[i + 1].value), st)
                            blk[i:] = [ast.copy_location(ast.Return(value=v), st)]
                        out.append(d1)
                # J: `if c: x = A else: x = B`  ->  `x = B` / `if c: x = A`   (B a plain value expression: evaluating it first changes nothing)
                if isinstance(st, ast.If) and len(st.body) == 1 and len(st.orelse) == 1 and isinstance(st.body[0], ast.Assign) and isinstance(st.orelse[0], ast.Assign) \
                        and len(st.body[0].targets) == 1 and isinstance(st.body[0].targets[0], ast.Name) and len(st.orelse[0].targets) == 1 \
                        and isinstance(st.orelse[0].targets[0], ast.Name) and st.body[0].targets[0].id == st.orelse[0].targets[0].id:
                    xname = st.body[0].targets[0].id
                    reads_x = any(isinstance(m, ast.Name) and m.id == xname for m in ast.walk(st.test)) or \
                        any(isinstance(m, ast.Name) and m.id == xname for m in ast.walk(st.body[0].value)) or any(isinstance(m, ast.Name) and m.id == xname for m in ast.walk(st.orelse[0].value))
                    if not reads_x and _pure(st.orelse[0].value) and not any(isinstance(m, ast.Call) for m in ast.walk(st.orelse[0].value)):
                        def j(blk=blk, i=i, st=st):
                            dflt = st.orelse[0]
                            st.orelse = []
                            blk[i:i + 1] = [dflt, st]
                        out.append(j)
                    if not reads_x and _pure(st.body[0].value) and not any(isinstance(m, ast.Call) for m in ast.walk(st.body[0].value)):
                        def j2(blk=blk, i=i, st=st):
                            dflt = st.body[0]
                            st.test = _negate(st.test)
                            st.body, st.orelse = st.orelse, []
                            blk[i:i + 1] = [dflt, st]
                        out.append(j2)
                # J': `x = B` / `if c: x = A`  ->  if/else
                if isinstance(st, ast.Assign) and len(st.targets) == 1 and isinstance(st.targets[0], ast.Name) and i + 1 < len(blk) and isinstance(blk[i + 1], ast.If) \
                        and not blk[i + 1].orelse and len(blk[i + 1].body) == 1 and isinstance(blk[i + 1].body[0], ast.Assign) and len(blk[i + 1].body[0].targets) == 1 \
                        and isinstance(blk[i + 1].body[0].targets[0], ast.Name) and blk[i + 1].body[0].targets[0].id == st.targets[0].id and _pure(st.value) \
                        and not any(isinstance(m, ast.Call) for m in ast.walk(st.value)):
                    nxt = blk[i + 1]
                    xname = st.targets[0].id
                    if not any(isinstance(m, ast.Name) and m.id == xname for m in ast.walk(nxt.test)) and not any(isinstance(m, ast.Name) and m.id == xname for m in ast.walk(nxt.body[0].value)):
                        def j3(blk=blk, i=i, st=st, nxt=nxt):
                            nxt.orelse = [st]
                            del blk[i]
                        out.append(j3)
                # C: conditional-expression assignment -> if/else
                if isinstance(st, ast.Assign) and isinstance(st.value, ast.IfExp) and len(st.targets) == 1:
                    def c(blk=blk, i=i, st=st):
                        import copy
                        x = st.value
                        a_ = ast.copy_location(ast.Assign(targets=st.targets, value=x.body), st)
                        b_ = ast.copy_location(ast.Assign(targets=copy.deepcopy(st.targets), value=x.orelse), st)
                        blk[i] = ast.copy_location(ast.If(test=x.test, body=[a_], orelse=[b_]), st)
                    out.append(c)
                # D: return of a conditional expression -> guard return + return
                if isinstance(st, ast.Return) and isinstance(st.value, ast.IfExp):
                    def d(blk=blk, i=i, st=st):
                        x = st.value
                        g_ = ast.copy_location(ast.If(test=x.test, body=[ast.copy_location(ast.Return(value=x.body), st)], orelse=[]), st)
                        blk[i:i + 1] = [g_, ast.copy_location(ast.Return(value=x.orelse), st)]
                    out.append(d)
                # U: a loop over a literal table is its body written out once per row: `for a, b in (("x", tx), ("y", ty)): BODY` -> BODY[x, tx]; BODY[y, ty]
                if isinstance(st, ast.For) and not st.orelse and isinstance(st.iter, (ast.Tuple, ast.List)) and 1 <= len(st.iter.elts) <= 6 \
                        and not any(isinstance(y_, (ast.Break, ast.Continue, ast.Yield, ast.YieldFrom)) for b_ in st.body for y_ in ast.walk(b_)):
                    tnames = [st.target.id] if isinstance(st.target, ast.Name) else \
                        ([e_.id for e_ in st.target.elts] if isinstance(st.target, ast.Tuple) and all(isinstance(e_, ast.Name) for e_ in st.target.elts) else None)
                    rows_ok = tnames is not None and all(
                        (len(tnames) == 1 and isinstance(st.target, ast.Name) and _pure(r_)) or
                        (isinstance(r_, (ast.Tuple, ast.List)) and len(r_.elts) == len(tnames) and all(_pure(c_) for c_ in r_.elts) and not isinstance(st.target, ast.Name))
                        for r_ in st.iter.elts)
                    rebinds_ = tnames is not None and any(isinstance(y_, ast.Name) and y_.id in tnames and not isinstance(y_.ctx, ast.Load) for b_ in st.body for y_ in ast.walk(b_))
                    later_ = tnames is not None and any(isinstance(y_, ast.Name) and y_.id in tnames for z_ in blk[i + 1:] for y_ in ast.walk(z_))
                    if rows_ok and not rebinds_ and not later_:
                        def u_(blk=blk, i=i, st=st, tnames=tnames):
                            import copy as _cp
                            out_ = []
                            for r_ in st.iter.elts:
                                vals_ = [r_] if isinstance(st.target, ast.Name) else list(r_.elts)
                                bind_ = dict(zip(tnames, vals_))

                                class S_(ast.NodeTransformer):
                                    def visit_Name(self, m_):
                                        return _cp.deepcopy(bind_[m_.id]) if m_.id in bind_ and isinstance(m_.ctx, ast.Load) else m_
                                for b_ in st.body:
                                    out_.append(S_().visit(_cp.deepcopy(b_)))
                            blk[i:i + 1] = out_
                        out.append(u_)
                # L: `xs.extend([E for v in S if c])` (list or generator) -> `for v in S: if c: xs.append(E)`
                if isinstance(st, ast.Expr) and isinstance(st.value, ast.Call) and isinstance(st.value.func, ast.Attribute) and st.value.func.attr == "extend" \
                        and isinstance(st.value.func.value, ast.Name) and len(st.value.args) == 1 and not st.value.keywords \
                        and isinstance(st.value.args[0], (ast.ListComp, ast.GeneratorExp)):
                    comp_ = st.value.args[0]
                    xs_ = st.value.func.value.id
                    if not any(isinstance(m_, ast.Name) and m_.id == xs_ for m_ in ast.walk(comp_)) and not any(g_.is_async for g_ in comp_.generators):
                        def l_(blk=blk, i=i, st=st, comp_=comp_, xs_=xs_):
                            body_ = [ast.copy_location(ast.Expr(value=ast.Call(func=ast.Attribute(value=ast.Name(id=xs_, ctx=ast.Load()), attr="append", ctx=ast.Load()),
                                                                               args=[comp_.elt], keywords=[])), st)]
                            for gq in reversed(comp_.generators):
                                for cnd in reversed(gq.ifs):
                                    body_ = [ast.copy_location(ast.If(test=cnd, body=body_, orelse=[]), st)]
                                body_ = [ast.copy_location(ast.For(target=gq.target, iter=gq.iter, body=body_, orelse=[]), st)]
                            blk[i] = body_[0]
                        out.append(l_)
                # M: `f(a, [E for v in S if c])` / `x = [E for v in S if c]`  ->  `acc = []` / `for v in S: if c: acc.append(E)` / `f(a, acc)`
                comp_site = None
                if isinstance(st, ast.Expr) and isinstance(st.value, ast.Call) and _simple(st.value.func) and not st.value.keywords:
                    lcs = [a_ for a_ in st.value.args if isinstance(a_, ast.ListComp)]
                    if len(lcs) == 1 and all(_simple(a_) for a_ in st.value.args if a_ is not lcs[0]):
                        comp_site = ("arg", lcs[0])
                elif isinstance(st, ast.Assign) and isinstance(st.value, ast.ListComp) and len(st.targets) == 1 and isinstance(st.targets[0], ast.Name):
                    comp_site = ("assign", st.value)
                if comp_site is not None and len(comp_site[1].generators) == 1 and not comp_site[1].generators[0].is_async \
                        and not any(isinstance(m_, (ast.ListComp, ast.SetComp, ast.DictComp, ast.GeneratorExp, ast.Lambda)) for m_ in ast.walk(comp_site[1]) if m_ is not comp_site[1]):
                    def m_unfold(blk=blk, i=i, st=st, comp_site=comp_site):
                        kind_, lc = comp_site
                        used = {m_.id for m_ in ast.walk(fn) if isinstance(m_, ast.Name)}
                        if kind_ == "assign":
                            acc = st.targets[0].id
                        else:
                            acc = next(c_ for c_ in ("acc_", "acc__", "acc___") if c_ not in used)
                        gq = lc.generators[0]
                        body_ = [ast.copy_location(ast.Expr(value=ast.Call(func=ast.Attribute(value=ast.Name(id=acc, ctx=ast.Load()), attr="append", ctx=ast.Load()),
                                                                           args=[lc.elt], keywords=[])), st)]
                        for cnd in reversed(gq.ifs):
                            body_ = [ast.copy_location(ast.If(test=cnd, body=body_, orelse=[]), st)]
                        loop_ = ast.copy_location(ast.For(target=gq.target, iter=gq.iter, body=body_, orelse=[]), st)
                        init_ = ast.copy_location(ast.Assign(targets=[ast.Name(id=acc, ctx=ast.Store())], value=ast.List(elts=[], ctx=ast.Load())), st)
                        if kind_ == "assign":
                            blk[i:i + 1] = [init_, loop_]
                        else:
                            st.value.args = [ast.Name(id=acc, ctx=ast.Load()) if a_ is lc else a_ for a_ in st.value.args]
                            blk[i:i + 1] = [init_, loop_, st]
                    out.append(m_unfold)
                # K1: `for i, x in enumerate(S, start=K)` -> `i = K` / `for x in S: ...; i += 1`
                if isinstance(st, ast.For) and not st.orelse and isinstance(st.iter, ast.Call) and isinstance(st.iter.func, ast.Name) and st.iter.func.id == "enumerate" \
                        and isinstance(st.target, ast.Tuple) and len(st.target.elts) == 2 and isinstance(st.target.elts[0], ast.Name) and 1 <= len(st.iter.args) <= 2 \
                        and all(k_.arg == "start" for k_ in st.iter.keywords) and len(st.iter.args) + len(st.iter.keywords) <= 2:
                    iname = st.target.elts[0].id
                    own = []
                    todo_ = list(st.body)
                    while todo_:
                        y_ = todo_.pop()
                        own.append(y_)
                        if isinstance(y_, (ast.For, ast.While) + _FUNC + (ast.Lambda, ast.ClassDef)):
                            continue  # a continue in an inner loop belongs to that loop
                        todo_.extend(ast.iter_child_nodes(y_))
                    has_continue = any(isinstance(y_, ast.Continue) for y_ in own)
                    rebinds = any(isinstance(y_, ast.Name) and y_.id == iname and not isinstance(y_.ctx, ast.Load) for b_ in st.body for y_ in ast.walk(b_))
                    if not has_continue and not rebinds:
                        def k1(blk=blk, i=i, st=st, iname=iname):
                            start = st.iter.args[1] if len(st.iter.args) == 2 else (st.iter.keywords[0].value if st.iter.keywords else ast.Constant(value=0))
                            init = ast.copy_location(ast.Assign(targets=[ast.Name(id=iname, ctx=ast.Store())], value=start), st)
                            inc = ast.copy_location(ast.AugAssign(target=ast.Name(id=iname, ctx=ast.Store()), op=ast.Add(), value=ast.Constant(value=1)), st)
                            loop = ast.copy_location(ast.For(target=st.target.elts[1], iter=st.iter.args[0], body=st.body + [inc], orelse=[]), st)
                            blk[i:i + 1] = [init, loop]
                        out.append(k1)
                # K2: `for x in chain.from_iterable(G)` (possibly materialised by tuple()/list()) -> `for g in G: for x in g:`
                if isinstance(st, ast.For) and not st.orelse and not has_break(st.body):
                    src_ = st.iter
                    if isinstance(src_, ast.Call) and isinstance(src_.func, ast.Name) and src_.func.id in ("tuple", "list") and len(src_.args) == 1 and not src_.keywords:
                        src_ = src_.args[0]
                    if _is_chain_from_iterable(src_) and _pure(src_.args[0]):
                        gnames_ = {m_.id for m_ in ast.walk(src_.args[0]) if isinstance(m_, ast.Name)}
                        mutates = any(isinstance(m_, ast.Name) and m_.id in gnames_ and not isinstance(m_.ctx, ast.Load) for b_ in st.body for m_ in ast.walk(b_)) or \
                            any(isinstance(m_, ast.Call) and isinstance(m_.func, ast.Attribute) and m_.func.attr in _MUTATORS and isinstance(m_.func.value, ast.Name)
                                and m_.func.value.id in gnames_ for b_ in st.body for m_ in ast.walk(b_))
                        if not mutates:
                            def k2(blk=blk, i=i, st=st, src_=src_):
                                used = {m_.id for m_ in ast.walk(fn) if isinstance(m_, ast.Name)}
                                gname = next(c_ for c_ in ("group", "group_", "group__") if c_ not in used)
                                inner_ = ast.copy_location(ast.For(target=st.target, iter=ast.Name(id=gname, ctx=ast.Load()), body=st.body, orelse=[]), st)
                                blk[i] = ast.copy_location(ast.For(target=ast.Name(id=gname, ctx=ast.Store()), iter=src_.args[0], body=[inner_], orelse=[]), st)
                            out.append(k2)
                # E: loop over a generator expression that yields its own innermost variable -> nested loops
                if isinstance(st, ast.For) and not st.orelse and isinstance(st.iter, ast.GeneratorExp) and isinstance(st.target, ast.Name) \
                        and isinstance(st.iter.elt, ast.Name) and st.iter.elt.id == st.target.id and not has_break(st.body) \
                        and isinstance(st.iter.generators[-1].target, ast.Name) and st.iter.generators[-1].target.id == st.target.id:
                    def e(blk=blk, i=i, st=st):
                        gens = st.iter.generators
                        body = st.body
                        for gi in range(len(gens) - 1, -1, -1):
                            gq = gens[gi]
                            for cnd in reversed(gq.ifs):
                                body = [ast.copy_location(ast.If(test=cnd, body=body, orelse=[]), st)]
                            body = [ast.copy_location(ast.For(target=gq.target, iter=gq.iter, body=body, orelse=[]), st)]
                        blk[i] = body[0]
                    out.append(e)
    return out


def _restyle_towards(fn, ref_skel: List[str], max_steps: int = 12) -> int:
    import copy
    k = 0
    cur = skeleton_drift(skeleton(fn), ref_skel)
    while cur > 0 and k < max_steps:
        n = len(_restyle_candidates(fn))
        best = None
        for i in range(n):
            trial = copy.deepcopy(fn)
            cands = _restyle_candidates(trial)
            if i >= len(cands):
                break
            try:
                cands[i]()
            except Exception:
                continue
            d = skeleton_drift(skeleton(trial), ref_skel)
            if d < cur and (best is None or d < best[0]):
                best = (d, i)
        if best is None:
            break
        _restyle_candidates(fn)[best[1]]()
        ast.fix_missing_locations(fn)
        cur = best[0]
        k += 1
    return k


def _unflip_ifs(tree: ast.AST) -> int:
    """`if not c: A else: B` -> `if c: B else: A` (only for a plain two-armed if; elif chains keep their order)."""
    k = 0
    for n in ast.walk(tree):
        if isinstance(n, ast.If) and n.orelse and isinstance(n.test, ast.UnaryOp) and isinstance(n.test.op, ast.Not) \
                and not (len(n.orelse) == 1 and isinstance(n.orelse[0], ast.If)):
            n.test = n.test.operand
            n.body, n.orelse = n.orelse, n.body
            k += 1
    return k


def _strip_logging(tree: ast.AST) -> int:
    k = 0
    for n in ast.walk(tree):
        for field in ("body", "orelse", "finalbody"):
            blk = getattr(n, field, None)
            if isinstance(blk, list) and blk and isinstance(blk[0], ast.stmt):
                keep = [st for st in blk if not _is_log_stmt(st)]
                if len(keep) != len(blk):
                    k += len(blk) - len(keep)
                    if not keep and field == "body":
                        keep = [ast.copy_location(ast.Pass(), blk[0])]
                    blk[:] = keep
    return k


class Normalizer:
    def __init__(self, ref: Optional[dict] = None):
        if ref is None:
            ref = json.loads(REF_FILE.read_text()) if REF_FILE.exists() else {}
        self.ref = ref
        self.renamed: List[str] = []
        self.inlined = 0
        self.log_stmts = 0
        self.unflipped = 0
        self.annotated = 0
        self.temps = 0
        self.folded = 0
        self.pure_temps = 0
        self.restyled = 0
        self.helpers_inlined = 0
        self.constants_folded = 0
        self.positionalised = 0
        self.helper_bodies_inlined = 0
        self.param_renames: Dict[str, Dict[str, str]] = {}  # function simple name -> {current kw: reference kw}

    def module(self, stem: str, tree: ast.Module):
        self.unflipped += _unflip_ifs(tree)
        mod_entry = self.ref.get(f"{stem}:<module>")
        if mod_entry is not None:
            self.constants_folded += _fold_new_module_constants(tree, set(mod_entry["names"]))
            if "classes" in mod_entry:
                self.records_erased = getattr(self, "records_erased", 0) + _erase_new_records(tree, set(mod_entry["classes"]))
        if INLINE_HELPERS and self.ref:
            self.helpers_inlined += 0 * _generator_helpers_to_genexp(tree, stem, self.ref)
            for _ in range(3):
                n_ = _inline_new_helper_calls(tree, stem, self.ref)
                self.helpers_inlined += n_
                # helpers of helpers: once a new function's own temporaries are gone it may itself be a single expression
                m_ = 0
                for qn_, fn_ in functions(tree):
                    if f"{stem}:{qn_}" not in self.ref and "." not in qn_:
                        m_ += _split_tuple_temps(fn_, set()) + _inline_temp_returns(fn_)
                if m_:
                    _fold_tuple_subscripts(tree)
                if not n_ and not m_:
                    break
            self.helper_bodies_inlined += _inline_new_helper_statements(tree, stem, self.ref)
            self.helpers_inlined += _inline_new_helper_calls(tree, stem, self.ref)
        funcs = functions(tree)
        for qn, fn in funcs:
            self.annotated += _plain_annotated_assignments(fn)
            self.inlined += _inline_temp_returns(fn)
        for qn, fn in funcs:
            entry = self.ref.get(f"{stem}:{qn}")
            if not entry:
                continue
            self._params(stem, qn, fn, entry)
            self._locals(stem, qn, fn, entry)
            self.renamed += [f"{stem}.{qn}: {x}" for x in _merge_split_names(fn, entry)]
            if INLINE_TEMPS and "locals" in entry:
                keep = {v for v, _ in entry["locals"]} | {p.lstrip("*") for p in entry["params"]}
                self.pure_temps += _inline_walrus(fn, keep)
                self.pure_temps += _split_tuple_temps(fn, keep)
                self.folded += _fold_accumulators(fn, keep)
                self.pure_temps += _inline_pure_temps(fn, keep)
                self.temps += _inline_adjacent_temps(fn, keep)
                if RESTYLE and entry.get("skeleton") is not None:
                    r = _restyle_towards(fn, entry["skeleton"])
                    if r:
                        self.restyled += r
                        self._locals(stem, qn, fn, entry)  # names introduced by a restyling are matched to the reference's by what they are bound to
                        self.folded += _fold_accumulators(fn, keep)
                        self.pure_temps += _inline_pure_temps(fn, keep)
                        self.temps += _inline_adjacent_temps(fn, keep)
        if getattr(self, "records_erased", 0):
            _fold_tuple_subscripts(tree)
        self.log_stmts += _strip_logging(tree)

    def _params(self, stem, qn, fn, entry):
        cur, ref = _params(fn), entry["params"]
        if len(cur) != len(ref) or cur == ref:
            return
        if [c[: len(c) - len(c.lstrip("*"))] for c in cur] != [r[: len(r) - len(r.lstrip("*"))] for r in ref]:
            return
        mapping = {c.lstrip("*"): r.lstrip("*") for c, r in zip(cur, ref) if c != r}
        names = _all_names(fn)
        if any(r in names for r in mapping.values()):
            return  # not fresh (includes swaps): leave alone
        _rename_in(fn, mapping, include_params=True)
        self.param_renames.setdefault(fn.name, {}).update(mapping)
        self.renamed += [f"{stem}.{qn}: parameter {c} -> {r}" for c, r in mapping.items()]

    def _locals(self, stem, qn, fn, entry):
        if "locals" not in entry:
            return
        cur = signatures(fn)
        if not cur:
            return
        ref_l = [(v, tuple(s)) for v, s in entry["locals"]]
        by_sig_ref: Dict[Tuple[str, ...], List[str]] = {}
        for v, s in ref_l:
            by_sig_ref.setdefault(s, []).append(v)
        by_sig_cur: Dict[Tuple[str, ...], List[str]] = {}
        for v, s in cur.items():
            by_sig_cur.setdefault(s, []).append(v)
        mapping = {}
        for s, cvs in by_sig_cur.items():
            rvs = by_sig_ref.get(s)
            if not rvs or len(rvs) != len(cvs):
                continue
            if set(rvs) == set(cvs):
                continue
            # names present on both sides stay; the remaining ones are matched in binding order
            c_rest = [c for c in cvs if c not in rvs]
            r_rest = [r for r in rvs if r not in cvs]
            for c, r in zip(c_rest, r_rest):
                mapping[c] = r
        if not mapping:
            return
        names = _all_names(fn)
        mapping = {c: r for c, r in mapping.items() if r not in names}
        if len(set(mapping.values())) != len(mapping):
            return
        if mapping:
            _rename_in(fn, mapping)
            self.renamed += [f"{stem}.{qn}: {c} -> {r}" for c, r in mapping.items()]

    def positionalise(self, trees: Dict[str, ast.Module]):
        rk = self.ref.get("<calls>")
        if rk is not None:
            self.positionalised = _positionalise(trees, rk.get("keywords", {}))

    def fix_keywords(self, trees: Dict[str, ast.Module]):
        if not self.param_renames:
            return
        for tree in trees.values():
            for n in ast.walk(tree):
                if isinstance(n, ast.Call):
                    tail = n.func.attr if isinstance(n.func, ast.Attribute) else (n.func.id if isinstance(n.func, ast.Name) else None)
                    mp = self.param_renames.get(tail)
                    if mp:
                        for k in n.keywords:
                            if k.arg in mp:
                                k.arg = mp[k.arg]
