"""E0: behaviour-preserving normalisation of the parsed program, applied before any rule runs.

The rules name constructs the way the pinned tree names them ("reuse_result", "glyph_order").  A maintainer who renames a
local variable, or gives a returned expression a name first, changes nothing a user can observe, so such an edit must not
change a verdict.  Rather than teach a hundred rules a hundred aliases, the program is brought to a normal form first:

N1  alpha-renaming towards reference names.  For every function, each local variable gets a *binding signature*: the kinds
    and right-hand sides of all its binding sites with every local name blanked out (so the signature is itself invariant
    under renaming).  `nv/refnames.json` (tools/gen_refnames.py, generated from the tree the rules were confirmed on)
    holds the same signatures for the reference names.  A current local whose signature matches exactly one reference local
    (ties broken by binding order when the counts agree) is renamed to the reference name, provided the new name is fresh in
    the whole function subtree.  Any capture-free bijective renaming of locals is semantics-preserving, so the choice of
    the bijection can not make a violating program look clean; at worst a local is left as it is.
    Parameters are mapped by position when the arity is unchanged; keyword arguments at call sites whose callee name is the
    function's name are renamed along.
N2  `x = e` immediately followed by `return x` becomes `return e` (x a local that no closure, finally block or global
    declaration can observe after the return).

N3  statement-level `logging.debug(...)` / `logging.info(...)` calls whose arguments are side-effect free are dropped (they can influence neither a
    font nor the build graph). Warnings and errors are kept: R13b asks for one.
N4  a two-armed `if not c: A else: B` is written `if c: B else: A`.
N5  inside a function `x: T = e` is `x = e`.
N6  a local that the reference tree does not have, bound once by `t = e` and read once by the directly following simple
    statement, with nothing but names / constants / attribute chains evaluated before that read, is replaced by `e`
    (undoes "extract variable"; locals of the reference tree are never inlined, so the pinned tree is its own normal form).

Functions that use locals()/vars()/eval/exec are left alone.  Line numbers of the original nodes are kept, so reports
still point into /repo's files; the evidence lists how many names were mapped."""
from __future__ import annotations

import ast
import json
from pathlib import Path
from typing import Dict, Iterator, List, Optional, Set, Tuple

REF_FILE = Path(__file__).resolve().parent / "refnames.json"
INLINE_TEMPS = True

_FUNC = (ast.FunctionDef, ast.AsyncFunctionDef)


def functions(tree: ast.AST) -> List[Tuple[str, ast.AST]]:
    out = []

    def rec(node, prefix):
        for ch in ast.iter_child_nodes(node):
            if isinstance(ch, _FUNC):
                out.append((prefix + ch.name, ch))
                rec(ch, prefix + ch.name + ".")
            elif isinstance(ch, ast.ClassDef):
                rec(ch, prefix + ch.name + ".")
            elif isinstance(ch, (ast.If, ast.Try, ast.With, ast.For, ast.While)):
                rec(ch, prefix)
    rec(tree, "")
    return out


def _params(fn) -> List[str]:
    a = fn.args
    out = [x.arg for x in a.posonlyargs + a.args]
    if a.vararg:
        out.append("*" + a.vararg.arg)
    out += [x.arg for x in a.kwonlyargs]
    if a.kwarg:
        out.append("**" + a.kwarg.arg)
    return out


def _own_nodes(fn) -> Iterator[ast.AST]:
    """Nodes of fn's own scope: nested function/lambda/class bodies excluded (their decorators/defaults included)."""
    todo = list(fn.body)
    while todo:
        n = todo.pop()
        yield n
        if isinstance(n, _FUNC + (ast.Lambda, ast.ClassDef)):
            continue
        todo.extend(ast.iter_child_nodes(n))


def _scope_info(fn):
    params = {p.lstrip("*") for p in _params(fn)}
    declared = set()
    stored: List[str] = []
    banned = set()
    for n in _own_nodes(fn):
        if isinstance(n, (ast.Global, ast.Nonlocal)):
            declared.update(n.names)
        elif isinstance(n, ast.Name) and isinstance(n.ctx, (ast.Store, ast.Del)):
            if n.id not in stored:
                stored.append(n.id)
        elif isinstance(n, ast.ExceptHandler) and n.name:
            banned.add(n.name)
        elif isinstance(n, (ast.Import, ast.ImportFrom)):
            for al in n.names:
                banned.add((al.asname or al.name).split(".")[0])
        elif isinstance(n, _FUNC + (ast.ClassDef,)):
            banned.add(n.name)
        elif isinstance(n, ast.Call) and isinstance(n.func, ast.Name) and n.func.id in ("locals", "vars", "eval", "exec"):
            return None
    locs = [s for s in stored if s not in params and s not in declared and s not in banned and not s.startswith("__")]
    return params, locs


class _Blank(ast.NodeTransformer):
    def __init__(self, names: Set[str]):
        self.names = names

    def visit_Name(self, n):
        if n.id in self.names:
            return ast.copy_location(ast.Name(id="_", ctx=ast.Load()), n)
        return ast.copy_location(ast.Name(id=n.id, ctx=ast.Load()), n)


def _blank(e: Optional[ast.AST], names: Set[str]) -> str:
    if e is None:
        return ""
    import copy
    return ast.unparse(_Blank(names).visit(copy.deepcopy(e)))


def _targets(t: ast.AST, path: str = "") -> Iterator[Tuple[str, str]]:
    if isinstance(t, ast.Name):
        yield t.id, path
    elif isinstance(t, (ast.Tuple, ast.List)):
        for i, e in enumerate(t.elts):
            yield from _targets(e, f"{path}.{i}")
    elif isinstance(t, ast.Starred):
        yield from _targets(t.value, path + "*")


def signatures(fn) -> Optional[Dict[str, Tuple[str, ...]]]:
    info = _scope_info(fn)
    if info is None:
        return None
    params, locs = info
    blank = set(locs)
    sigs: Dict[str, List[str]] = {v: [] for v in locs}

    def add(name, s):
        if name in sigs:
            sigs[name].append(s)
    for n in _own_nodes(fn):
        if isinstance(n, ast.Assign):
            for t in n.targets:
                for name, path in _targets(t):
                    add(name, f"assign{path}:{_blank(n.value, blank)}")
        elif isinstance(n, ast.AnnAssign) and n.value is not None:
            for name, path in _targets(n.target):
                add(name, f"assign{path}:{_blank(n.value, blank)}")
        elif isinstance(n, ast.AugAssign):
            for name, path in _targets(n.target):
                add(name, f"aug{type(n.op).__name__}:{_blank(n.value, blank)}")
        elif isinstance(n, (ast.For, ast.AsyncFor)):
            for name, path in _targets(n.target):
                add(name, f"for{path}:{_blank(n.iter, blank)}")
        elif isinstance(n, (ast.With, ast.AsyncWith)):
            for it in n.items:
                if it.optional_vars is not None:
                    for name, path in _targets(it.optional_vars):
                        add(name, f"with{path}:{_blank(it.context_expr, blank)}")
        elif isinstance(n, ast.comprehension):
            for name, path in _targets(n.target):
                add(name, f"comp{path}:{_blank(n.iter, blank)}")
        elif isinstance(n, ast.NamedExpr):
            add(n.target.id, f"walrus:{_blank(n.value, blank)}")
    return {v: tuple(sorted(s)) for v, s in sigs.items() if s}


def skeleton(fn) -> List[str]:
    """Statement skeleton of a function (own scope, pre-order): statement kinds with the names of the functions they call.  Invariant under renaming
    of variables and rewriting of operands; changes when statements are added, removed, moved, split or merged."""
    out: List[str] = []

    def calls(e) -> str:
        names = []
        for n in ast.walk(e):
            if isinstance(n, ast.Call):
                names.append(n.func.attr if isinstance(n.func, ast.Attribute) else (n.func.id if isinstance(n.func, ast.Name) else "?"))
        return ",".join(names)

    def rec(body):
        for st in body:
            k = type(st).__name__
            if isinstance(st, _FUNC + (ast.ClassDef,)):
                out.append(f"def:{st.name}")
                continue
            if isinstance(st, (ast.Assign, ast.AnnAssign, ast.AugAssign, ast.Return, ast.Expr, ast.Raise, ast.Assert, ast.Delete)):
                out.append(f"{k}:{calls(st)}")
            elif isinstance(st, (ast.If, ast.While)):
                out.append(f"{k}:{calls(st.test)}")
                rec(st.body)
                if st.orelse:
                    out.append("else")
                    rec(st.orelse)
            elif isinstance(st, (ast.For, ast.AsyncFor)):
                out.append(f"{k}:{calls(st.iter)}")
                rec(st.body)
                if st.orelse:
                    out.append("else")
                    rec(st.orelse)
            elif isinstance(st, (ast.With, ast.AsyncWith)):
                out.append(f"{k}:{','.join(calls(i.context_expr) for i in st.items)}")
                rec(st.body)
            elif isinstance(st, ast.Try):
                out.append("Try")
                rec(st.body)
                for h in st.handlers:
                    out.append("except")
                    rec(h.body)
                if st.orelse:
                    out.append("else")
                    rec(st.orelse)
                if st.finalbody:
                    out.append("finally")
                    rec(st.finalbody)
            else:
                out.append(k)
    rec(fn.body)
    return out


def skeleton_drift(cur: List[str], ref: List[str]) -> int:
    import difflib
    sm = difflib.SequenceMatcher(a=ref, b=cur, autojunk=False)
    d = 0
    for tag, i1, i2, j1, j2 in sm.get_opcodes():
        if tag != "equal":
            d += max(i2 - i1, j2 - j1)
    return d


def text_skeleton(fn) -> List[str]:
    """Like skeleton(), with each simple statement / each compound statement's header spelled out (digest of its normalised text)."""
    import hashlib
    out: List[str] = []

    def h(x) -> str:
        return hashlib.sha1(ast.unparse(x).encode()).hexdigest()[:10]

    def rec(body):
        for st in body:
            if isinstance(st, _FUNC + (ast.ClassDef,)):
                out.append(f"def:{st.name}")
            elif isinstance(st, (ast.If, ast.While)):
                out.append(f"{type(st).__name__}:{h(st.test)}")
                rec(st.body)
                if st.orelse:
                    out.append("else")
                    rec(st.orelse)
            elif isinstance(st, (ast.For, ast.AsyncFor)):
                out.append(f"For:{h(st.target)}:{h(st.iter)}")
                rec(st.body)
                if st.orelse:
                    out.append("else")
                    rec(st.orelse)
            elif isinstance(st, (ast.With, ast.AsyncWith)):
                out.append("With:" + ",".join(h(i.context_expr) for i in st.items))
                rec(st.body)
            elif isinstance(st, ast.Try):
                out.append("Try")
                rec(st.body)
                for hd in st.handlers:
                    out.append("except:" + (h(hd.type) if hd.type is not None else ""))
                    rec(hd.body)
                if st.orelse:
                    out.append("else")
                    rec(st.orelse)
                if st.finalbody:
                    out.append("finally")
                    rec(st.finalbody)
            else:
                out.append(h(st))
    rec(fn.body)
    return out


def skeleton_deletion_only(cur: List[str], ref: List[str]) -> bool:
    """True when `cur` is `ref` with some statements removed and nothing added, moved or rewritten."""
    import difflib
    sm = difflib.SequenceMatcher(a=ref, b=cur, autojunk=False)
    return all(tag in ("equal", "delete") for tag, *_ in sm.get_opcodes())


def reference_table(src_dir: Path) -> dict:
    table = {}
    for p in sorted(src_dir.glob("*.py")):
        tree = ast.parse(p.read_text())
        for qn, fn in functions(tree):
            sg = signatures(fn)
            entry = {"params": _params(fn), "skeleton": skeleton(fn)}
            if sg is not None:
                entry["locals"] = [[v, list(s)] for v, s in sg.items()]
            table[f"{p.stem}:{qn}"] = entry
    return table


def _all_names(fn) -> Set[str]:
    out = set()
    for n in ast.walk(fn):
        if isinstance(n, ast.Name):
            out.add(n.id)
        elif isinstance(n, ast.arg):
            out.add(n.arg)
        elif isinstance(n, (ast.Global, ast.Nonlocal)):
            out.update(n.names)
        elif isinstance(n, _FUNC + (ast.ClassDef,)):
            out.add(n.name)
        elif isinstance(n, ast.ExceptHandler) and n.name:
            out.add(n.name)
        elif isinstance(n, ast.alias):
            out.add((n.asname or n.name).split(".")[0])
    return out


def _binds(fn, name: str) -> bool:
    """Does the nested scope fn (function or lambda) bind `name` itself?"""
    a = fn.args
    if any(x.arg == name for x in a.posonlyargs + a.args + a.kwonlyargs) or (a.vararg and a.vararg.arg == name) or (a.kwarg and a.kwarg.arg == name):
        return True
    if isinstance(fn, ast.Lambda):
        return False
    nonlocal_ = False
    stored = False
    for n in _own_nodes(fn):
        if isinstance(n, (ast.Nonlocal, ast.Global)) and name in n.names:
            nonlocal_ = True
        if isinstance(n, ast.Name) and n.id == name and isinstance(n.ctx, (ast.Store, ast.Del)):
            stored = True
    return stored and not nonlocal_


def _rename_in(fn, mapping: Dict[str, str], include_params: bool = False):
    def rec(node, active: Dict[str, str]):
        for ch in ast.iter_child_nodes(node):
            if isinstance(ch, _FUNC + (ast.Lambda,)):
                sub = {k: v for k, v in active.items() if not _binds(ch, k)}
                # defaults and decorators are evaluated in the enclosing scope
                for d in ch.args.defaults + [x for x in ch.args.kw_defaults if x is not None]:
                    _apply(d, active)
                    rec(d, active)
                if not isinstance(ch, ast.Lambda):
                    for d in ch.decorator_list:
                        _apply(d, active)
                        rec(d, active)
                    for st in ch.body:
                        _apply(st, sub)
                        rec(st, sub)
                else:
                    _apply(ch.body, sub)
                    rec(ch.body, sub)
                continue
            _apply(ch, active)
            rec(ch, active)

    def _apply(n, active):
        if isinstance(n, ast.Name) and n.id in active:
            n.id = active[n.id]
        elif isinstance(n, (ast.Nonlocal, ast.Global)):
            n.names = [active.get(x, x) for x in n.names]

    if include_params:
        a = fn.args
        for x in a.posonlyargs + a.args + a.kwonlyargs + ([a.vararg] if a.vararg else []) + ([a.kwarg] if a.kwarg else []):
            if x.arg in mapping:
                x.arg = mapping[x.arg]
    for st in fn.body:
        _apply(st, mapping)
        rec(st, mapping)


def _inline_temp_returns(fn) -> int:
    k = 0
    # names read later than a return can only be read by a closure or a finally block: those keep their assignment
    pinned: Set[str] = set()
    for n in _own_nodes(fn):
        if isinstance(n, _FUNC + (ast.Lambda, ast.ClassDef)):
            pinned.update(x.id for x in ast.walk(n) if isinstance(x, ast.Name))
        if isinstance(n, ast.Try):
            for st in n.finalbody:
                pinned.update(x.id for x in ast.walk(st) if isinstance(x, ast.Name))
        if isinstance(n, (ast.Global, ast.Nonlocal)):
            pinned.update(n.names)
    params = {p.lstrip("*") for p in _params(fn)}

    def do_body(body: List[ast.stmt]):
        nonlocal k
        i = 0
        while i + 1 < len(body):
            a, b = body[i], body[i + 1]
            if (isinstance(a, ast.Assign) and len(a.targets) == 1 and isinstance(a.targets[0], ast.Name) and isinstance(b, ast.Return)
                    and isinstance(b.value, ast.Name) and b.value.id == a.targets[0].id and b.value.id not in pinned and b.value.id not in params):
                b.value = a.value
                del body[i]
                k += 1
                continue
            i += 1
    for n in _own_nodes(fn):
        for field in ("body", "orelse", "finalbody"):
            blk = getattr(n, field, None)
            if isinstance(blk, list) and blk and isinstance(blk[0], ast.stmt):
                do_body(blk)
        if isinstance(n, ast.Try):
            for h in n.handlers:
                do_body(h.body)
    do_body(fn.body)
    return k


_PURE_CALLS = {"len", "str", "repr", "sorted", "list", "tuple", "set", "dict", "int", "float", "bool", "type", "id", "min", "max", "sum", "abs", "round", "hex"}
_PURE_METHODS = {"relative_to", "join", "format", "keys", "values", "items", "get", "hex", "name", "stem", "resolve", "absolute", "tostring", "decode"}


def _pure(e: ast.AST) -> bool:
    """Conservative: evaluating e can neither change program state nor the file system."""
    if isinstance(e, (ast.Constant, ast.Name)):
        return True
    if isinstance(e, ast.Attribute):
        return _pure(e.value)
    if isinstance(e, ast.Subscript):
        return _pure(e.value) and _pure(e.slice)
    if isinstance(e, ast.Slice):
        return all(x is None or _pure(x) for x in (e.lower, e.upper, e.step))
    if isinstance(e, ast.JoinedStr):
        return all(_pure(v) for v in e.values)
    if isinstance(e, ast.FormattedValue):
        return _pure(e.value) and (e.format_spec is None or _pure(e.format_spec))
    if isinstance(e, (ast.Tuple, ast.List, ast.Set)):
        return all(_pure(x) for x in e.elts)
    if isinstance(e, ast.Dict):
        return all(k is None or _pure(k) for k in e.keys) and all(_pure(v) for v in e.values)
    if isinstance(e, ast.BinOp):
        return _pure(e.left) and _pure(e.right)
    if isinstance(e, ast.UnaryOp):
        return _pure(e.operand)
    if isinstance(e, ast.BoolOp):
        return all(_pure(v) for v in e.values)
    if isinstance(e, ast.Compare):
        return _pure(e.left) and all(_pure(c) for c in e.comparators)
    if isinstance(e, ast.IfExp):
        return _pure(e.test) and _pure(e.body) and _pure(e.orelse)
    if isinstance(e, ast.Starred):
        return _pure(e.value)
    if isinstance(e, ast.Call):
        ok = (isinstance(e.func, ast.Name) and e.func.id in _PURE_CALLS) or (isinstance(e.func, ast.Attribute) and e.func.attr in _PURE_METHODS and _pure(e.func.value))
        return ok and all(_pure(a) for a in e.args) and all(_pure(k.value) for k in e.keywords)
    return False


def _is_log_stmt(st: ast.stmt) -> bool:
    if not (isinstance(st, ast.Expr) and isinstance(st.value, ast.Call)):
        return False
    c = st.value
    f = c.func
    if isinstance(f, ast.Attribute) and f.attr in ("debug", "info") \
            and isinstance(f.value, ast.Name) and f.value.id in ("logging", "logger", "log", "LOG", "_LOG", "_logger"):
        return all(_pure(a) for a in c.args) and all(_pure(k.value) for k in c.keywords)
    return False


def _plain_annotated_assignments(fn) -> int:
    """Inside a function `x: T = e` is `x = e` (annotations of locals are not evaluated into behaviour)."""
    k = 0
    for n in _own_nodes(fn):
        for field in ("body", "orelse", "finalbody"):
            blk = getattr(n, field, None)
            if isinstance(blk, list):
                for i, st in enumerate(blk):
                    if isinstance(st, ast.AnnAssign) and st.value is not None and isinstance(st.target, ast.Name):
                        blk[i] = ast.copy_location(ast.Assign(targets=[st.target], value=st.value), st)
                        k += 1
        if isinstance(n, ast.Try):
            for h in n.handlers:
                for i, st in enumerate(h.body):
                    if isinstance(st, ast.AnnAssign) and st.value is not None and isinstance(st.target, ast.Name):
                        h.body[i] = ast.copy_location(ast.Assign(targets=[st.target], value=st.value), st)
                        k += 1
    for i, st in enumerate(fn.body):
        if isinstance(st, ast.AnnAssign) and st.value is not None and isinstance(st.target, ast.Name):
            fn.body[i] = ast.copy_location(ast.Assign(targets=[st.target], value=st.value), st)
            k += 1
    return k


def _simple(e) -> bool:
    return isinstance(e, (ast.Name, ast.Constant)) or (isinstance(e, ast.Attribute) and _simple(e.value))


def _eval_order(st: ast.stmt) -> Optional[List[ast.AST]]:
    """Expressions a simple statement evaluates, in evaluation order (None: not a statement we inline into)."""
    if isinstance(st, ast.Expr):
        return [st.value]
    if isinstance(st, ast.Return) and st.value is not None:
        return [st.value]
    if isinstance(st, ast.Assign):
        return [st.value] + list(st.targets)
    if isinstance(st, ast.AugAssign):
        return [st.target, st.value]
    return None


def _inline_adjacent_temps(fn, keep: Set[str]) -> int:
    """Only for locals the reference tree does not have (`keep` = the reference names): `t = e` directly followed by a simple statement that reads `t` exactly once, `t` bound and read nowhere else, and nothing but
    names / constants / attribute chains evaluated before that read: the read is replaced by `e` (same values in the same order)."""
    k = 0
    stores: Dict[str, int] = {}
    loads: Dict[str, int] = {}
    pinned: Set[str] = set()
    for n in ast.walk(fn):
        if isinstance(n, ast.Name):
            if isinstance(n.ctx, ast.Load):
                loads[n.id] = loads.get(n.id, 0) + 1
            else:
                stores[n.id] = stores.get(n.id, 0) + 1
    for n in _own_nodes(fn):
        if isinstance(n, _FUNC + (ast.Lambda, ast.ClassDef)):
            pinned.update(x.id for x in ast.walk(n) if isinstance(x, ast.Name))
        if isinstance(n, (ast.Global, ast.Nonlocal)):
            pinned.update(n.names)
        if isinstance(n, (ast.ListComp, ast.SetComp, ast.DictComp, ast.GeneratorExp)):
            pinned.update(x.id for x in ast.walk(n) if isinstance(x, ast.Name))
    params = {p.lstrip("*") for p in _params(fn)}

    def first_use_ok(st, name) -> Optional[Tuple[ast.AST, str, object]]:
        order = _eval_order(st)
        if order is None:
            return None
        # walk in evaluation order; stop at the first non-simple node that is not an ancestor of the use
        found = []

        def visit(e, parent, field, idx) -> bool:
            """returns False when evaluation of something impure/unknown happens before the use is met"""
            if isinstance(e, ast.Name):
                if e.id == name and isinstance(e.ctx, ast.Load):
                    found.append((parent, field, idx))
                    return True
                return True
            if isinstance(e, ast.Constant):
                return True
            if isinstance(e, ast.Attribute):
                return visit(e.value, e, "value", None) and not found or bool(found)
            if isinstance(e, ast.Call):
                if not visit(e.func, e, "func", None):
                    return False
                if found:
                    return True
                for i, a in enumerate(e.args):
                    if isinstance(a, ast.Starred):
                        return False
                    if not visit(a, e, "args", i):
                        return False
                    if found:
                        return True
                    if not _simple(a):
                        return False  # a complex argument evaluated before the use
                for kw in e.keywords:
                    if not visit(kw.value, kw, "value", None):
                        return False
                    if found:
                        return True
                    if not _simple(kw.value):
                        return False
                return False  # the call itself completes before any later use
            if isinstance(e, ast.Subscript):
                if not visit(e.value, e, "value", None):
                    return False
                if found:
                    return True
                return visit(e.slice, e, "slice", None) if _simple(e.value) else False
            if isinstance(e, (ast.Tuple, ast.List)):
                for i, x in enumerate(e.elts):
                    if not visit(x, e, "elts", i):
                        return False
                    if found:
                        return True
                    if not _simple(x):
                        return False
                return True
            if isinstance(e, ast.BinOp):
                if not visit(e.left, e, "left", None):
                    return False
                if found:
                    return True
                return visit(e.right, e, "right", None) if _simple(e.left) else False
            if isinstance(e, ast.UnaryOp):
                return visit(e.operand, e, "operand", None)
            if isinstance(e, ast.Compare):
                if not visit(e.left, e, "left", None):
                    return False
                if found:
                    return True
                if not _simple(e.left):
                    return False
                return visit(e.comparators[0], e, "comparators", 0)
            return False
        for i, e in enumerate(order):
            holder = ("value" if e is getattr(st, "value", None) else None)
            ok = visit(e, st, holder, None)
            if found:
                return found[0]
            if not ok or not _simple(e):
                return None
        return None

    def do(body: List[ast.stmt]):
        nonlocal k
        i = 0
        while i + 1 < len(body):
            a, b = body[i], body[i + 1]
            if (isinstance(a, ast.Assign) and len(a.targets) == 1 and isinstance(a.targets[0], ast.Name)):
                t = a.targets[0].id
                if t not in keep and stores.get(t) == 1 and loads.get(t) == 1 and t not in pinned and t not in params and not isinstance(a.value, (ast.Lambda, ast.Yield, ast.YieldFrom, ast.Await)):
                    hit = first_use_ok(b, t)
                    if hit is not None:
                        parent, field, idx = hit
                        if field is not None:
                            if idx is None:
                                setattr(parent, field, a.value)
                            else:
                                getattr(parent, field)[idx] = a.value
                            del body[i]
                            k += 1
                            continue
            i += 1
    for n in list(_own_nodes(fn)):
        for field in ("body", "orelse", "finalbody"):
            blk = getattr(n, field, None)
            if isinstance(blk, list) and blk and isinstance(blk[0], ast.stmt):
                do(blk)
        if isinstance(n, ast.Try):
            for h in n.handlers:
                do(h.body)
    do(fn.body)
    return k


def _unflip_ifs(tree: ast.AST) -> int:
    """`if not c: A else: B` -> `if c: B else: A` (only for a plain two-armed if; elif chains keep their order)."""
    k = 0
    for n in ast.walk(tree):
        if isinstance(n, ast.If) and n.orelse and isinstance(n.test, ast.UnaryOp) and isinstance(n.test.op, ast.Not) \
                and not (len(n.orelse) == 1 and isinstance(n.orelse[0], ast.If)):
            n.test = n.test.operand
            n.body, n.orelse = n.orelse, n.body
            k += 1
    return k


def _strip_logging(tree: ast.AST) -> int:
    k = 0
    for n in ast.walk(tree):
        for field in ("body", "orelse", "finalbody"):
            blk = getattr(n, field, None)
            if isinstance(blk, list) and blk and isinstance(blk[0], ast.stmt):
                keep = [st for st in blk if not _is_log_stmt(st)]
                if len(keep) != len(blk):
                    k += len(blk) - len(keep)
                    if not keep and field == "body":
                        keep = [ast.copy_location(ast.Pass(), blk[0])]
                    blk[:] = keep
    return k


class Normalizer:
    def __init__(self, ref: Optional[dict] = None):
        if ref is None:
            ref = json.loads(REF_FILE.read_text()) if REF_FILE.exists() else {}
        self.ref = ref
        self.renamed: List[str] = []
        self.inlined = 0
        self.log_stmts = 0
        self.unflipped = 0
        self.annotated = 0
        self.temps = 0
        self.param_renames: Dict[str, Dict[str, str]] = {}  # function simple name -> {current kw: reference kw}

    def module(self, stem: str, tree: ast.Module):
        self.unflipped += _unflip_ifs(tree)
        funcs = functions(tree)
        for qn, fn in funcs:
            self.annotated += _plain_annotated_assignments(fn)
            self.inlined += _inline_temp_returns(fn)
        for qn, fn in funcs:
            entry = self.ref.get(f"{stem}:{qn}")
            if not entry:
                continue
            self._params(stem, qn, fn, entry)
            self._locals(stem, qn, fn, entry)
            if INLINE_TEMPS and "locals" in entry:
                keep = {v for v, _ in entry["locals"]} | {p.lstrip("*") for p in entry["params"]}
                self.temps += _inline_adjacent_temps(fn, keep)
        self.log_stmts += _strip_logging(tree)

    def _params(self, stem, qn, fn, entry):
        cur, ref = _params(fn), entry["params"]
        if len(cur) != len(ref) or cur == ref:
            return
        if [c[: len(c) - len(c.lstrip("*"))] for c in cur] != [r[: len(r) - len(r.lstrip("*"))] for r in ref]:
            return
        mapping = {c.lstrip("*"): r.lstrip("*") for c, r in zip(cur, ref) if c != r}
        names = _all_names(fn)
        if any(r in names for r in mapping.values()):
            return  # not fresh (includes swaps): leave alone
        _rename_in(fn, mapping, include_params=True)
        self.param_renames.setdefault(fn.name, {}).update(mapping)
        self.renamed += [f"{stem}.{qn}: parameter {c} -> {r}" for c, r in mapping.items()]

    def _locals(self, stem, qn, fn, entry):
        if "locals" not in entry:
            return
        cur = signatures(fn)
        if not cur:
            return
        ref_l = [(v, tuple(s)) for v, s in entry["locals"]]
        by_sig_ref: Dict[Tuple[str, ...], List[str]] = {}
        for v, s in ref_l:
            by_sig_ref.setdefault(s, []).append(v)
        by_sig_cur: Dict[Tuple[str, ...], List[str]] = {}
        for v, s in cur.items():
            by_sig_cur.setdefault(s, []).append(v)
        mapping = {}
        for s, cvs in by_sig_cur.items():
            rvs = by_sig_ref.get(s)
            if not rvs or len(rvs) != len(cvs):
                continue
            if set(rvs) == set(cvs):
                continue
            # names present on both sides stay; the remaining ones are matched in binding order
            c_rest = [c for c in cvs if c not in rvs]
            r_rest = [r for r in rvs if r not in cvs]
            for c, r in zip(c_rest, r_rest):
                mapping[c] = r
        if not mapping:
            return
        names = _all_names(fn)
        mapping = {c: r for c, r in mapping.items() if r not in names}
        if len(set(mapping.values())) != len(mapping):
            return
        if mapping:
            _rename_in(fn, mapping)
            self.renamed += [f"{stem}.{qn}: {c} -> {r}" for c, r in mapping.items()]

    def fix_keywords(self, trees: Dict[str, ast.Module]):
        if not self.param_renames:
            return
        for tree in trees.values():
            for n in ast.walk(tree):
                if isinstance(n, ast.Call):
                    tail = n.func.attr if isinstance(n.func, ast.Attribute) else (n.func.id if isinstance(n.func, ast.Name) else None)
                    mp = self.param_renames.get(tail)
                    if mp:
                        for k in n.keywords:
                            if k.arg in mp:
                                k.arg = mp[k.arg]
