"""E5: order (determinism) analysis.

Value kinds: 'O' ordered/other, 'U' unordered (set-like, directory listing), 'T' order-tainted (a sequence or
mapping whose order was fixed by iterating a U/T value), 'E' ordered container whose *elements* are unordered.
A finding is an order-sensitive observation of a U/T value: a `for` whose body is not commutative, an ordered
consumer (list/tuple/join/extend/enumerate/zip/next/iter/*splat reaching an external call, an attribute/subscript store,
a yield). Order-insensitive consumers (sorted, set, len, in, min/max/any/all, util.only, set algebra, set.add/update)
absorb the taint. Logging calls, assert messages and exception messages are ignored."""
from __future__ import annotations

import ast
from dataclasses import dataclass, field
from typing import Dict, List, Optional, Set, Tuple

from .cfg import CFG, cfg_of
from .model import FuncInfo, Model, callee_tail, norm, short, walk_no_nested

INSENSITIVE = {"sorted", "set", "frozenset", "len", "min", "max", "sum", "any", "all", "bool", "only", "isinstance", "Counter"}
SET_METHODS_U = {"union", "intersection", "difference", "symmetric_difference", "copy"}
ABSORBING_METHODS = {"add", "update", "discard", "remove", "intersection_update", "difference_update", "issubset", "issuperset",
                     "isdisjoint", "__contains__", "get", "setdefault", "pop", "clear"}
LISTING_TAILS = {"glob", "rglob", "iterdir", "listdir", "scandir", "walk", "as_completed", "imap_unordered"}  # completion order of a pool is as arbitrary as a directory listing
ORDER_PRESERVING = {"list", "tuple", "iter", "reversed", "enumerate", "zip", "map", "filter", "chain", "dict", "deque", "islice", "str", "repr"}


def join(a: str, b: str) -> str:
    order = {"O": 0, "E": 1, "U": 2, "V": 2.5, "T": 3}
    return a if order[a] >= order[b] else b


@dataclass
class OrderFinding:
    fi: FuncInfo
    node: ast.AST
    what: str
    source: str


class OrderAnalysis:
    def __init__(self, model: Model, modules: List[str]):
        self.model = model
        self.modules = modules
        self.ret_kind: Dict[str, str] = {}
        self.param_kind: Dict[Tuple[str, str], str] = {}
        self.findings: List[OrderFinding] = []
        self.sources: List[str] = []  # unordered values seen (for the evidence)
        self.absorbed: List[str] = []  # U/T values consumed insensitively
        self.iterations: List[str] = []

    # -- driver ------------------------------------------------------------------------------
    def run(self, rounds: int = 4):
        funcs = [fi for m in self.modules for fi in self.model.mod(m).functions.values() if not isinstance(fi.node, ast.Lambda)]
        for r in range(rounds):
            before = (dict(self.ret_kind), dict(self.param_kind))
            self.findings, self.sources, self.absorbed, self.iterations = [], [], [], []
            for fi in funcs:
                _FuncPass(self, fi).run()
            if before == (self.ret_kind, self.param_kind):
                break
        # de-duplicate
        seen = set()
        out = []
        for f in self.findings:
            k = (f.fi.fq, norm(f.node), f.what)
            if k not in seen:
                seen.add(k)
                out.append(f)
        self.findings = out
        return self


class _FuncPass:
    def __init__(self, oa: OrderAnalysis, fi: FuncInfo):
        self.oa = oa
        self.fi = fi
        self.cfg = cfg_of(fi)
        self.memo: Dict[Tuple[int, int], str] = {}
        self.tainted_names: Dict[str, str] = {}  # names made T by keyed stores / appends inside unordered loops
        self.dict_names: Set[str] = set()  # of those, the ones filled by keyed stores (mappings: d[k] is a lookup, not positional)
        self.parent: Dict[ast.AST, ast.AST] = {}
        for st in fi.body:
            for p in ast.walk(st):
                for c in ast.iter_child_nodes(p):
                    self.parent[c] = p
        self.ignored: Set[int] = set()  # nodes inside logging / raise / assert message

    # -- kinds -------------------------------------------------------------------------------
    def module_kind(self, name: str) -> str:
        v = self.fi.module.assigns.get(name)
        if v is None:
            return "O"
        if isinstance(v, (ast.Set, ast.SetComp)):
            return "U"
        if isinstance(v, ast.Call) and norm(v.func) in ("set", "frozenset"):
            return "U"
        return "O"

    def ann_kind(self, ann) -> str:
        if ann is None:
            return "O"
        t = norm(ann)
        if t.startswith(("Set[", "FrozenSet[", "MutableSet[", "AbstractSet[", "set[", "frozenset[")) or t in ("set", "frozenset", "Set", "FrozenSet"):
            return "U"
        return "O"

    def kind(self, e: ast.AST, at: int, depth: int = 0) -> str:
        key = (id(e), at)
        if key in self.memo:
            return self.memo[key]
        self.memo[key] = "O"
        k = self._kind(e, at, depth)
        self.memo[key] = k
        return k

    def _kind(self, e, at, depth) -> str:
        if depth > 12:
            return "O"
        if isinstance(e, (ast.Set, ast.SetComp)):
            return "U"
        if isinstance(e, ast.Name):
            if e.id in self.tainted_names:
                return self.tainted_names[e.id]
            # comprehension-bound variable: an element of the iterated value
            anc = self.parent.get(e)
            while anc is not None:
                if isinstance(anc, (ast.ListComp, ast.SetComp, ast.GeneratorExp, ast.DictComp)):
                    for g in anc.generators:
                        if any(isinstance(x, ast.Name) and x.id == e.id for x in ast.walk(g.target)):
                            return "U" if self.kind(g.iter, at, depth + 1) in ("E", "V") else "O"
                anc = self.parent.get(anc)
            defs = self.cfg.reaching(at, e.id)
            if not defs:
                return self.module_kind(e.id)
            k = "O"
            for d in defs:
                if d.kind == "param":
                    pk = self.oa.param_kind.get((self.fi.fq, e.id), "O")
                    ann = None
                    a = self.fi.node.args
                    for x in a.posonlyargs + a.args + a.kwonlyargs:
                        if x.arg == e.id:
                            ann = x.annotation
                    k = join(k, join(pk, self.ann_kind(ann)))
                elif d.kind == "assign" and d.value is not None:
                    k = join(k, self.kind(d.value, d.node, depth + 1))
                elif d.kind == "aug" and isinstance(d.value, ast.AugAssign):
                    aug = d.value
                    k = join(k, self.kind(aug.value, d.node, depth + 1))
                    # the previous value of the target
                    for d2 in self.cfg.reaching(d.node, e.id):
                        if d2 is not d and d2.value is not None and d2.kind == "assign":
                            k = join(k, self.kind(d2.value, d2.node, depth + 1))
                elif d.kind == "for" and d.value is not None:
                    ik = self.kind(d.value, d.node, depth + 1)
                    if ik in ("E", "V"):
                        k = join(k, "U")
                elif d.kind == "unpack" and d.value is not None:
                    pass
            return k
        if isinstance(e, ast.Call):
            fn = norm(e.func)
            tail = callee_tail(e)
            argk = [self.kind(a.value if isinstance(a, ast.Starred) else a, at, depth + 1) for a in e.args]
            if fn in ("set", "frozenset"):
                # a set of sets: its elements are unordered too
                if e.args and isinstance(e.args[0], (ast.GeneratorExp, ast.ListComp, ast.SetComp)) and self.kind(e.args[0].elt, at, depth + 1) in ("U", "V"):
                    return "V"
                return "U"
            if fn == "sorted" and e.args and isinstance(e.args[0], (ast.GeneratorExp, ast.ListComp)) \
                    and self.kind(e.args[0].elt, at, depth + 1) == "T":
                return "T"  # sorting fixes the order of the container, not the order inside its order-tainted elements
            if tail in INSENSITIVE and not isinstance(e.func, ast.Attribute) or fn in ("util.only",):
                return "O"
            if fn in ("chain.from_iterable", "itertools.chain.from_iterable"):
                return "T" if argk and argk[0] in ("E", "U", "V", "T") else "O"
            if tail in ORDER_PRESERVING and not isinstance(e.func, ast.Attribute):
                if any(k in ("U", "V", "T") for k in argk):
                    return "T"
                return "E" if any(k == "E" for k in argk) and tail in ("list", "tuple") else "O"
            if tail in LISTING_TAILS:
                return "U"
            if isinstance(e.func, ast.Attribute):
                rk = self.kind(e.func.value, at, depth + 1)
                if tail in SET_METHODS_U and rk == "U":
                    return "U"
                if tail in ("keys", "values", "items") and rk == "T":
                    return "T"
                if tail == "join":
                    return "T" if argk and argk[0] in ("U", "V", "T") else "O"
            callee = self.oa.model.resolve_call(self.fi, e, fuzzy=True)
            if callee is not None:
                return self.oa.ret_kind.get(callee.fq, self.ann_kind(getattr(callee.node, "returns", None)))
            return "O"
        if isinstance(e, ast.BinOp):
            l, r = self.kind(e.left, at, depth + 1), self.kind(e.right, at, depth + 1)
            if isinstance(e.op, (ast.BitOr, ast.BitAnd, ast.Sub, ast.BitXor)) and "U" in (l, r):
                return "U"
            if isinstance(e.op, ast.Add) and ("T" in (l, r) or "U" in (l, r)):
                return "T"
            return "O"
        if isinstance(e, (ast.ListComp, ast.GeneratorExp, ast.DictComp)):
            for g in e.generators:
                if self.kind(g.iter, at, depth + 1) in ("U", "T", "V"):
                    return "T"
            elt = e.elt if not isinstance(e, ast.DictComp) else e.value
            ek = self.kind(elt, at, depth + 1)
            if ek in ("U", "V") and not isinstance(e, ast.DictComp):
                return "E"
            if ek == "T":
                return "T"
            return "O"
        if isinstance(e, ast.IfExp):
            return join(self.kind(e.body, at, depth + 1), self.kind(e.orelse, at, depth + 1))
        if isinstance(e, ast.BoolOp):
            k = "O"
            for v in e.values:
                k = join(k, self.kind(v, at, depth + 1))
            return k
        if isinstance(e, ast.Starred):
            return self.kind(e.value, at, depth + 1)
        if isinstance(e, (ast.Tuple, ast.List)):
            k = "O"
            for x in e.elts:
                if isinstance(x, ast.Starred) and self.kind(x.value, at, depth + 1) in ("U", "V", "T"):
                    k = "T"
            return k
        if isinstance(e, ast.Subscript):
            if isinstance(e.slice, ast.Slice) and self.kind(e.value, at, depth + 1) == "T":
                return "T"
            return "O"
        if isinstance(e, ast.NamedExpr):
            return self.kind(e.value, at, depth + 1)
        return "O"

    # -- traversal ---------------------------------------------------------------------------
    def mark_ignored(self):
        for st in self.fi.body:
            for n in walk_no_nested(st):
                if isinstance(n, ast.Raise) and n.exc is not None:
                    for x in ast.walk(n.exc):
                        self.ignored.add(id(x))
                if isinstance(n, ast.Assert) and n.msg is not None:
                    for x in ast.walk(n.msg):
                        self.ignored.add(id(x))
                if isinstance(n, ast.Call) and norm(n.func).startswith(("logging.", "logger.", "warnings.")):
                    for x in ast.walk(n):
                        self.ignored.add(id(x))

    def body_commutative(self, body: List[ast.stmt], loopvars: Set[str]) -> Tuple[bool, str, List[str]]:
        """Is executing this loop body once per element independent of the element order?
        Returns (commutative, reason when not, names that become order-tainted)."""
        tainted: List[str] = []
        for st in body:
            for n in [st]:
                if isinstance(n, (ast.Continue, ast.Pass, ast.Raise)):
                    continue
                if isinstance(n, ast.Delete):
                    if all(isinstance(t, ast.Subscript) for t in n.targets):
                        continue
                    return False, short(n), tainted
                if isinstance(n, ast.Expr) and isinstance(n.value, ast.Call):
                    c = n.value
                    t = callee_tail(c)
                    if isinstance(c.func, ast.Attribute) and t in ("add", "update", "discard"):
                        continue
                    if norm(c.func).startswith("logging."):
                        continue
                    if isinstance(c.func, ast.Attribute) and t in ("append", "extend", "insert") and isinstance(c.func.value, ast.Name):
                        tainted.append(c.func.value.id)
                        continue
                    return False, short(n), tainted
                if isinstance(n, ast.Assign):
                    ok = True
                    for tg in n.targets:
                        if isinstance(tg, ast.Subscript) and isinstance(tg.value, ast.Name):
                            tainted.append(tg.value.id)  # keyed store: mapping keeps insertion order
                            self.dict_names.add(tg.value.id)
                        elif isinstance(tg, ast.Name):
                            # a loop-local temporary is fine if it is computed from pure expressions
                            if any(isinstance(x, ast.Call) and self.oa.model.resolve_call(self.fi, x) is None
                                   and callee_tail(x) not in INSENSITIVE | ORDER_PRESERVING | {"get", "find", "int", "float", "str", "Path", "getattr"}
                                   for x in ast.walk(n.value)):
                                ok = False
                        else:
                            ok = False
                    if ok:
                        continue
                    return False, short(n), tainted
                if isinstance(n, ast.If):
                    for branch in (n.body, n.orelse):
                        c, why, t2 = self.body_commutative(branch, loopvars)
                        tainted += t2
                        if not c:
                            return False, why, tainted
                    continue
                if isinstance(n, ast.Assert):
                    continue
                return False, short(n), tainted
        return True, "", tainted

    def consumer_of(self, node: ast.AST) -> Optional[ast.AST]:
        return self.parent.get(node)

    def observe(self, node: ast.AST, k: str, at: int):
        """`node` has kind U/T/E; decide what its consumer does with it."""
        k_orig = k
        if k == "V":
            k = "U"
        if id(node) in self.ignored:
            return
        p = self.consumer_of(node)
        desc = f"{short(node, 70)} [{k}]"
        if p is None:
            return
        if isinstance(p, ast.Call):
            fn = norm(p.func)
            tail = callee_tail(p)
            if node is p.func:
                return
            if isinstance(p.func, ast.Attribute) and p.func.value is node:
                return  # method call on the value: handled by kind() / absorbing methods
            if (tail in INSENSITIVE and not isinstance(p.func, ast.Attribute)) or fn == "util.only":
                self.oa.absorbed.append(f"{self.fi.fq}: {fn}({short(node, 50)})")
                return
            if isinstance(p.func, ast.Attribute) and tail in ABSORBING_METHODS:
                self.oa.absorbed.append(f"{self.fi.fq}: .{tail}({short(node, 50)})")
                return
            if tail in ORDER_PRESERVING or fn in ("chain.from_iterable", "itertools.chain.from_iterable") or tail == "join":
                # the call's own value carries the taint; it is observed at *its* consumer
                if tail == "join" and k in ("U", "V", "T"):
                    self.observe(p, "T", at)
                return
            callee = self.oa.model.resolve_call(self.fi, p)
            if callee is not None and not isinstance(callee.node, ast.Lambda):
                # bind to the callee's parameter
                params = [x for x in callee.params if not (callee.cls and x in ("self", "cls"))]
                idx = None
                for i, a in enumerate(p.args):
                    if a is node or (isinstance(a, ast.Starred) and a.value is node):
                        idx = i
                name = None
                if idx is not None and idx < len(params):
                    name = params[idx]
                for kw in p.keywords:
                    if kw.value is node:
                        name = kw.arg
                if name:
                    key = (callee.fq, name)
                    self.oa.param_kind[key] = join(self.oa.param_kind.get(key, "O"), k)
                return
            if k == "U" and tail not in ("extend", "build", "writerow", "writerows", "print", "write", "dumps", "dump", "rule", "newGlyph"):
                # a set handed to an external function that is not a known ordered consumer: membership use assumed
                return
            if k == "E":
                return
            self.oa.findings.append(OrderFinding(self.fi, p, f"order-dependent value passed to {fn}(...)", desc))
            return
        if isinstance(p, (ast.GeneratorExp, ast.ListComp, ast.SetComp)) and getattr(p, "elt", None) is node:
            if isinstance(p, ast.SetComp):
                self.oa.absorbed.append(f"{self.fi.fq}: set comprehension of {short(node, 40)}")
                return
            self.observe(p, "T", at)  # a sequence of order-dependent values is observed where the sequence is consumed
            return
        if isinstance(p, ast.Attribute) and p.value is node:
            return  # attribute / method of the value: a method call's own kind is computed in kind() and observed at its consumer
        if isinstance(p, ast.Starred):
            self.observe(p, "T", at)
            return
        if isinstance(p, (ast.Tuple, ast.List)) and any(isinstance(x, ast.Starred) and x.value is node for x in p.elts):
            self.observe(p, "T", at)
            return
        if isinstance(p, ast.keyword):
            call = self.parent.get(p)
            if isinstance(call, ast.Call):
                # re-dispatch as if positional
                fn = norm(call.func)
                tail = callee_tail(call)
                if (tail in INSENSITIVE and not isinstance(call.func, ast.Attribute)):
                    return
                callee = self.oa.model.resolve_call(self.fi, call)
                if callee is not None and p.arg:
                    key = (callee.fq, p.arg)
                    self.oa.param_kind[key] = join(self.oa.param_kind.get(key, "O"), k)
                    return
                if k in ("T",) or (k == "U" and tail in ("build", "extend")):
                    self.oa.findings.append(OrderFinding(self.fi, call, f"order-dependent value passed as {p.arg}= to {fn}(...)", desc))
            return
        if isinstance(p, ast.comprehension):
            if node is p.iter:
                comp = self.parent.get(p)
                if isinstance(comp, ast.SetComp):
                    self.oa.absorbed.append(f"{self.fi.fq}: set comprehension over {short(node, 40)}")
                    return
                self.oa.iterations.append(f"{self.fi.fq}: comprehension over {short(node, 50)}")
                if comp is not None:
                    self.observe(comp, "T", at)
            return
        if isinstance(p, (ast.Assign, ast.AnnAssign, ast.AugAssign)):
            targets = p.targets if isinstance(p, ast.Assign) else [p.target]
            for tg in targets:
                if isinstance(tg, (ast.Attribute, ast.Subscript)) and k == "T":
                    self.oa.findings.append(OrderFinding(self.fi, p, f"order-dependent value stored into {short(tg, 40)}", desc))
            return
        if isinstance(p, ast.Return):
            self.oa.ret_kind[self.fi.fq] = join(self.oa.ret_kind.get(self.fi.fq, "O"), k_orig)
            return
        if isinstance(p, (ast.Yield, ast.YieldFrom)):
            if k in ("U", "V", "T"):
                self.oa.ret_kind[self.fi.fq] = join(self.oa.ret_kind.get(self.fi.fq, "O"), "T")
            return
        if isinstance(p, ast.BinOp):
            if isinstance(p.op, (ast.BitOr, ast.BitAnd, ast.Sub, ast.BitXor)):
                self.observe(p, "U", at)
            elif isinstance(p.op, ast.Add):
                self.observe(p, "T", at)
            return
        if isinstance(p, (ast.Compare, ast.BoolOp, ast.UnaryOp, ast.If, ast.While, ast.IfExp, ast.Assert)):
            if isinstance(p, ast.IfExp) and node is not p.test:
                self.observe(p, k, at)
            return
        if isinstance(p, ast.FormattedValue):
            self.oa.findings.append(OrderFinding(self.fi, p, "order-dependent value formatted into a string", desc))
            return
        if isinstance(p, (ast.Subscript,)):
            if node is p.value and isinstance(p.slice, ast.Slice) and k == "T":
                self.observe(p, "T", at)
            elif node is p.value and k == "T" and not isinstance(p.slice, ast.Slice):
                if isinstance(node, ast.Name) and node.id in self.dict_names:
                    return
                self.oa.findings.append(OrderFinding(self.fi, p, "positional element taken from an order-dependent sequence", desc))
            return
        if isinstance(p, ast.Expr):
            return
        if isinstance(p, ast.For) and node is p.iter:
            return  # handled in run()
        # anything else: conservative
        if k == "T":
            self.oa.findings.append(OrderFinding(self.fi, p, f"order-dependent value used in {type(p).__name__}", desc))

    def run(self):
        self.mark_ignored()
        fi = self.fi
        # returns of set-typed expressions
        for st in fi.body:
            for n in walk_no_nested(st):
                if isinstance(n, ast.For):
                    at = self.cfg.node_for(n)
                    k = self.kind(n.iter, at)
                    if k in ("U", "V", "T"):
                        lv = {x.id for x in ast.walk(n.target) if isinstance(x, ast.Name)}
                        comm, why, tainted = self.body_commutative(n.body, lv)
                        self.oa.iterations.append(f"{fi.fq}: for {short(n.target, 20)} in {short(n.iter, 50)} [{k}] "
                                                  f"{'commutative body' if comm else 'ORDER-SENSITIVE body: ' + why}")
                        for t in tainted:
                            self.tainted_names[t] = "T"
                        if not comm:
                            self.oa.findings.append(OrderFinding(fi, n, f"iteration over an unordered value with an order-sensitive body ({why})",
                                                                 f"for {short(n.target, 20)} in {short(n.iter, 60)} [{k}]"))
        self.memo.clear()
        for st in fi.body:
            for n in walk_no_nested(st):
                if isinstance(n, ast.expr) and not isinstance(n, (ast.Constant,)):
                    try:
                        at = self.cfg.node_for(n)
                    except Exception:
                        continue
                    k = self.kind(n, at)
                    if k in ("U", "V", "T", "E"):
                        if k == "U" and isinstance(n, (ast.Set, ast.SetComp, ast.Call)):
                            self.oa.sources.append(f"{fi.fq}: {short(n, 70)}")
                        self.observe(n, k, at)
