"""Specification oracle: fontTools' otData.py / otTables.py parsed as *data* with ast.

These are tables of the OpenType specification shipped with fontTools, not code under test.
Nothing is imported: the files are located on sys.path and read as text.
"""
from __future__ import annotations

import ast
import importlib.util
from dataclasses import dataclass
from functools import lru_cache
from pathlib import Path
from typing import Dict, List, Optional, Tuple

from .model import AnalysisError


@dataclass(frozen=True)
class Field:
    type: str
    name: str
    repeat: Optional[str]
    aux: Optional[object]
    description: str


@lru_cache(maxsize=1)
def _tables_dir() -> Path:
    spec = importlib.util.find_spec("fontTools")
    if spec is None or not spec.submodule_search_locations:
        raise AnalysisError("fontTools package not found on sys.path (needed as specification oracle)")
    d = Path(list(spec.submodule_search_locations)[0]) / "ttLib" / "tables"
    if not (d / "otData.py").exists():
        raise AnalysisError(f"{d}/otData.py not found")
    return d


def _const(n):
    if n is None:
        return None
    if isinstance(n, ast.Constant):
        return n.value
    if isinstance(n, ast.UnaryOp) and isinstance(n.op, ast.USub) and isinstance(n.operand, ast.Constant):
        return -n.operand.value
    return ast.unparse(n)


@lru_cache(maxsize=1)
def ot_records() -> Dict[str, List[Field]]:
    """record name -> fields, e.g. 'PairPosFormat1', 'PaintFormat14', 'AttachList'."""
    tree = ast.parse((_tables_dir() / "otData.py").read_text())
    lst = None
    for st in tree.body:
        if isinstance(st, ast.Assign) and any(isinstance(t, ast.Name) and t.id == "otData" for t in st.targets):
            lst = st.value
    if not isinstance(lst, ast.List):
        raise AnalysisError("otData list not found in fontTools otData.py")
    out: Dict[str, List[Field]] = {}
    for el in lst.elts:
        if not (isinstance(el, ast.Tuple) and len(el.elts) == 2):
            raise AnalysisError("unexpected otData entry shape")
        name = _const(el.elts[0])
        fields = []
        for f in el.elts[1].elts:
            if isinstance(f, ast.Call):
                pos = [_const(a) for a in f.args]
                kw = {k.arg: _const(k.value) for k in f.keywords}
                typ = pos[0] if len(pos) > 0 else kw.get("type")
                nm = pos[1] if len(pos) > 1 else kw.get("name")
                rep = pos[2] if len(pos) > 2 else kw.get("repeat")
                aux = pos[3] if len(pos) > 3 else kw.get("aux")
                desc = pos[4] if len(pos) > 4 else kw.get("description", "")
            elif isinstance(f, ast.Tuple):
                pos = [_const(a) for a in f.elts]
                typ, nm, rep, aux, desc = (pos + [None] * 5)[:5]
            else:
                raise AnalysisError("unexpected otData field shape")
            fields.append(Field(typ, nm, rep, aux, desc or ""))
        out[name] = fields
    if len(out) < 200:
        raise AnalysisError(f"only {len(out)} otData records parsed")
    return out


@lru_cache(maxsize=1)
def paint_formats() -> Dict[str, int]:
    tree = ast.parse((_tables_dir() / "otTables.py").read_text())
    for st in tree.body:
        if isinstance(st, ast.ClassDef) and st.name == "PaintFormat":
            out = {}
            for s in st.body:
                if isinstance(s, ast.Assign) and isinstance(s.targets[0], ast.Name) and isinstance(s.value, ast.Constant):
                    out[s.targets[0].id] = s.value.value
            if len(out) < 30:
                raise AnalysisError("PaintFormat enum too small")
            return out
    raise AnalysisError("PaintFormat enum not found in fontTools otTables.py")


@lru_cache(maxsize=1)
def ot_classes_with_pre_post() -> Dict[str, Tuple[bool, bool]]:
    """class name -> (defines postRead, defines preWrite) from otTables.py."""
    tree = ast.parse((_tables_dir() / "otTables.py").read_text())
    out = {}
    for st in tree.body:
        if isinstance(st, ast.ClassDef):
            names = {s.name for s in st.body if isinstance(s, ast.FunctionDef)}
            out[st.name] = ("postRead" in names, "preWrite" in names)
    return out


def split_record_name(rec: str) -> Tuple[str, Optional[int]]:
    """'PairPosFormat1' -> ('PairPos', 1); 'AttachList' -> ('AttachList', None)."""
    import re

    m = re.match(r"^(.*)Format(\d+)$", rec)
    if m:
        return m.group(1), int(m.group(2))
    return rec, None


def record(type_name: str, fmt: Optional[int]) -> Optional[List[Field]]:
    recs = ot_records()
    if fmt is not None:
        return recs.get(f"{type_name}Format{fmt}")
    return recs.get(type_name)


def fields_by_name(type_name: str, fmt: Optional[int]) -> Dict[str, Field]:
    r = record(type_name, fmt)
    if r is None:
        return {}
    return {f.name: f for f in r}
