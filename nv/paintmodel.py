"""Static extraction of the Paint dataclasses of paint.py (fields, format, to_ufo_paint keys, children, gettransform)."""
from __future__ import annotations

import ast
from dataclasses import dataclass, field
from typing import Dict, List, Optional, Set, Tuple

from .cfg import cfg_of
from .model import AnalysisError, ClassInfo, FuncInfo, Model, callee_tail, calls_in, norm, short, walk_body


@dataclass
class PaintClass:
    name: str
    ci: ClassInfo
    format_name: Optional[str]  # X in int(ot.PaintFormat.X)
    fields: List[Tuple[str, str]]  # (name, annotation text)
    ufo_keys: Dict[str, ast.AST] = field(default_factory=dict)
    ufo_fn: Optional[FuncInfo] = None
    children_fields: Optional[Set[str]] = None  # fields yielded by children(); None = inherits ()
    gettransform_reads: Optional[Set[str]] = None  # None = inherits identity
    gettransform_fn: Optional[FuncInfo] = None
    colors_reads: Optional[Set[str]] = None

    def paint_fields(self) -> List[str]:
        return [n for n, a in self.fields if a == "Paint" or "Paint" in a.replace("PaintFormat", "")]

    def geometry_fields(self) -> List[str]:
        return [n for n, a in self.fields if n not in self.paint_fields()]


def self_reads(fi: FuncInfo, model: Model, depth: int = 1) -> Set[str]:
    """self.<attr> reads in a method, following `self` passed to a module-level helper one level."""
    out = set()
    selfname = fi.params[0] if fi.params else "self"
    for n in walk_body(fi, nested=True):
        if isinstance(n, ast.Attribute) and isinstance(n.value, ast.Name) and n.value.id == selfname:
            out.add(n.attr)
        if isinstance(n, ast.Call) and norm(n.func) == "getattr" and n.args and norm(n.args[0]) == selfname:
            if len(n.args) > 1 and isinstance(n.args[1], ast.Constant):
                out.add(n.args[1].value)
            else:
                out.add("*dynamic*")
    if depth > 0:
        for c in calls_in(fi, nested=True):
            callee = model.resolve_call(fi, c)
            if callee is None or callee.cls:
                continue
            for i, a in enumerate(c.args):
                if isinstance(a, ast.Name) and a.id == selfname and i < len(callee.params):
                    p = callee.params[i]
                    for n in walk_body(callee, nested=True):
                        if isinstance(n, ast.Attribute) and isinstance(n.value, ast.Name) and n.value.id == p:
                            out.add(n.attr)
    return out


def _flatten_spreads(d: ast.Dict, fi: FuncInfo) -> ast.Dict:
    """`{..., **helper(args)}` where helper is a single-expression function the reference tree does not have and returns a dict literal:
    the helper's entries take the place of the spread (later keys override earlier ones, as in the running program)."""
    if all(k is not None for k in d.keys):
        return d
    from .dataflow import inline_new_helpers
    keys, vals = [], []
    for k, v in zip(d.keys, d.values):
        if k is None:
            w = inline_new_helpers(v, fi) if isinstance(v, ast.Call) else v
            if isinstance(w, ast.Dict) and all(kk is not None for kk in w.keys):
                ks, vs = list(w.keys), list(w.values)
            else:
                keys.append(k)
                vals.append(v)
                continue
        else:
            ks, vs = [k], [v]
        for kk, vv in zip(ks, vs):
            have = [i for i, x in enumerate(keys) if isinstance(x, ast.Constant) and isinstance(kk, ast.Constant) and x.value == kk.value]
            if have:
                vals[have[0]] = vv
            else:
                keys.append(kk)
                vals.append(vv)
    return ast.copy_location(ast.Dict(keys=keys, values=vals), d)


def returned_dict(fi: FuncInfo) -> Optional[ast.Dict]:
    d = _returned_dict(fi)
    return _flatten_spreads(d, fi) if d is not None else None


def _returned_dict(fi: FuncInfo) -> Optional[ast.Dict]:
    cfg = cfg_of(fi)
    for st in walk_body(fi):
        if isinstance(st, ast.Return) and st.value is not None:
            v = st.value
            if isinstance(v, ast.Dict):
                return v
            if isinstance(v, ast.Name):
                defs = cfg.reaching(cfg.node_for(st), v.id)
                ds = [d.value for d in defs if isinstance(d.value, ast.Dict)]
                if len(ds) == 1 and len(defs) == 1:
                    # the literal, plus unconditional `name["k"] = value` stores made before the return (a dict built key by key)
                    keys, vals = list(ds[0].keys), list(ds[0].values)
                    stores = [x for x in fi.body if isinstance(x, ast.Assign) and len(x.targets) == 1 and isinstance(x.targets[0], ast.Subscript)
                              and isinstance(x.targets[0].value, ast.Name) and x.targets[0].value.id == v.id and isinstance(x.targets[0].slice, ast.Constant)]
                    if not stores:
                        return ds[0]
                    for x in stores:
                        k = x.targets[0].slice.value
                        have = [i for i, kk in enumerate(keys) if isinstance(kk, ast.Constant) and kk.value == k]
                        if have:
                            vals[have[0]] = x.value
                        else:
                            keys.append(x.targets[0].slice)
                            vals.append(x.value)
                    return ast.copy_location(ast.Dict(keys=keys, values=vals), ds[0])
                if len(defs) == 1 and isinstance(defs[0].value, ast.Call) and norm(defs[0].value.func) == "dict" and not defs[0].value.args:
                    keys = [ast.Constant(value=k.arg) for k in defs[0].value.keywords]
                    vals = [k.value for k in defs[0].value.keywords]
                    for x in fi.body:
                        if isinstance(x, ast.Assign) and len(x.targets) == 1 and isinstance(x.targets[0], ast.Subscript) and isinstance(x.targets[0].value, ast.Name) \
                                and x.targets[0].value.id == v.id and isinstance(x.targets[0].slice, ast.Constant):
                            keys.append(x.targets[0].slice)
                            vals.append(x.value)
                    return ast.copy_location(ast.Dict(keys=keys, values=vals), defs[0].value)
    return None


def color_line(model: Model):
    """_ufoColorLine read by role: -> (returned dict {key: expr}, stop variable, {ColorStop record key: expr text}) ; the last two are None
    when ColorStop is not a list comprehension of dict records over `<gradient>.stops`."""
    fi = model.func("paint", "_ufoColorLine")
    d = returned_dict(fi)
    if d is None or any(not isinstance(k, ast.Constant) for k in d.keys):
        return fi, None, None, None
    keys = {k.value: v for k, v in zip(d.keys, d.values)}
    stop = keys.get("ColorStop")
    if isinstance(stop, ast.Name):
        cfg = cfg_of(fi)
        rets = [st for st in walk_body(fi) if isinstance(st, ast.Return)]
        defs = cfg.reaching(cfg.node_for(rets[-1]), stop.id) if rets else []
        if len(defs) == 1 and defs[0].value is not None:
            stop = defs[0].value
    if not (isinstance(stop, ast.ListComp) and isinstance(stop.elt, ast.Dict) and len(stop.generators) == 1 and not stop.generators[0].ifs
            and norm(stop.generators[0].iter).endswith(".stops") and isinstance(stop.generators[0].target, ast.Name)):
        return fi, keys, None, None
    rec = _flatten_spreads(stop.elt, fi)
    if any(not isinstance(k, ast.Constant) for k in rec.keys):
        return fi, keys, None, None
    return fi, keys, stop.generators[0].target.id, {k.value: norm(v) for k, v in zip(rec.keys, rec.values)}


def extract(model: Model) -> Dict[str, PaintClass]:
    mod = model.mod("paint")
    out: Dict[str, PaintClass] = {}
    for name, ci in mod.classes.items():
        if not name.startswith("Paint") or name in ("PaintTraverseContext",) or name == "Paint":
            continue
        if not ci.is_dataclass():
            continue
        fmt = None
        fv = ci.classvars.get("format")
        if fv is not None:
            s = norm(fv)
            if "PaintFormat." in s:
                fmt = s.split("PaintFormat.")[1].rstrip(")").strip()
        pc = PaintClass(name, ci, fmt, [(n, norm(a)) for n, a, d in ci.fields])
        m = ci.methods.get("to_ufo_paint")
        if m is not None:
            pc.ufo_fn = m
            d = returned_dict(m)
            if d is None:
                raise AnalysisError(f"{name}.to_ufo_paint does not return a dict literal")
            for k, v in zip(d.keys, d.values):
                if not isinstance(k, ast.Constant):
                    raise AnalysisError(f"{name}.to_ufo_paint has a non-constant key {short(k)}")
                pc.ufo_keys[k.value] = v
        ch = ci.methods.get("children")
        if ch is not None:
            pc.children_fields = self_reads(ch, model, 0)
        gt = ci.methods.get("gettransform")
        if gt is not None:
            pc.gettransform_fn = gt
            pc.gettransform_reads = self_reads(gt, model, 0)
        co = ci.methods.get("colors")
        if co is not None:
            pc.colors_reads = self_reads(co, model, 0)
        out[name] = pc
    if len(out) < 10:
        raise AnalysisError(f"only {len(out)} Paint dataclasses found in paint.py")
    return out
