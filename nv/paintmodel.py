"""Static extraction of the Paint dataclasses of paint.py (fields, format, to_ufo_paint keys, children, gettransform)."""
from __future__ import annotations

import ast
from dataclasses import dataclass, field
from typing import Dict, List, Optional, Set, Tuple

from .cfg import cfg_of
from .model import AnalysisError, ClassInfo, FuncInfo, Model, callee_tail, calls_in, norm, short, walk_body


@dataclass
class PaintClass:
    name: str
    ci: ClassInfo
    format_name: Optional[str]  # X in int(ot.PaintFormat.X)
    fields: List[Tuple[str, str]]  # (name, annotation text)
    ufo_keys: Dict[str, ast.AST] = field(default_factory=dict)
    ufo_fn: Optional[FuncInfo] = None
    children_fields: Optional[Set[str]] = None  # fields yielded by children(); None = inherits ()
    gettransform_reads: Optional[Set[str]] = None  # None = inherits identity
    gettransform_fn: Optional[FuncInfo] = None
    colors_reads: Optional[Set[str]] = None

    def paint_fields(self) -> List[str]:
        return [n for n, a in self.fields if a == "Paint" or "Paint" in a.replace("PaintFormat", "")]

    def geometry_fields(self) -> List[str]:
        return [n for n, a in self.fields if n not in self.paint_fields()]


def self_reads(fi: FuncInfo, model: Model, depth: int = 1) -> Set[str]:
    """self.<attr> reads in a method, following `self` passed to a module-level helper one level."""
    out = set()
    selfname = fi.params[0] if fi.params else "self"
    for n in walk_body(fi, nested=True):
        if isinstance(n, ast.Attribute) and isinstance(n.value, ast.Name) and n.value.id == selfname:
            out.add(n.attr)
        if isinstance(n, ast.Call) and norm(n.func) == "getattr" and n.args and norm(n.args[0]) == selfname:
            if len(n.args) > 1 and isinstance(n.args[1], ast.Constant):
                out.add(n.args[1].value)
            else:
                out.add("*dynamic*")
    if depth > 0:
        for c in calls_in(fi, nested=True):
            callee = model.resolve_call(fi, c)
            if callee is None or callee.cls:
                continue
            for i, a in enumerate(c.args):
                if isinstance(a, ast.Name) and a.id == selfname and i < len(callee.params):
                    p = callee.params[i]
                    for n in walk_body(callee, nested=True):
                        if isinstance(n, ast.Attribute) and isinstance(n.value, ast.Name) and n.value.id == p:
                            out.add(n.attr)
    return out


def returned_dict(fi: FuncInfo) -> Optional[ast.Dict]:
    cfg = cfg_of(fi)
    for st in walk_body(fi):
        if isinstance(st, ast.Return) and st.value is not None:
            v = st.value
            if isinstance(v, ast.Dict):
                return v
            if isinstance(v, ast.Name):
                defs = cfg.reaching(cfg.node_for(st), v.id)
                ds = [d.value for d in defs if isinstance(d.value, ast.Dict)]
                if len(ds) == 1 and len(defs) == 1:
                    # the literal, plus unconditional `name["k"] = value` stores made before the return (a dict built key by key)
                    keys, vals = list(ds[0].keys), list(ds[0].values)
                    stores = [x for x in fi.body if isinstance(x, ast.Assign) and len(x.targets) == 1 and isinstance(x.targets[0], ast.Subscript)
                              and isinstance(x.targets[0].value, ast.Name) and x.targets[0].value.id == v.id and isinstance(x.targets[0].slice, ast.Constant)]
                    if not stores:
                        return ds[0]
                    for x in stores:
                        k = x.targets[0].slice.value
                        have = [i for i, kk in enumerate(keys) if isinstance(kk, ast.Constant) and kk.value == k]
                        if have:
                            vals[have[0]] = x.value
                        else:
                            keys.append(x.targets[0].slice)
                            vals.append(x.value)
                    return ast.copy_location(ast.Dict(keys=keys, values=vals), ds[0])
                if len(defs) == 1 and isinstance(defs[0].value, ast.Call) and norm(defs[0].value.func) == "dict" and not defs[0].value.args:
                    keys = [ast.Constant(value=k.arg) for k in defs[0].value.keywords]
                    vals = [k.value for k in defs[0].value.keywords]
                    for x in fi.body:
                        if isinstance(x, ast.Assign) and len(x.targets) == 1 and isinstance(x.targets[0], ast.Subscript) and isinstance(x.targets[0].value, ast.Name) \
                                and x.targets[0].value.id == v.id and isinstance(x.targets[0].slice, ast.Constant):
                            keys.append(x.targets[0].slice)
                            vals.append(x.value)
                    return ast.copy_location(ast.Dict(keys=keys, values=vals), defs[0].value)
    return None


def extract(model: Model) -> Dict[str, PaintClass]:
    mod = model.mod("paint")
    out: Dict[str, PaintClass] = {}
    for name, ci in mod.classes.items():
        if not name.startswith("Paint") or name in ("PaintTraverseContext",) or name == "Paint":
            continue
        if not ci.is_dataclass():
            continue
        fmt = None
        fv = ci.classvars.get("format")
        if fv is not None:
            s = norm(fv)
            if "PaintFormat." in s:
                fmt = s.split("PaintFormat.")[1].rstrip(")").strip()
        pc = PaintClass(name, ci, fmt, [(n, norm(a)) for n, a, d in ci.fields])
        m = ci.methods.get("to_ufo_paint")
        if m is not None:
            pc.ufo_fn = m
            d = returned_dict(m)
            if d is None:
                raise AnalysisError(f"{name}.to_ufo_paint does not return a dict literal")
            for k, v in zip(d.keys, d.values):
                if not isinstance(k, ast.Constant):
                    raise AnalysisError(f"{name}.to_ufo_paint has a non-constant key {short(k)}")
                pc.ufo_keys[k.value] = v
        ch = ci.methods.get("children")
        if ch is not None:
            pc.children_fields = self_reads(ch, model, 0)
        gt = ci.methods.get("gettransform")
        if gt is not None:
            pc.gettransform_fn = gt
            pc.gettransform_reads = self_reads(gt, model, 0)
        co = ci.methods.get("colors")
        if co is not None:
            pc.colors_reads = self_reads(co, model, 0)
        out[name] = pc
    if len(out) < 10:
        raise AnalysisError(f"only {len(out)} Paint dataclasses found in paint.py")
    return out
