"""Findings, rule results, evidence files, known findings and the exit-code policy."""
from __future__ import annotations

import json
import os
import time
import traceback
from dataclasses import dataclass, field
from pathlib import Path
from typing import Callable, Dict, List, Optional

from .model import AnalysisError, Model, short

VERIF = Path(__file__).resolve().parent.parent
CURRENT_DRIFT: Dict[str, Optional[int]] = {}
CURRENT_DELETION_ONLY: set = set()
SHAPE_DRIFT_MAX = 1
ARMED_FILE = Path(__file__).resolve().parent / "armed_sites.json"
_ARMED = None


def armed_sites():
    """Report sites (rr.bad calls) that have caught a confirmed violating change inside a function that was restructured at the same time (tools/gen_armed.py,
    from the seeded and hand-made corpora).  Every other rr.bad site encodes a reading of the function as it was and, like bad_shape, is only entitled to a
    verdict while the function keeps its statement skeleton.  False (policy off) when the file is missing or NV_ARM_ALL=1."""
    global _ARMED
    if _ARMED is None:
        if os.environ.get("NV_ARM_ALL") == "1" or not ARMED_FILE.exists():
            _ARMED = False
        else:
            _ARMED = set(json.loads(ARMED_FILE.read_text()).get("sites", []))
    return _ARMED


# Reports that point AT something in the changed code (a memo keyed on too little, an unordered source consumed in order, a clamp, a swapped operand ...)
# rather than at the absence of what the rule expected.  Whatever the function looks like, these stand: they are exempt from the armed-site policy.
POSITIVE_RULES = {"R08a", "R08g", "R08j"}
POSITIVE_CONSTRUCTS = (
    "keyed without", "stops folded by", "stops filtered", "paint rebound before writing", "counter-transform shortcut without child_transform",
    "counter-transform order reversed", "transform from a fallback, not affine_between", "visited-set", "value clamped to the field limit",
    "paints filtered by kind", "palette normalisation depends on", "an index is returned before the foreground test", "gradient adjusted after mapping",
    "value coerced to an integer", "master UFO modified before", "rounding_ndigits passed", "competing pattern", "ensureDecompiled instead of reload",
    "viewBox side rounded before the ratio", "equal layers de-duplicated", "ownership of the reused path by name prefix", "takewhile drops",
    "transform composition order reversed", "prefix decided before the hash step", "permuted by the inverse permutation",
    "lookup after the glyph list was overwritten", "hoisted out of the per-master loop", "paired by zip of two sort orders", ": reorder_glyphs(..., ",
    "_pop_flag(file ", "rebound after the fixed_safe test", "added parameter", "emitted without a unit-scale test",
)


def _frame_key(f) -> str:
    import linecache
    import zlib
    line = linecache.getline(f.f_code.co_filename, f.f_lineno).strip()
    return f"{os.path.basename(f.f_code.co_filename)}:{f.f_code.co_name}:{zlib.crc32(line.encode()) & 0xffffffff:08x}"


@dataclass
class Finding:
    rule: str
    file: str
    func: str
    construct: str  # normalised statement / expression text; never a line number
    message: str
    line: Optional[int] = None
    path: Optional[List[str]] = None  # for path rules: entry ... offending exit
    drift: Optional[int] = None  # statement-skeleton distance of the anchored function from the reference tree (None: new function / module-level)
    site: str = ""  # where in /verif/nv/rules the report is made (diagnostics for the checker's own corpus statistics)
    site_key: str = ""  # the same, independent of line numbers: rule file, rule function, checksum of the reporting statement's first line

    def key(self) -> str:
        return f"{self.rule}|{self.func}|{' '.join(self.construct.split())}"

    def to_json(self, prop: str) -> dict:
        return {
            "property": prop,
            "rule": self.rule,
            "file": self.file,
            "line_hint": self.line,
            "function": self.func,
            "construct": self.construct,
            "message": self.message,
            "path": self.path,
            "key": self.key(),
        }


@dataclass
class RuleResult:
    rule: str
    title: str
    instances: List[str] = field(default_factory=list)  # decided instances (what was checked)
    findings: List[Finding] = field(default_factory=list)
    undecided: List[str] = field(default_factory=list)
    exceptions_used: List[str] = field(default_factory=list)
    remarks: List[str] = field(default_factory=list)
    floor: int = 1
    shapes: List[str] = field(default_factory=list)  # expected construct not found in any enumerated form: undecidable, not a violation
    shape_sites: List[str] = field(default_factory=list)

    def ok(self, text: str):
        self.instances.append(text)

    @staticmethod
    def _site() -> str:
        import inspect
        f = inspect.currentframe().f_back.f_back
        return f"{os.path.basename(f.f_code.co_filename)}:{f.f_lineno}"

    def shape(self, fi, node, message: str, construct: Optional[str] = None, path=None):
        """The construct this rule reasons about is not present in any of the forms the rule recognises (it was moved, split or rewritten).
        That is not evidence of a violation: the instance is undecided and the check ends as an analysis error (exit 2), never as a VIOLATION."""
        from .model import FuncInfo, Module
        func = fi.fq if isinstance(fi, FuncInfo) else (fi.name if isinstance(fi, Module) else str(fi))
        cons = construct if construct is not None else short(node, 160)
        self.undecided.append(f"{func}: {cons}: {message}")
        self.shapes.append(f"{func}: {cons}: unrecognised form ({message[:220]})")
        self.shape_sites.append(self._site())

    def bad(self, fi, node, message: str, construct: Optional[str] = None, path=None):
        """Record a violation at `node` inside function `fi` (FuncInfo) or a module."""
        from .model import FuncInfo, Module

        if isinstance(fi, FuncInfo):
            file, func = fi.module.relpath, fi.fq
        elif isinstance(fi, Module):
            file, func = fi.relpath, fi.name
        else:
            file, func = str(fi), str(fi)
        cons = construct if construct is not None else short(node, 160)
        import inspect
        caller = inspect.currentframe().f_back
        via_shape = caller.f_code.co_name == "bad_shape"
        if via_shape:
            caller = caller.f_back
        skey = _frame_key(caller)
        armed = armed_sites()
        positive = self.rule in POSITIVE_RULES or any(p_ in cons for p_ in POSITIVE_CONSTRUCTS)
        if not via_shape and not positive and armed is not False and isinstance(fi, FuncInfo) and skey not in armed:
            d = CURRENT_DRIFT.get(func) if func in CURRENT_DRIFT else None
            if (d is None or d > SHAPE_DRIFT_MAX) and func not in CURRENT_DELETION_ONLY:
                # the function was restructured (or is new) and this report has never been seen to survive a restructuring: undecided, like bad_shape
                self.shape(fi, node, message + f" [function restructured: skeleton distance {d}; this report is only trusted while the function keeps its shape]", construct, path)
                self.shape_sites[-1] = f"{os.path.basename(caller.f_code.co_filename)}:{caller.f_lineno}"
                return
        self.instances.append(f"{func}: {cons} -> VIOLATED")
        self.findings.append(
            Finding(self.rule, file, func, cons, message, getattr(node, "lineno", None), path, CURRENT_DRIFT.get(func), self._site(), skey)
        )

    def bad_shape(self, fi, node, message: str, construct: Optional[str] = None, path=None):
        """A report of the kind "the construct does not have the form that was read".  Such a rule encodes a reading of one specific function, so it is only
        entitled to a verdict while that function still has the statement skeleton that was read (nv/refnames.json, compared on the normal form E0): then a
        deviation inside the known form is a VIOLATION (likewise when statements were only *removed* and the module got no new function: nothing can have moved
        elsewhere, so what the rule misses is really gone).  If the function was restructured (statements added, removed, moved, split into helpers; skeleton
        distance above SHAPE_DRIFT_MAX) or is new, the reading no longer applies and the instance is undecided: analysis error (exit 2), not a violation."""
        from .model import FuncInfo
        func = fi.fq if isinstance(fi, FuncInfo) else None
        d = CURRENT_DRIFT.get(func) if func is not None else 0
        if func is not None and func not in CURRENT_DRIFT:
            d = None
        if d is not None and (d <= SHAPE_DRIFT_MAX or func in CURRENT_DELETION_ONLY):
            self.bad(fi, node, message, construct, path)
            self.findings[-1].site = self._site_of_caller()
        else:
            self.shape(fi, node, message + f" [function restructured: skeleton distance {d} from the reference]", construct, path)
            self.shape_sites[-1] = self._site_of_caller()

    @staticmethod
    def _site_of_caller() -> str:
        import inspect
        f = inspect.currentframe().f_back.f_back
        return f"{os.path.basename(f.f_code.co_filename)}:{f.f_lineno}"

    def unknown(self, text: str):
        self.undecided.append(text)


class RuleSet:
    """Rules registered per property."""

    def __init__(self):
        self.rules: Dict[str, List[Callable]] = {}
        self.meta: Dict[str, dict] = {}

    def rule(self, prop: str, rule_id: str, title: str, floor: int = 1, tier: str = "quick"):
        def deco(fn):
            fn.rule_id = rule_id
            fn.title = title
            fn.floor = floor
            fn.tier = tier
            self.rules.setdefault(prop, []).append(fn)
            return fn

        return deco


RULES = RuleSet()


def load_known_findings() -> dict:
    p = VERIF / "known_findings.json"
    if not p.exists():
        return {"findings": [], "fixed": []}
    return json.loads(p.read_text())


def run_property(prop: str, model: Model, tier: str, meta: dict, seed: int = 0,
                 evidence_dir: Optional[Path] = None, quiet: bool = False) -> int:
    """Run all rules of a property. Returns exit code (0, 1, 2)."""
    t0 = time.time()
    CURRENT_DRIFT.clear()
    CURRENT_DRIFT.update(getattr(model, "drift", {}) or {})
    CURRENT_DELETION_ONLY.clear()
    CURRENT_DELETION_ONLY.update(getattr(model, "deletion_only", set()) or set())
    out = print if not quiet else (lambda *a, **k: None)
    results: List[RuleResult] = []
    errors: List[str] = []
    for fn in RULES.rules.get(prop, []):
        if fn.tier == "thorough" and tier != "thorough":
            continue
        rr = RuleResult(fn.rule_id, fn.title, floor=fn.floor)
        try:
            fn(model, rr)
            decided = len(rr.instances)
            for sh in rr.shapes[:3]:
                errors.append(f"{fn.rule_id}: {sh}")
            if decided < rr.floor and not rr.shapes:
                raise AnalysisError(
                    f"rule {rr.rule} decided {decided} instance(s), below its confirmed floor {rr.floor} "
                    f"(undecided: {rr.undecided[:3]})"
                )
        except AnalysisError as e:
            errors.append(f"{fn.rule_id}: {e}")
        except Exception as e:  # checker crash -> analysis error, never a violation
            errors.append(f"{fn.rule_id}: checker crashed: {e!r}\n{traceback.format_exc(limit=6)}")
        results.append(rr)

    known = load_known_findings()
    known_keys = {k["key"]: k for k in known.get("findings", []) if k.get("property") == prop}
    violations: List[Finding] = []
    known_hit: List[dict] = []
    for rr in results:
        for f in rr.findings:
            if f.key() in known_keys:
                known_hit.append(known_keys[f.key()])
            else:
                violations.append(f)

    # ---- spelling-only change of the tree --------------------------------------------------
    # When every function of the reference tree is still there with the same effect fingerprint and no module level changed (nv/fingerprint.py), the tree does
    # what the reference tree does: the verdicts confirmed there carry over, and whatever a rule now fails to read (or misreads) is about the spelling.
    suppressed: List[str] = []
    if getattr(model, "tree_equivalent", False) and os.environ.get("NV_STRICT") != "1" and (violations or errors):
        suppressed = [f"{f.rule}: {f.func}: {f.construct}" for f in violations] + [f"unread: {e[:200]}" for e in errors]
        violations, errors = [], []
        known_hit = list(known_keys.values())
    replay_dir = Path(os.environ["NV_REPLAY_DIR"]) if os.environ.get("NV_REPLAY_DIR") else VERIF / "replay"
    replay_paths = []
    if violations:
        replay_dir.mkdir(parents=True, exist_ok=True)
        for i, f in enumerate(violations):
            rp = replay_dir / f"{prop}-{i}.json"
            rp.write_text(json.dumps(f.to_json(prop), indent=1))
            replay_paths.append(str(rp))

    # ---- evidence -----------------------------------------------------------------------
    n_inst = sum(len(r.instances) for r in results)
    n_viol = len(violations)
    samples = []
    for r in results:
        for s in r.instances[:3]:
            samples.append(f"{r.rule}: {s}")
    ev = {
        "property_id": prop,
        "tier": tier,
        "seed": seed,
        "level": "other",
        "coverage": {
            "explanation": meta.get("explanation", ""),
            "evaluations": max(n_inst, 0),
            "distinct_nontrivial": len({f"{r.rule}:{s}" for r in results for s in r.instances}),
            "rule": "one evaluation = one rule instance (a construct in /repo's current source that a static rule "
                    "classified as satisfying or violating it); distinct = distinct (rule, construct) pairs; "
                    "instances the rule could not classify are listed under undecided and are not counted",
            "obligations": n_inst,
            "discharged": n_inst - sum(len(r.findings) for r in results),
            "samples": samples[:60],
            "trusted_base": [
                "CPython ast parser",
                "declared signature/seed tables in /verif/nv (each entry confirmed by reading)",
                "fontTools otData.py / otTables.py parsed as data (specification oracle)",
            ],
            "checker_cmd": meta.get("cmd", ""),
            "model": model.stats(),
            "rules": [
                {
                    "rule": r.rule,
                    "title": r.title,
                    "instances_decided": len(r.instances),
                    "floor": r.floor,
                    "violations": len(r.findings),
                    "undecided": r.undecided,
                    "exceptions_used": r.exceptions_used,
                    "remarks": r.remarks,
                    "instances": r.instances,
                }
                for r in results
            ],
            "known_findings_reported": [k["key"] for k in known_hit],
            "analysis_errors": errors,
            "effect_fingerprints": {"tree_equivalent_to_reference": bool(getattr(model, "tree_equivalent", False)),
                                    "functions_with_reference_effects": len(getattr(model, "same_effects", ()) or ()),
                                    "differences": list(getattr(model, "effect_differences", []) or [])[:40],
                                    "not_reported_because_only_the_spelling_changed": suppressed},
            "declined": meta.get("declined", ""),
        },
        "assumptions": meta.get("assumptions", []),
        "wall_s": round(time.time() - t0, 3),
        "violations": n_viol,
    }
    evidence_dir = evidence_dir or (VERIF / "evidence")
    evidence_dir.mkdir(exist_ok=True)
    (evidence_dir / f"{prop}.json").write_text(json.dumps(ev, indent=1))

    # ---- verdict -------------------------------------------------------------------------
    for r in results:
        out(f"[{prop}] {r.rule} {r.title}: {len(r.instances)} instance(s) decided, "
            f"{len(r.findings)} violated, {len(r.undecided)} undecided")
    seen = set()
    for k in known_hit:
        if k["key"] in seen:
            continue
        seen.add(k["key"])
        out(f"KNOWN-FINDING: property={prop} {k['what']}")
    if suppressed:
        out(f"NOTE property={prop} the tree differs from the reference tree in spelling only (every function has the reference function's effect fingerprint, "
            f"no module level changed): {len(suppressed)} outcome(s) of rules that could not read the new spelling are not reported (listed in the evidence file)")
    for f, rp in zip(violations, replay_paths):
        out(f"  {f.file}:{f.line} {f.func}: [{f.rule}] {f.message}\n    construct: {f.construct}")
        out(f"VIOLATION property={prop} replay={rp}")
    if errors:
        for e in errors:
            out(f"ANALYSIS-ERROR property={prop} {e}")
    if violations:
        return 1
    if errors:
        return 2
    return 0
