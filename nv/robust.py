"""Robustness probe: behaviour-preserving rewrites of /repo's source must leave every check silent.

usage: /venv/bin/python -m nv.robust [--op rename-locals|temp-return|all] [--module m] [--per-function] [--props C01,C02] [--jobs 16]

Operators (computed on the syntax tree, one scratch copy under $TMPDIR per variant, removed afterwards):
  rename-locals   every local variable (assignment / for / with / comprehension / except targets; never parameters,
                  globals or names captured by keyword) of the chosen function(s) gets the suffix `_rn`
  temp-return     `return <expr>` becomes `_rv = <expr>; return _rv` (only for non-trivial expressions)
  flip-if         `if c: A else: B` becomes `if not (c): B else: A` (no elif chains)
A variant is reported when any rule fires or raises an analysis error. Nothing is committed anywhere."""
import argparse
import ast
import shutil
import sys
import tempfile
from concurrent.futures import ProcessPoolExecutor
from pathlib import Path

VERIF = Path(__file__).resolve().parent.parent
if str(VERIF) not in sys.path:
    sys.path.insert(0, str(VERIF))


def _locals_of(fn: ast.AST):
    params = set()
    a = fn.args
    for x in a.posonlyargs + a.args + a.kwonlyargs:
        params.add(x.arg)
    if a.vararg:
        params.add(a.vararg.arg)
    if a.kwarg:
        params.add(a.kwarg.arg)
    banned = set(params)
    stored = set()
    for n in ast.walk(fn):
        if isinstance(n, (ast.Global, ast.Nonlocal)):
            banned.update(n.names)
        if n is not fn and isinstance(n, (ast.FunctionDef, ast.AsyncFunctionDef, ast.Lambda)):
            aa = n.args
            for x in aa.posonlyargs + aa.args + aa.kwonlyargs:
                banned.add(x.arg)
            if isinstance(n, (ast.FunctionDef, ast.AsyncFunctionDef)):
                banned.add(n.name)
        if isinstance(n, ast.ClassDef):
            banned.add(n.name)
        if isinstance(n, ast.Name) and isinstance(n.ctx, ast.Store):
            stored.add(n.id)
        if isinstance(n, ast.ExceptHandler) and n.name:
            banned.add(n.name)
        if isinstance(n, (ast.Import, ast.ImportFrom)):
            for al in n.names:
                banned.add((al.asname or al.name).split(".")[0])
    return {s for s in stored - banned if not s.startswith("_")}


def rename_locals(fn: ast.AST) -> int:
    names = _locals_of(fn)
    if not names:
        return 0
    for n in ast.walk(fn):
        if isinstance(n, ast.Name) and n.id in names:
            n.id = n.id + "_rn"
    return len(names)


def temp_return(fn: ast.AST) -> int:
    k = 0

    class T(ast.NodeTransformer):
        def visit_FunctionDef(self, n):
            return n if n is not fn else self.generic_visit(n)

        visit_AsyncFunctionDef = visit_FunctionDef

        def visit_Lambda(self, n):
            return n

        def visit_Return(self, n):
            nonlocal k
            if n.value is None or isinstance(n.value, (ast.Name, ast.Constant)):
                return n
            k += 1
            return [ast.Assign(targets=[ast.Name(id="_rv", ctx=ast.Store())], value=n.value, lineno=n.lineno), ast.Return(value=ast.Name(id="_rv", ctx=ast.Load()))]
    T().generic_visit(fn)
    if any(isinstance(x, (ast.Yield, ast.YieldFrom)) for x in ast.walk(fn)):
        pass
    return k


def flip_if(fn: ast.AST) -> int:
    k = 0
    for n in ast.walk(fn):
        if isinstance(n, ast.If) and n.orelse and not (len(n.orelse) == 1 and isinstance(n.orelse[0], ast.If)):
            n.test = ast.UnaryOp(op=ast.Not(), operand=n.test)
            n.body, n.orelse = n.orelse, n.body
            k += 1
    return k


def insert_log(fn: ast.AST) -> int:
    k = 0

    def mk():
        return ast.Expr(value=ast.Call(func=ast.Attribute(value=ast.Name(id="logging", ctx=ast.Load()), attr="debug", ctx=ast.Load()),
                                       args=[ast.Constant(value="checkpoint %s"), ast.Constant(value=k)], keywords=[]))

    def do(body):
        nonlocal k
        out = []
        for st in body:
            if not (isinstance(st, ast.Expr) and isinstance(st.value, ast.Constant)) and not isinstance(st, (ast.Global, ast.Nonlocal)):
                out.append(mk())
                k += 1
            out.append(st)
        body[:] = out
    todo = [fn]
    while todo:
        n = todo.pop()
        for field in ("body", "orelse", "finalbody"):
            blk = getattr(n, field, None)
            if isinstance(blk, list) and blk and isinstance(blk[0], ast.stmt):
                for st in blk:
                    if not isinstance(st, (ast.FunctionDef, ast.AsyncFunctionDef, ast.ClassDef)):
                        todo.append(st)
                do(blk)
        if isinstance(n, ast.Try):
            for h in n.handlers:
                todo.extend(h.body)
                do(h.body)
    return k


def annotate_locals(fn: ast.AST) -> int:
    """First plain assignment `x = e` of each local becomes `x: object = e`."""
    names = _locals_of(fn)
    done = set()
    k = 0

    class T(ast.NodeTransformer):
        def visit_FunctionDef(self, n):
            return n if n is not fn else self.generic_visit(n)
        visit_AsyncFunctionDef = visit_FunctionDef

        def visit_Lambda(self, n):
            return n

        def visit_Assign(self, n):
            nonlocal k
            if len(n.targets) == 1 and isinstance(n.targets[0], ast.Name) and n.targets[0].id in names and n.targets[0].id not in done:
                done.add(n.targets[0].id)
                k += 1
                return ast.AnnAssign(target=ast.Name(id=n.targets[0].id, ctx=ast.Store()), annotation=ast.Name(id="object", ctx=ast.Load()), value=n.value, simple=1)
            return n
    T().generic_visit(fn)
    return k


def extract_arg(fn: ast.AST) -> int:
    """`f(a, g(x))` (as a statement or the right-hand side of an assignment / return) becomes `_ev = g(x); f(a, _ev)` when everything
    evaluated before that argument is a name, constant or attribute chain."""
    k = 0

    def simple(e):
        return isinstance(e, (ast.Name, ast.Constant)) or (isinstance(e, ast.Attribute) and simple(e.value))

    def do(body):
        nonlocal k
        out = []
        for st in body:
            call = None
            if isinstance(st, ast.Expr) and isinstance(st.value, ast.Call):
                call = st.value
            elif isinstance(st, (ast.Assign, ast.Return)) and isinstance(st.value, ast.Call):
                call = st.value
            if call is not None and simple(call.func) and not call.keywords:
                for i, a in enumerate(call.args):
                    if simple(a):
                        continue
                    if isinstance(a, (ast.Call, ast.BinOp, ast.Subscript)) and not any(isinstance(x, (ast.Starred, ast.Lambda, ast.GeneratorExp, ast.ListComp, ast.Yield, ast.Await, ast.NamedExpr)) for x in ast.walk(a)):
                        nm = f"_ev{k}"
                        out.append(ast.Assign(targets=[ast.Name(id=nm, ctx=ast.Store())], value=a, lineno=st.lineno))
                        call.args[i] = ast.Name(id=nm, ctx=ast.Load())
                        k += 1
                    break
            out.append(st)
        body[:] = out
    todo = [fn]
    while todo:
        n = todo.pop()
        for field in ("body", "orelse", "finalbody"):
            blk = getattr(n, field, None)
            if isinstance(blk, list) and blk and isinstance(blk[0], ast.stmt):
                for st in blk:
                    if not isinstance(st, (ast.FunctionDef, ast.AsyncFunctionDef, ast.ClassDef)):
                        todo.append(st)
                do(blk)
        if isinstance(n, ast.Try):
            for h in n.handlers:
                todo.extend(h.body)
                do(h.body)
    return k


OPS = {"rename-locals": rename_locals, "temp-return": temp_return, "flip-if": flip_if, "insert-log": insert_log,
       "annotate-locals": annotate_locals, "extract-arg": extract_arg}


def rename_params(dst: Path, module: str, fname) -> int:
    """Rename every parameter (not self/cls, not *args/**kwargs) of the chosen functions; keyword arguments at call sites whose
    callee name equals the function's name are renamed along, in every module."""
    trees = {p.stem: ast.parse(p.read_text()) for p in dst.glob("*.py")}
    n = 0
    renames = {}
    for name, fn in _functions(trees[module]):
        if (fname is None or name == fname) and not fn.name.startswith("__"):
            a = fn.args
            mp = {x.arg: x.arg + "_pn" for x in a.posonlyargs + a.args + a.kwonlyargs if x.arg not in ("self", "cls")}
            if not mp:
                continue
            # skip when a nested scope rebinds the name (keeps the probe simple)
            inner = {y.arg for z in ast.walk(fn) if z is not fn and isinstance(z, (ast.FunctionDef, ast.Lambda)) for y in z.args.args}
            mp = {k: v for k, v in mp.items() if k not in inner}
            for x in a.posonlyargs + a.args + a.kwonlyargs:
                if x.arg in mp:
                    x.arg = mp[x.arg]
            for z in ast.walk(fn):
                if isinstance(z, ast.Name) and z.id in mp:
                    z.id = mp[z.id]
            renames.setdefault(fn.name, {}).update(mp)
            n += len(mp)
    if not n:
        return 0
    for stem, t in trees.items():
        for z in ast.walk(t):
            if isinstance(z, ast.Call):
                tail = z.func.attr if isinstance(z.func, ast.Attribute) else (z.func.id if isinstance(z.func, ast.Name) else None)
                mp = renames.get(tail)
                if mp:
                    for k in z.keywords:
                        if k.arg in mp:
                            k.arg = mp[k.arg]
        (dst / f"{stem}.py").write_text(ast.unparse(t) + "\n")
    return n


def _functions(tree):
    out = []

    def rec(node, prefix):
        for ch in ast.iter_child_nodes(node):
            if isinstance(ch, (ast.FunctionDef, ast.AsyncFunctionDef)):
                out.append((prefix + ch.name, ch))
                rec(ch, prefix + ch.name + ".")
            elif isinstance(ch, ast.ClassDef):
                rec(ch, prefix + ch.name + ".")
            elif isinstance(ch, (ast.If, ast.Try, ast.With, ast.For, ast.While)):
                rec(ch, prefix)
    rec(tree, "")
    return out


def run_variant(args):
    op, module, fname, props, repo = args
    from nv.model import load_model, AnalysisError
    from nv import report
    from nv.rules import PROPERTY_META  # noqa
    tmp = Path(tempfile.mkdtemp(prefix="nv-rob-"))
    try:
        dst = tmp / "src" / "nanoemoji"
        dst.parent.mkdir(parents=True)
        shutil.copytree(Path(repo) / "src" / "nanoemoji", dst, ignore=shutil.ignore_patterns("__pycache__", "*.pyc"))
        f = dst / f"{module}.py"
        tree = ast.parse(f.read_text())
        n = 0
        if op == "rename-params":
            n = rename_params(dst, module, fname)
            if not n:
                return None
        else:
            for name, fn in _functions(tree):
                if fname is None or name == fname:
                    n += OPS[op](fn)
            if not n:
                return None
            ast.fix_missing_locations(tree)
            src = ast.unparse(tree)
            if op == "insert-log" and "import logging" not in src:
                src = "import logging\n" + src
            compile(src, str(f), "exec")
            f.write_text(src + "\n")
        model = load_model(tmp)
        out = []
        for prop in props:
            known = {k["key"] for k in report.load_known_findings().get("findings", []) if k["property"] == prop}
            for rule in report.RULES.rules.get(prop, []):
                rr = report.RuleResult(rule.rule_id, rule.title, floor=rule.floor)
                try:
                    rule(model, rr)
                    if len(rr.instances) < rr.floor:
                        out.append((prop, rule.rule_id, "floor", ""))
                except AnalysisError as e:
                    out.append((prop, rule.rule_id, "analysis-error", str(e)[:160]))
                except Exception as e:
                    out.append((prop, rule.rule_id, "crash", repr(e)[:160]))
                for fd in rr.findings:
                    if fd.key() not in known:
                        out.append((prop, rule.rule_id, "fired", f"{fd.func}: {fd.construct}"[:160]))
        return (op, module, fname, n, out)
    finally:
        shutil.rmtree(tmp, ignore_errors=True)


def run(props, ops=None, modules=None, per_function=False, jobs=16, repo="/repo"):
    """Returns (number of variants that changed something, list of (op, module, function, sites, reports))."""
    ops = ops or (list(OPS) + ["rename-params"])
    src = Path(repo) / "src" / "nanoemoji"
    mods = modules or sorted(p.stem for p in src.glob("*.py"))
    jobs_l = []
    for op in ops:
        for m in mods:
            if per_function:
                for name, _ in _functions(ast.parse((src / f"{m}.py").read_text())):
                    jobs_l.append((op, m, name, props, repo))
            else:
                jobs_l.append((op, m, None, props, repo))
    n = 0
    bad = []
    with ProcessPoolExecutor(max_workers=jobs) as ex:
        for r in ex.map(run_variant, jobs_l):
            if r is None:
                continue
            n += 1
            op, m, fn, sites, out = r
            uniq = []
            for o in out:
                if (o[1], o[2], o[3]) not in {(u[1], u[2], u[3]) for u in uniq}:
                    uniq.append(o)
            if uniq:
                bad.append((op, m, fn, sites, uniq))
    return n, bad


def main():
    ap = argparse.ArgumentParser()
    ap.add_argument("--op", default="all")
    ap.add_argument("--module")
    ap.add_argument("--per-function", action="store_true")
    ap.add_argument("--props")
    ap.add_argument("--jobs", type=int, default=16)
    ap.add_argument("--repo", default="/repo")
    a = ap.parse_args()
    props = a.props.split(",") if a.props else [f"C{i:02d}" for i in range(1, 21)]
    n, bad = run(props, None if a.op == "all" else [a.op], [a.module] if a.module else None, a.per_function, a.jobs, a.repo)
    for op, m, fn, sites, uniq in bad:
        print(f"## {op} {m}{'.' + fn if fn else ''} ({sites} sites): {len(uniq)} report(s)")
        for o in uniq:
            print(f"   {o[0]} {o[1]} {o[2]}: {o[3]}")
    print(f"{n} effective variants, {len(bad)} with reports")
    return 1 if bad else 0


if __name__ == "__main__":
    sys.exit(main())
