"""Rule registry. Importing this package registers every rule with nv.report.RULES."""
import importlib
import pkgutil

from .meta import PROPERTY_META  # noqa: F401

for _m in sorted(m.name for m in pkgutil.iter_modules(__path__)):
    if _m.startswith("c") and _m[1:3].isdigit():
        importlib.import_module(f"{__name__}.{_m}")
