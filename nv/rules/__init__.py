"""Rule registry. Importing this package registers every rule with nv.report.RULES."""
import importlib
import pkgutil

from ..report import RULES
from .meta import PROPERTY_META  # noqa: F401

for _m in sorted(m.name for m in pkgutil.iter_modules(__path__)):
    if _m.startswith("c") and _m[1:3].isdigit():
        importlib.import_module(f"{__name__}.{_m}")

# A rule decides a structural clause of a *mechanism*; several properties rest on the same mechanism (their anchors overlap).
# The rule is therefore also run under every property whose statement depends on that mechanism, under its own id.
# (Rules that currently have known findings are not shared: known findings are keyed per property.)
SHARED = {
    "C01": [("C08", "R08j"), ("C06", "R06f"), ("C16", "R16a"), ("C16", "R16b"), ("C06", "R06b"), ("C06", "R06d"), ("C15", "R15a"), ("C05", "R05a"), ("C05", "R05c"), ("C04", "R04d"), ("C16", "R16f"), ("C13", "R13f"), ("C15", "R15e"), ("C08", "R08g"), ("C03", "R03g"), ("C04", "R04b"), ("C19", "R19b")],
    "C02": [("C08", "R08j"), ("C06", "R06d"), ("C07", "R07f"), ("C13", "R13f"), ("C13", "R13g"), ("C06", "R06e")],
    "C03": [("C08", "R08j"), ("C15", "R15b"), ("C15", "R15c"), ("C16", "R16c"), ("C16", "R16f"), ("C01", "R01c"), ("C05", "R05a"), ("C05", "R05b"), ("C16", "R16a"), ("C05", "R05c"), ("C15", "R15e"), ("C06", "R06b"), ("C01", "R01h")],
    "C04": [("C02", "R02d"), ("C11", "R11c"), ("C10", "R10a"), ("C14", "R14b")],
    "C07": [("C20", "R20k"), ("C12", "R12a"), ("C12", "R12g"), ("C12", "R12h")],
    "C08": [("C20", "R20i"), ("C20", "R20g")],
    "C09": [("C20", "R20i")],
    "C10": [("C09", "R09c"), ("C09", "R09f")],
    "C17": [("C04", "R04a"), ("C14", "R14c")],
    "C18": [("C10", "R10f"), ("C20", "R20g"), ("C20", "R20f"), ("C09", "R09b")],
    "C05": [("C16", "R16f"), ("C03", "R03g")],
    "C06": [("C08", "R08j"), ("C16", "R16a"), ("C16", "R16e"), ("C16", "R16c"), ("C16", "R16f"), ("C13", "R13f"), ("C03", "R03b"), ("C08", "R08g"), ("C19", "R19b")],
    "C12": [("C20", "R20k"), ("C11", "R11a"), ("C11", "R11b"), ("C11", "R11c"), ("C11", "R11e"), ("C13", "R13a"), ("C13", "R13b"), ("C07", "R07e"), ("C07", "R07a"), ("C11", "R11f"), ("C09", "R09f"), ("C11", "R11g")],
    "C13": [("C08", "R08j"), ("C16", "R16c"), ("C16", "R16d"), ("C16", "R16f"), ("C02", "R02g")],
    "C14": [("C07", "R07e"), ("C04", "R04d"), ("C10", "R10a")],
    "C15": [("C08", "R08j"), ("C08", "R08g")],
    "C16": [("C06", "R06f"), ("C13", "R13c"), ("C02", "R02a"), ("C06", "R06b")],
    "C19": [("C08", "R08j"), ("C06", "R06g"), ("C16", "R16e"), ("C03", "R03b"), ("C03", "R03h")],
    "C20": [("C08", "R08j"), ("C14", "R14a"), ("C05", "R05d"), ("C12", "R12d"), ("C09", "R09c"), ("C09", "R09f"), ("C09", "R09b")],
}


def _share():
    for prop, items in SHARED.items():
        have = {f.rule_id for f in RULES.rules.get(prop, [])}
        for src, rid in items:
            if rid in have:
                continue
            fns = [f for f in RULES.rules.get(src, []) if f.rule_id == rid]
            if not fns:
                raise RuntimeError(f"shared rule {src}/{rid} not found")
            f0 = fns[0]

            def wrapper(model, rr, _f=f0):
                return _f(model, rr)
            wrapper.rule_id = rid
            wrapper.title = f0.title + f" [shared from {src}]"
            wrapper.floor = f0.floor
            wrapper.tier = f0.tier
            RULES.rules.setdefault(prop, []).append(wrapper)
            have.add(rid)


_share()
