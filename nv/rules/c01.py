"""C01 — COLRv1 glyph paints the same picture as its source SVG (structural clauses)."""
from __future__ import annotations

import ast
from typing import Dict, List, Optional, Set

from .. import otspec
from ..cfg import cfg_of
from ..dataflow import expr_closure
from ..dims import DimChecker
from ..model import (AnalysisError, FuncInfo, Model, calls_in, callee_tail, find_calls, kwarg, names_in, norm, short, walk_body)
from ..paintmodel import extract
from ..report import RULES, RuleResult
from .spaces_common import report

WHY_SPACE = "A map or geometry is used in a coordinate space it is not expressed in, so shapes or gradients would be displaced, flipped or scaled"


@RULES.rule("C01", "R01a", "coordinate-space consistency of the SVG -> Paint -> COLR pipeline", floor=60)
def r01a(model: Model, rr: RuleResult):
    report(model, rr, [
        ("color_glyph", "scale_viewbox_to_font_metrics"), ("color_glyph", "map_viewbox_to_font_space"),
        ("color_glyph", "_get_gradient_transform"), ("color_glyph", "_parse_linear_gradient"), ("color_glyph", "_parse_radial_gradient"),
        ("paint", "PaintLinearGradient.apply_transform"), ("paint", "PaintRadialGradient.apply_transform"),
        ("write_font", "_migrate_paths_to_ufo_glyphs._update_paint_glyph"), ("write_font", "_create_glyph"),
    ], WHY_SPACE)
    # wiring of the higher-order map: ColorGlyph._transform passes (view_box, ascender, descender, width, user_transform) in the
    # order the map functions declare them, and each public method picks its own map
    tfi = model.func("color_glyph", "ColorGlyph._transform")
    calls = [c for c in calls_in(tfi) if norm(c.func) == tfi.params[1]]
    if len(calls) != 1:
        raise AnalysisError("ColorGlyph._transform: call of map_fn not found")
    mp = model.func("color_glyph", "map_viewbox_to_font_space").params
    mo = model.func("color_glyph", "map_viewbox_to_otsvg_space").params
    want = {"view_box": "view_box()", "ascender": "info.ascender", "descender": "info.descender", "width": ".width", "user_transform": "user_transform"}
    if mp != mo:
        rr.bad(tfi, tfi.node, f"the two viewBox maps declare different parameter orders {mp} vs {mo} but are called through one call site", construct="map_viewbox_* parameter order")
    from ..dataflow import resolved as _r01
    _tc = cfg_of(tfi)
    for pname, a in zip(mp, calls[0].args):
        if want.get(pname) and (want[pname] in norm(a) or want[pname] in norm(_r01(_tc, _tc.node_for(calls[0]), a))):
            rr.ok(f"_transform passes {short(a, 40)} as {pname}")
        else:
            rr.bad(tfi, calls[0], f"_transform passes {short(a, 40)} where the map function expects {pname}", construct=f"map_fn arg {pname} = {short(a, 40)}")
    for meth, fn in (("ColorGlyph.transform_for_font_space", "map_viewbox_to_font_space"), ("ColorGlyph.transform_for_otsvg_space", "map_viewbox_to_otsvg_space")):
        mfi = model.func("color_glyph", meth)
        cs = find_calls(mfi, "_transform")
        if len(cs) == 1 and norm(cs[0].args[0]) == fn:
            rr.ok(f"{meth} uses {fn}")
        else:
            rr.bad(mfi, mfi.node, f"{meth} does not use {fn}", construct=f"{meth}: map function")
    # ColorGlyph.create: gradient width argument is the glyph's own advance; painted layers built with it
    cfi = model.func("color_glyph", "ColorGlyph.create")
    pl = find_calls(cfi, "_painted_layers")
    if len(pl) == 1 and norm(pl[0].args[-1]) == "base_glyph.width" and norm(pl[0].args[2]) == "svg":
        rr.ok("ColorGlyph.create: _painted_layers(..., svg, base_glyph.width): gradients are centred with the glyph's own advance")
    else:
        rr.bad(cfi, cfi.node, "painted layers are not built with the glyph's own advance width (gradient and outline centring would differ)", construct="ColorGlyph.create: _painted_layers args")


@RULES.rule("C01", "R01b", "scalar dimensions of the viewBox -> font scale and the advance rule", floor=5)
def r01b(model: Model, rr: RuleResult):
    fi = model.func("color_glyph", "scale_viewbox_to_font_metrics")
    seeds = {"ascender": "fu", "descender": "fu", "width": "fu", "view_box.h": "vbu", "view_box.w": "vbu", "view_box.x": "vbu", "view_box.y": "vbu"}
    chk = DimChecker(model, fi, seeds, {}).run()
    # the scale used in the literal must be fu/vbu and the shift fu
    lits = [c for c in calls_in(fi) if norm(c.func) == "Affine2D"]
    for c in lits:
        if len(c.args) == 6:
            a, d, e = chk.ev(c.args[0]), chk.ev(c.args[3]), chk.ev(c.args[4])
            if norm(c.args[0]) not in ("1",):
                from ..dims import parse_dim, show
                for val, want, what in ((a, "fu/vbu", "x scale"), (d, "fu/vbu", "y scale"), (e, "fu", "x shift")):
                    chk.same(parse_dim(want), val, c, f"{what} of the scaling affine")
    afi = model.func("color_glyph", "_advance_width")
    seeds2 = {"config.ascender": "fu", "config.descender": "fu", "config.width": "fu", "view_box.w": "vbu", "view_box.h": "vbu"}
    chk2 = DimChecker(model, afi, seeds2, {}, ret="fu").run()
    for c in (chk, chk2):
        for ok in c.checked:
            rr.ok(f"{c.fi.name}: {ok}")
        for e in c.errors:
            rr.bad(c.fi, e.node, f"dimension error: {e.message} (fu = font units, vbu = viewBox units)", construct=f"{short(e.node, 90)} :: {e.message}")
    # the advance rule: max(configured width, proportional width)
    rets = [st for st in walk_body(afi) if isinstance(st, ast.Return)]
    ok = len(rets) == 1 and isinstance(rets[0].value, ast.Call) and norm(rets[0].value.func) == "max" and any(norm(a) == "config.width" for a in rets[0].value.args)
    if ok:
        rr.ok("_advance_width = max(config.width, round(font_height * vb.w / vb.h))")
    else:
        rr.bad(afi, afi.node, "advance is not the larger of the configured width and the proportional width", construct="_advance_width: return")
    cfi = model.func("color_glyph", "ColorGlyph.create")
    cfg = cfg_of(cfi)
    w = [st for st in walk_body(cfi) if isinstance(st, ast.Assign) and norm(st.targets[0]) == "base_glyph.width"]
    from ..guards import value_cases as _vc1
    wvals = [norm(v_) for x in w for v_, _ in _vc1(cfg, x)]
    if len(wvals) == 2 and any("_advance_width" in t_ for t_ in wvals) and any(t_ == "font_config.width" for t_ in wvals):
        rr.ok("ColorGlyph.create: width = _advance_width(view_box, config) when a viewBox exists, else config.width")
    else:
        rr.bad_shape(cfi, cfi.node, "glyph advance is not assigned from _advance_width / config.width", construct="ColorGlyph.create: base_glyph.width")


# ---------------------------------------------------------------------------------------------
def _flip(p):
    return {"doc": "rev", "rev": "doc"}.get(p, p)


class Polarity:
    """Two-point abstract domain {doc, rev} for sequences built in _painted_layers."""

    def __init__(self, fi: FuncInfo):
        self.fi = fi
        self.env: Dict[str, str] = {}
        self.buckets: Dict[str, str] = {}
        self.sinks: List = []

    def pol(self, e) -> Optional[str]:
        if isinstance(e, ast.Name):
            return self.env.get(e.id)
        if isinstance(e, ast.Call):
            fn = norm(e.func)
            if fn == "reversed" and e.args:
                return _flip(self.pol(e.args[0]))
            if fn in ("tuple", "list", "iter") and e.args:
                return self.pol(e.args[0])
            if callee_tail(e) in ("depth_first", "breadth_first", "children"):
                return "doc"
            if callee_tail(e) == "pop" and isinstance(e.func, ast.Attribute) and isinstance(e.func.value, ast.Name):
                return self.buckets.get(e.func.value.id)
        if isinstance(e, ast.Subscript) and isinstance(e.value, ast.Name):
            return self.buckets.get(e.value.id)
        if isinstance(e, ast.Slice):
            return None
        return None

    def run(self):
        self.block(self.fi.body, None)
        return self

    def block(self, stmts, loop_pol):
        for st in stmts:
            if isinstance(st, ast.For):
                lp = self.pol(st.iter)
                self.block(st.body, lp)
            elif isinstance(st, (ast.If, ast.While)):
                self.block(st.body, loop_pol)
                self.block(st.orelse, loop_pol)
            elif isinstance(st, ast.Assign) and isinstance(st.targets[0], ast.Name):
                p = self.pol(st.value)
                if p is not None or st.targets[0].id in self.env:
                    self.env[st.targets[0].id] = p
                self.scan_calls(st.value, loop_pol)
            elif isinstance(st, ast.Expr) and isinstance(st.value, ast.Call):
                c = st.value
                if callee_tail(c) == "append" and isinstance(c.func, ast.Attribute):
                    tgt = c.func.value
                    base = tgt.value if isinstance(tgt, ast.Subscript) else tgt
                    if isinstance(base, ast.Name) and loop_pol is not None:
                        self.buckets[base.id] = loop_pol
                        if not isinstance(tgt, ast.Subscript):
                            self.env[base.id] = loop_pol
                    for a in c.args:
                        self.scan_calls(a, loop_pol)
                elif callee_tail(c) == "insert" and isinstance(c.func, ast.Attribute) and c.args and norm(c.args[0]) == "0":
                    base = c.func.value.value if isinstance(c.func.value, ast.Subscript) else c.func.value
                    if isinstance(base, ast.Name) and loop_pol is not None:
                        self.buckets[base.id] = _flip(loop_pol)
                        self.env[base.id] = _flip(loop_pol)
            elif isinstance(st, ast.Return) and st.value is not None:
                if not (isinstance(st.value, ast.Tuple) and not st.value.elts):
                    self.sinks.append(("return", st, self.pol(st.value)))

    def scan_calls(self, e, loop_pol):
        for c in ast.walk(e):
            if isinstance(c, ast.Call) and norm(c.func) == "PaintColrLayers" and c.args:
                self.sinks.append(("PaintColrLayers", c, self.pol(c.args[0])))


@RULES.rule("C01", "R01c", "z-order polarity: layers reach COLR in document order", floor=6)
def r01c(model: Model, rr: RuleResult):
    fi = model.func("color_glyph", "_painted_layers")
    # layers are never de-duplicated: painting a translucent layer twice is not painting it once
    from ..dataflow import inline_new_helpers as _inl1c
    dd = [c for c in calls_in(fi, nested=True) if callee_tail(c) in ("groupby", "fromkeys", "unique_everseen", "unique_justseen")
          or (callee_tail(c) in ("set", "frozenset", "dict") and c.args and any(isinstance(x, ast.Name) and x.id in ("layers", "child_nodes") for x in ast.walk(c.args[0])))]
    for c in calls_in(fi, nested=True):
        if not dd and isinstance(c.func, ast.Name):
            e2 = _inl1c(c, fi, depth=2)
            dd += [x for x in ast.walk(e2) if isinstance(x, ast.Call) and callee_tail(x) in ("groupby", "fromkeys", "unique_everseen", "unique_justseen")]
    if dd:
        rr.bad(fi, dd[0], f"_painted_layers collapses repeated layers (`{short(dd[0], 60)}`): two identical translucent layers in a row (a doubled 25% shadow) cover 1-(1-a)^2, not a; the "
               f"glyph is painted lighter than its source", construct="_painted_layers: equal layers de-duplicated")
        return
    pz = Polarity(fi).run()
    if len(pz.sinks) < 2:
        raise AnalysisError("_painted_layers: expected a PaintColrLayers(...) sink and a return sink")
    for kind, node, pol in pz.sinks:
        if pol == "doc":
            rr.ok(f"_painted_layers: {kind} receives layers in document (bottom-up) order")
        elif pol == "rev":
            rr.bad(fi, node, f"{kind} receives layers in REVERSED document order: z-order of the glyph is inverted", construct=f"{kind}: {short(node, 90)} [reversed]")
        else:
            raise AnalysisError(f"_painted_layers: polarity of {short(node)} undecidable (idiom outside {{reversed, tuple, list, append, pop}})")
    # downstream consumers keep iteration order
    for modname, fn, it in (("write_font", "_ufo_colr_layers", "color_glyph.painted_layers"), ("write_font", "_colr0_layers", "root.breadth_first()")):
        f2 = model.func(modname, fn)
        loops = [st for st in walk_body(f2) if isinstance(st, ast.For)]
        good = loops and norm(loops[0].iter) == it
        bad_ops = [c for c in calls_in(f2) if (callee_tail(c) == "insert") or norm(c.func) == "reversed" or (callee_tail(c) == "sort") or norm(c.func) == "sorted"]
        if good and not bad_ops:
            rr.ok(f"{fn}: appends in iteration order of {it}")
        else:
            rr.bad(f2, f2.node, f"{fn} does not emit layers in the order of {it}", construct=f"{fn}: iteration {short(loops[0].iter) if loops else None}, ops {[short(b) for b in bad_ops]}")
    bfi = model.func("paint", "Paint.breadth_first")
    pops = [c for c in calls_in(bfi) if callee_tail(c) == "pop"]
    apps = [c for c in calls_in(bfi) if callee_tail(c) == "append"]
    childloop = [st for st in walk_body(bfi) if isinstance(st, ast.For) and "children()" in norm(st.iter)]
    lefts = [c for c in calls_in(bfi) if callee_tail(c) == "popleft" and not c.args]
    is_deque = any(isinstance(c, ast.Call) and callee_tail(c) == "deque" for c in calls_in(bfi))
    fifo = (len(pops) == 1 and pops[0].args and norm(pops[0].args[0]) == "0" and not lefts) or (len(lefts) == 1 and not pops and is_deque)
    if fifo and apps and not any(callee_tail(c) == "appendleft" for c in calls_in(bfi)) and childloop and "reversed" not in norm(childloop[0].iter):
        rr.ok("Paint.breadth_first is FIFO (pop(0) + append) over children() in order")
    else:
        rr.bad_shape(bfi, bfi.node, "Paint.breadth_first no longer visits siblings in order (FIFO)", construct="breadth_first: frontier discipline")
    classes = extract(model)
    pcl = classes["PaintColrLayers"]
    v = pcl.ufo_keys.get("Layers")
    ch = pcl.ci.methods.get("children")
    if v is not None and isinstance(v, ast.ListComp) and norm(v.generators[0].iter) == "self.layers" and ch and any(norm(r.value) == "self.layers" for r in walk_body(ch) if isinstance(r, ast.Return)):
        rr.ok("PaintColrLayers keeps self.layers order in children() and to_ufo_paint")
    else:
        rr.bad(pcl.ufo_fn, pcl.ufo_fn.node, "PaintColrLayers reorders its layers", construct="PaintColrLayers: Layers order")


EMITTED = ["PaintColrLayers", "PaintSolid", "PaintLinearGradient", "PaintRadialGradient", "PaintGlyph", "PaintTransform",
           "PaintTranslate", "PaintScale", "PaintScaleAroundCenter", "PaintScaleUniform", "PaintScaleUniformAroundCenter", "PaintComposite"]
UFO_SPELLING = {"PaintColrLayers": ({"Layers"}, {"NumLayers", "FirstLayerIndex"})}  # ufo2ft takes the list itself
GEOMETRY_KEYS = {
    "PaintLinearGradient": {"x0": "self.p0[0]", "y0": "self.p0[1]", "x1": "self.p1[0]", "y1": "self.p1[1]", "x2": "self.p2[0]", "y2": "self.p2[1]"},
    "PaintRadialGradient": {"x0": "self.c0[0]", "y0": "self.c0[1]", "r0": "self.r0", "x1": "self.c1[0]", "y1": "self.c1[1]", "r1": "self.r1"},
    "PaintGlyph": {"Glyph": "self.glyph"},
    "PaintComposite": {"CompositeMode": "self.mode.name.lower()", "SourcePaint": "self.source.to_ufo_paint(colors)", "BackdropPaint": "self.backdrop.to_ufo_paint(colors)"},
}


@RULES.rule("C01", "R01d", "paint schema: to_ufo_paint keys = otData fields, every field serialised, children() complete", floor=40)
def r01d(model: Model, rr: RuleResult):
    classes = extract(model)
    fmts = otspec.paint_formats()
    for name in EMITTED:
        pc = classes.get(name)
        if pc is None:
            raise AnalysisError(f"paint class {name} not found")
        if pc.format_name != name:
            rr.bad(pc.ci.module, pc.ci.node, f"{name}.format is PaintFormat.{pc.format_name}", construct=f"{name}.format")
            continue
        rec = otspec.fields_by_name("Paint", fmts[name])
        keys = set(pc.ufo_keys) - {"Format"}
        spec = set(rec) - {"PaintFormat"}
        if name in UFO_SPELLING:
            mine, theirs = UFO_SPELLING[name]
            keys = (keys - mine) | theirs if mine <= keys else keys
        if "Format" not in pc.ufo_keys or norm(pc.ufo_keys["Format"]) != "self.format":
            rr.bad(pc.ufo_fn, pc.ufo_fn.node, f"{name}.to_ufo_paint does not emit 'Format': self.format", construct=f"{name}: Format key")
        if keys != spec:
            rr.bad(pc.ufo_fn, pc.ufo_fn.node, f"{name}.to_ufo_paint keys {sorted(keys)} != otData PaintFormat{fmts[name]} fields {sorted(spec)}",
                   construct=f"{name}.to_ufo_paint keys {sorted(keys)}")
        else:
            rr.ok(f"{name}: to_ufo_paint keys == otData PaintFormat{fmts[name]} fields {sorted(spec)}")
        # every dataclass field is read by to_ufo_paint (directly or through a helper that receives self)
        from ..paintmodel import self_reads
        reads = self_reads(pc.ufo_fn, model, 1)
        missing = [f for f, _ in pc.fields if f not in reads]
        if missing:
            rr.bad(pc.ufo_fn, pc.ufo_fn.node, f"{name}.to_ufo_paint never reads field(s) {missing}: they are dropped from the font", construct=f"{name}.to_ufo_paint: unread {missing}")
        else:
            rr.ok(f"{name}: every field {[f for f, _ in pc.fields]} is serialised")
        for k, want in GEOMETRY_KEYS.get(name, {}).items():
            got = norm(pc.ufo_keys.get(k)) if k in pc.ufo_keys else None
            if got == want:
                rr.ok(f"{name}: '{k}' <- {want}")
            else:
                rr.bad(pc.ufo_fn, pc.ufo_keys.get(k, pc.ufo_fn.node), f"{name}.to_ufo_paint stores {got} under '{k}' (expected {want})", construct=f"{name}: '{k}': {got}")
        # children() yields every Paint-typed field
        pf = set(pc.paint_fields())
        ch = pc.children_fields or set()
        if pf and ch != pf:
            rr.bad(pc.ci.module, pc.ci.node, f"{name}.children() yields {sorted(ch)} but the Paint-typed fields are {sorted(pf)}: traversals (colors, bounds, "
                   f"glyph migration) miss a subtree", construct=f"{name}.children(): {sorted(ch)} vs {sorted(pf)}")
        elif pf:
            rr.ok(f"{name}.children() yields {sorted(pf)}")
        # colors() covers own colour fields and every child
        co = pc.colors_reads
        if co is not None:
            need = pf | ({"color"} if any(f == "color" for f, _ in pc.fields) else set()) | ({"stops"} if any(f == "stops" for f, _ in pc.fields) else set())
            if not need <= co:
                rr.bad(pc.ci.module, pc.ci.node, f"{name}.colors() reads {sorted(co)}, missing {sorted(need - co)}: those colours never reach the palette",
                       construct=f"{name}.colors(): missing {sorted(need - co)}")
            else:
                rr.ok(f"{name}.colors() covers {sorted(need)}")
    # colour line
    from ..paintmodel import color_line
    fi, keys, v, sk = color_line(model)
    if keys is None:
        raise AnalysisError("_ufoColorLine does not return a dict literal")
    if sk is not None:
        if sk.get("StopOffset") == f"{v}.stopOffset" and sk.get("Alpha") == f"{v}.color.alpha" and sk.get("PaletteIndex") == f"{v}.color.opaque().index_from(colors)":
            rr.ok("ColorLine: one ColorStop per stop, in order, with StopOffset / opaque palette index / Alpha")
        else:
            rr.bad(fi, fi.node, f"ColorStop record wiring is {sk}", construct="_ufoColorLine: ColorStop dict")
        if set(sk) != {"StopOffset", "PaletteIndex", "Alpha"} or set(keys) != {"ColorStop", "Extend"}:
            rr.bad(fi, fi.node, "ColorLine / ColorStop keys differ from otData ColorLine(Extend, ColorStop[StopOffset, PaletteIndex, Alpha])", construct="_ufoColorLine keys")
        if norm(keys.get("Extend")).endswith(".extend.name.lower()"):
            rr.ok("ColorLine: Extend <- gradient.extend")
        else:
            rr.bad(fi, fi.node, "ColorLine Extend is not the gradient's extend mode", construct=f"Extend: {short(keys.get('Extend'))}")
    else:
        rr.bad_shape(fi, fi.node, "_ufoColorLine does not emit one ColorStop per gradient stop in order", construct="_ufoColorLine: ColorStop")


@RULES.rule("C01", "R01e", "group opacity and stop/shape opacity are encoded (composite SRC_IN over black@alpha; alpha = stop x shape)", floor=7)
def r01e(model: Model, rr: RuleResult):
    fi = model.func("color_glyph", "_painted_layers")
    cfg = cfg_of(fi)
    comp = [c for c in calls_in(fi) if norm(c.func) == "PaintComposite"]
    if len(comp) != 1:
        raise AnalysisError("_painted_layers: PaintComposite(...) not found")
    c = comp[0]
    mode, source, backdrop = kwarg(c, "mode"), kwarg(c, "source"), kwarg(c, "backdrop")
    if mode is not None and norm(mode) == "CompositeMode.SRC_IN":
        rr.ok("group: PaintComposite(mode=SRC_IN)")
    else:
        rr.bad(fi, c, f"group opacity composite uses mode {short(mode)} (SRC_IN keeps the source colours and multiplies by the backdrop alpha)", construct=f"PaintComposite mode={short(mode)}")
    if isinstance(source, ast.Call) and norm(source.func) == "PaintColrLayers" and "child_nodes" in norm(source):
        rr.ok("group: source = PaintColrLayers(children of the group)")
    else:
        rr.bad(fi, c, "group composite source is not the layer list of the group's children", construct=f"PaintComposite source={short(source)}")
    ok = False
    if isinstance(backdrop, ast.Call) and norm(backdrop.func) == "PaintSolid" and backdrop.args and isinstance(backdrop.args[0], ast.Call) and norm(backdrop.args[0].func) == "Color":
        col = backdrop.args[0]
        if len(col.args) == 4 and isinstance(col.args[3], ast.Name):
            names, exprs = expr_closure(cfg, cfg.node_for(c), col.args[3])
            if any('get("opacity"' in norm(e).replace("'", '"') for e in exprs):
                ok = True
    if ok:
        rr.ok("group: backdrop = PaintSolid(Color(0, 0, 0, <the group's opacity attribute>))")
    else:
        rr.bad(fi, c, "group composite backdrop alpha is not the group's opacity attribute", construct=f"PaintComposite backdrop={short(backdrop)}")
    sfi = model.func("color_glyph", "_color_stop")
    rep = [x for x in calls_in(sfi) if callee_tail(x) == "_replace"]
    good = False
    if len(rep) == 1 and kwarg(rep[0], "alpha") is not None:
        scfg = cfg_of(sfi)
        factors = set()

        def mul(e):
            if isinstance(e, ast.BinOp) and isinstance(e.op, ast.Mult):
                mul(e.left)
                mul(e.right)
            else:
                factors.add(norm(e))
        mul(kwarg(rep[0], "alpha"))
        names, exprs = expr_closure(scfg, scfg.node_for(rep[0]), kwarg(rep[0], "alpha"))
        good = len(factors) == 3 and "color.alpha" in factors and sfi.params[1] in factors and any("stop-opacity" in norm(e) for e in exprs)
    if good:
        rr.ok("_color_stop: alpha = colour alpha x stop-opacity x shape opacity")
    else:
        rr.bad(sfi, sfi.node, "stop alpha is not the product of colour alpha, stop-opacity and the shape's opacity", construct="_color_stop: alpha product")
    # shape opacity is threaded: _paint_glyph -> gradient parser -> _common_gradient_parts -> _color_stop; solid fills take it directly
    pfi = model.func("color_glyph", "_paint_glyph")
    pfi0 = pfi
    gcall = [x for x in calls_in(pfi) if isinstance(x.func, ast.Subscript) and "_GRADIENT_INFO" in norm(x.func)]
    if not gcall:
        # the fill may be computed by a function of the same module that _paint_glyph hands its own shape / picosvg to (same names on both sides)
        for c_ in calls_in(pfi):
            cal = model.resolve_call(pfi, c_)
            if cal is not None and cal.module is pfi.module and any(isinstance(x.func, ast.Subscript) and "_GRADIENT_INFO" in norm(x.func) for x in calls_in(cal)):
                ps_ = [x for x in cal.params]
                if len(c_.args) == len(ps_) and not c_.keywords and all(isinstance(a_, ast.Name) and a_.id == p_ for a_, p_ in zip(c_.args, ps_)):
                    pfi = cal
                    gcall = [x for x in calls_in(pfi) if isinstance(x.func, ast.Subscript) and "_GRADIENT_INFO" in norm(x.func)]
                    break
    if not gcall:
        rr.bad_shape(pfi0, pfi0.node, "gradient parser is not called with (config, el, shape bbox, viewBox, glyph width, shape opacity)", construct="_paint_glyph: gradient parser args")
    elif len(gcall) == 1 and norm(gcall[0].args[-1]) == "shape.opacity" and norm(gcall[0].args[2]) == "shape.bounding_box()" and norm(gcall[0].args[3]) == "picosvg.view_box()":
        rr.ok("_paint_glyph: gradient parser receives the shape's bounding box, the viewBox, the glyph width and shape.opacity")
    else:
        rr.bad(pfi, pfi.node, "gradient parser is not called with (config, el, shape bbox, viewBox, glyph width, shape opacity)", construct="_paint_glyph: gradient parser args")
    solid = [x for x in calls_in(pfi) if norm(x.func) == "Color.fromstring"]
    if solid and kwarg(solid[0], "alpha") is not None and norm(kwarg(solid[0], "alpha")) == "shape.opacity" and norm(solid[0].args[0]) == "shape.fill":
        rr.ok("_paint_glyph: solid fill = Color.fromstring(shape.fill, alpha=shape.opacity)")
    else:
        rr.bad(pfi, pfi.node, "solid fill does not take the shape's fill and opacity", construct="_paint_glyph: solid fill")
    pg = [x for x in calls_in(pfi0) if norm(x.func) == "PaintGlyph"]
    # the fill handed to PaintGlyph is the paint computed for this shape: the value of the gradient-parser / solid-fill computation (here or in the helper that holds it)
    fill_ok = False
    if pg and kwarg(pg[0], "paint") is not None:
        pv_ = kwarg(pg[0], "paint")
        if norm(pv_) == "glyph_paint":
            fill_ok = True
        elif isinstance(pv_, ast.Name):
            c0_ = cfg_of(pfi0)
            ds_ = c0_.reaching(c0_.node_for(pg[0]), pv_.id)
            fill_ok = bool(ds_) and all(isinstance(d_.value, ast.Call) and model.resolve_call(pfi0, d_.value) is pfi and pfi is not pfi0 for d_ in ds_) or \
                (bool(ds_) and all(d_.value is not None and ("_GRADIENT_INFO" in norm(d_.value) or "PaintSolid" in norm(d_.value)) for d_ in ds_))
        elif isinstance(pv_, ast.Call) and model.resolve_call(pfi0, pv_) is pfi and pfi is not pfi0:
            fill_ok = True
    if pg and norm(kwarg(pg[0], "glyph")) == "shape.as_path().d" and fill_ok:
        rr.ok("_paint_glyph: PaintGlyph(glyph=the shape's own path, paint=its own fill)")
    elif pg and kwarg(pg[0], "glyph") is not None and norm(kwarg(pg[0], "glyph")) != "shape.as_path().d" and "as_path" in norm(kwarg(pg[0], "glyph")):
        rr.bad(pfi0, pfi0.node, "PaintGlyph is not built from the shape's own outline and fill", construct="_paint_glyph: PaintGlyph")
    else:
        rr.bad_shape(pfi0, pfi0.node, "PaintGlyph is not built from the shape's own outline and fill", construct="_paint_glyph: PaintGlyph")
    for fn in ("_parse_linear_gradient", "_parse_radial_gradient"):
        g = model.func("color_glyph", fn)
        cg = find_calls(g, "_common_gradient_parts")
        if len(cg) == 1 and norm(cg[0].args[-1]) == "shape_opacity" and norm(cg[0].args[0]) == "grad_el":
            rr.ok(f"{fn}: forwards shape_opacity to the colour stops")
        else:
            rr.bad(g, g.node, f"{fn} does not forward shape_opacity to the colour stops", construct=f"{fn}: _common_gradient_parts args")
    cgp = model.func("color_glyph", "_common_gradient_parts")
    cs = find_calls(cgp, "_color_stop")
    if len(cs) == 1 and norm(cs[0].args[-1]) == cgp.params[1]:
        rr.ok("_common_gradient_parts: one _color_stop(stop, shape_opacity) per <stop> in order")
    else:
        rr.bad(cgp, cgp.node, "_common_gradient_parts does not build one stop per <stop> with the shape opacity", construct="_common_gradient_parts: stops")
    # gradient geometry fields are taken from the matching SVG attributes
    lfi = model.func("color_glyph", "_parse_linear_gradient")
    txt = " ".join(norm(st) for st in lfi.body)
    if "p0 = Point(gradient.x1, gradient.y1)" in txt and "p1 = Point(gradient.x2, gradient.y2)" in txt:
        rr.ok("linear gradient: p0=(x1,y1), p1=(x2,y2)")
    else:
        rr.bad(lfi, lfi.node, "linear gradient end points are not (x1,y1)/(x2,y2)", construct="_parse_linear_gradient: p0/p1")
    rfi = model.func("color_glyph", "_parse_radial_gradient")
    txt = " ".join(norm(st) for st in rfi.body)
    if all(s in txt for s in ("c0 = Point(gradient.fx, gradient.fy)", "r0 = gradient.fr", "c1 = Point(gradient.cx, gradient.cy)", "r1 = gradient.r")):
        rr.ok("radial gradient: c0=(fx,fy), r0=fr, c1=(cx,cy), r1=r")
    else:
        rr.bad(rfi, rfi.node, "radial gradient circles are not focal=(fx,fy,fr) / end=(cx,cy,r)", construct="_parse_radial_gradient: circles")


TRANSFORM_CLASSES = {"PaintTransform", "PaintTranslate", "PaintScale", "PaintScaleAroundCenter", "PaintScaleUniform", "PaintScaleUniformAroundCenter",
                     "PaintRotate", "PaintRotateAroundCenter", "PaintSkew", "PaintSkewAroundCenter"}


@RULES.rule("C01", "R-NEST", "at most one transform paint lies above a PaintGlyph (breadth_first's composition order relies on it)", floor=2)
def rnest(model: Model, rr: RuleResult):
    cg = model.mod("color_glyph")
    made = set()
    for fi in cg.functions.values():
        for c in calls_in(fi):
            n = norm(c.func)
            if n in TRANSFORM_CLASSES or n == "transformed":
                made.add((fi.qualname, n))
    if made:
        rr.bad(cg, cg.tree, f"color_glyph.py now builds transform paints {sorted(made)}: a wrapper above a PaintGlyph that is itself re-wrapped by glyph reuse "
               f"would be composed in the wrong order by Paint.breadth_first", construct=f"color_glyph constructs {sorted(made)}")
    else:
        rr.ok("color_glyph.py constructs no transform paint above a PaintGlyph (gradients may carry one below it)")
    wf = model.func("write_font", "_migrate_paths_to_ufo_glyphs._update_paint_glyph")
    sites = [c for c in calls_in(wf) if norm(c.func) == "transformed" and len(c.args) == 2 and isinstance(c.args[1], ast.Call) and norm(c.args[1].func) == "PaintGlyph"]
    others = [c for c in calls_in(wf) if norm(c.func) == "transformed" and c not in sites]
    if len(sites) == 1 and all(len(c.args) == 2 and not (isinstance(c.args[1], ast.Call) and norm(c.args[1].func) == "PaintGlyph") for c in others):
        rr.ok("write_font: exactly one transformed(reuse transform, PaintGlyph(...)) site")
    else:
        rr.bad_shape(wf, wf.node, "the reuse wrapper is no longer the single transform above a PaintGlyph", construct="_update_paint_glyph: transformed(..., PaintGlyph) sites")
    # mutating_traverse only rewrites PaintGlyph nodes in _update_paint_glyph
    first = wf.body[0]
    if isinstance(first, ast.If) and "PaintGlyph.format" in norm(first.test) and any(isinstance(s, ast.Return) for s in first.body):
        rr.ok("_update_paint_glyph leaves every non-PaintGlyph paint untouched")
    else:
        rr.bad(wf, first, "_update_paint_glyph may rewrite paints other than PaintGlyph", construct=short(first, 80))


@RULES.rule("C01", "R01h", "the viewBox -> em map is built from explicit scale/translate literals (rect_to_rect is the identity for an empty source rectangle)", floor=1)
def r01h(model: Model, rr: RuleResult):
    fi = model.func("color_glyph", "scale_viewbox_to_font_metrics")
    r2r = [c for c in calls_in(fi) if callee_tail(c) == "rect_to_rect"]
    if r2r:
        rr.bad(fi, r2r[0], f"{short(r2r[0], 70)}: Affine2D.rect_to_rect returns the identity when the source rectangle is empty, and a zero-width viewBox (zero-advance combining marks, "
               f"`viewBox=\"0 0 0 1200\"`) is empty: such a glyph is no longer scaled to the font's height", construct="scale_viewbox_to_font_metrics: rect_to_rect")
    else:
        rr.ok("scale_viewbox_to_font_metrics does not use rect_to_rect")
