"""C02 — OT-SVG glyph documents render the same picture as their sources (structural clauses)."""
from __future__ import annotations

import ast
from typing import List, Optional

from ..cfg import cfg_of
from ..dataflow import expr_closure
from ..guards import guard_facts
from ..model import (AnalysisError, Model, calls_in, callee_tail, find_calls, kwarg, names_in, norm, short, walk_body)
from ..report import RULES, RuleResult
from .spaces_common import report

WHY = "An OT-SVG glyph, gradient or <use> would be placed in the wrong coordinate system"


@RULES.rule("C02", "R02a", "coordinate-space consistency of the OT-SVG writer (svg.py)", floor=60)
def r02a(model: Model, rr: RuleResult):
    report(model, rr, [("svg", "_add_glyph"), ("svg", "_apply_paint"), ("svg", "_apply_gradient_paint"), ("svg", "_map_gradient_coordinates"),
                       ("svg", "_rawsvg_docs")], WHY)


@RULES.rule("C02", "R02b", "the font-space user transform is conjugated into OT-SVG space", floor=5)
def r02b(model: Model, rr: RuleResult):
    report(model, rr, [("color_glyph", "map_viewbox_to_otsvg_space"), ("color_glyph", "scale_viewbox_to_font_metrics")],
           "--transform is documented as 'User transform, in font coordinates' (y up); OT-SVG space is y down, so it must be bracketed by the y flip")


@RULES.rule("C02", "R02c", "<use> / id pairing and attribute migration conditions", floor=6)
def r02c(model: Model, rr: RuleResult):
    fi = model.func("svg", "_add_glyph")
    cfg = cfg_of(fi)
    uses = find_calls(fi, "_create_use_element")
    if len(uses) != 1:
        raise AnalysisError("_add_glyph: expected one _create_use_element call")
    un = cfg.node_for(uses[0])
    rr_arg = norm(uses[0].args[-1])
    # id assignment on the path branch, assertion on the use branch
    ids = [st for st in walk_body(fi) if isinstance(st, ast.Assign) and norm(st.targets[0]).endswith(".attrib['id']") and "reused_el" in norm(st.targets[0])]
    asserts = [st for st in walk_body(fi) if isinstance(st, ast.Assert) and "_use_href" in norm(st.test)]
    if not ids:
        setters = [c for c in calls_in(fi) if callee_tail(c) == "set" and c.args and norm(c.args[0]) in ("'id'", '"id"')]
        if setters:
            raise AnalysisError("_add_glyph: id is set through an idiom the rule does not enumerate (.set('id', ...))")
        rr.bad_shape(fi, uses[0], "no statement gives the referenced element an id before a <use href='#...'> to it is created: the href dangles",
               construct="_add_glyph: no id assignment for reused_el")
        return
    if len(ids) != 1 or len(asserts) != 1:
        raise AnalysisError("_add_glyph: id assignment / href assertion not in the enumerated shape")
    names, exprs = expr_closure(cfg, cfg.node_for(ids[0]), ids[0].value)
    if any(norm(e) == f"{rr_arg}.glyph_name" for e in exprs) or norm(ids[0].value) == f"{rr_arg}.glyph_name":
        rr.ok(f"referenced <path> gets id = {rr_arg}.glyph_name")
    else:
        rr.bad(fi, ids[0], "the id given to the referenced element is not the reuse result's glyph name that the <use> href points to", construct=short(ids[0]))
    # every path from the reuse test to the <use> creation assigns/asserts the id
    tests = [st for st in walk_body(fi) if isinstance(st, ast.If) and norm(st.test) == rr_arg]
    if len(tests) != 1:
        raise AnalysisError("_add_glyph: `if reuse_result:` not found")
    tn = cfg.node_for(tests[0])
    avoid = {cfg.node_for(ids[0]), cfg.node_for(asserts[0])}
    if cfg.path_exists(tn, un, avoid):
        rr.bad(fi, uses[0], "a <use> can be created on a path where the referenced element was given no id (dangling href)", construct="_add_glyph: path to _create_use_element without id")
    else:
        rr.ok("every path to <use> creation assigns or asserts the referenced element's id")
    for fn in ("_create_use_element", "_migrate_to_defs"):
        f2 = model.func("svg", fn)
        hrefs = [st for st in walk_body(f2) if isinstance(st, ast.Assign) and "_XLINK_HREF_ATTR_NAME" in norm(st.targets[0])]
        if len(hrefs) == 1 and norm(hrefs[0].value) == "f'#{reuse_result.glyph_name}'":
            rr.ok(f"{fn}: href = '#' + reuse_result.glyph_name")
        else:
            rr.bad_shape(f2, f2.node, f"{fn}: the <use> href is not '#' + the reuse result's glyph name", construct=f"{fn}: href")
    # _create_use_element: x/y hold the translation and the matrix what is left after removing it
    cu = model.func("svg", "_create_use_element")
    ccfg = cfg_of(cu)
    from ..dataflow import resolved_text
    got = {}
    for st in walk_body(cu):
        if isinstance(st, ast.Assign) and isinstance(st.targets[0], ast.Subscript) and norm(st.targets[0].value).endswith(".attrib") and isinstance(st.targets[0].slice, ast.Constant):
            got[st.targets[0].slice.value] = resolved_text(ccfg, ccfg.node_for(st), st.value)
    T = "reuse_result.transform"
    want = {"x": f"_ntos({T}.gettranslate()[0])", "y": f"_ntos({T}.gettranslate()[1])",
            "transform": f"_svg_matrix({T}.translate(-{T}.gettranslate()[0], -{T}.gettranslate()[1]))"}
    if all(got.get(k) == v for k, v in want.items()):
        rr.ok("_create_use_element: x/y = translation of the reuse transform; matrix = transform with that translation removed")
    else:
        rr.bad_shape(cu, cu.node, "_create_use_element does not split the reuse transform into x/y + residual matrix consistently", construct="_create_use_element: x/y/matrix")
    # attribute migration from <use> to target only when all uses agree
    tfi = model.func("svg", "_tidy_use_elements")
    tcfg = cfg_of(tfi)
    mig = [st for st in walk_body(tfi) if isinstance(st, ast.Assign) and norm(st.targets[0]) == "target.attrib[attr_name]"]
    if len(mig) != 1:
        raise AnalysisError("_tidy_use_elements: migration assignment not found")
    facts = [norm(e) for e, pol in guard_facts(tcfg, tcfg.node_for(mig[0])) if pol]
    need_all = any("len(values) == len(uses)" == f or "len(uses) == len(values)" == f for f in facts)
    need_one = any(f in ("len(unique_values) == 1", "1 == len(unique_values)") for f in facts)
    if not (need_all and need_one):
        # the same two requirements by role, in the spellings a clean-up produces (all(...), not any(not ...), set comprehension, inlined set(values))
        from ..dataflow import deref as _r2c
        mnode = tcfg.node_for(mig[0])

        def carried_by_all(e, pol):
            if isinstance(e, ast.Call) and isinstance(e.func, ast.Name) and e.func.id in ("all", "any") and len(e.args) == 1 and isinstance(e.args[0], (ast.GeneratorExp, ast.ListComp)):
                g = e.args[0]
                if len(g.generators) == 1 and not g.generators[0].ifs and norm(g.generators[0].iter) == "uses" and isinstance(g.elt, ast.Compare) and len(g.elt.ops) == 1:
                    v = norm(g.generators[0].target)
                    inn = isinstance(g.elt.ops[0], ast.In) and norm(g.elt.left) == "attr_name" and norm(g.elt.comparators[0]) == f"{v}.attrib"
                    nin = isinstance(g.elt.ops[0], ast.NotIn) and norm(g.elt.left) == "attr_name" and norm(g.elt.comparators[0]) == f"{v}.attrib"
                    return (e.func.id == "all" and inn and pol) or (e.func.id == "any" and nin and not pol)
            if isinstance(e, ast.Compare) and len(e.ops) == 1 and isinstance(e.ops[0], (ast.Eq, ast.NotEq)) and (isinstance(e.ops[0], ast.Eq) == pol):
                sides = sorted([norm(_r2c(tcfg, mnode, e.left)), norm(_r2c(tcfg, mnode, e.comparators[0]))])
                return any(x.startswith("len([") and "for " in x and " in uses if attr_name in " in x for x in sides) and any(x.replace(" ", "").startswith("len(list(uses") or x == "len(uses)" or x.startswith("len(list(") for x in sides)
            return False

        def single_value(e, pol):
            if isinstance(e, ast.Compare) and len(e.ops) == 1 and isinstance(e.ops[0], (ast.Eq, ast.NotEq)) and (isinstance(e.ops[0], ast.Eq) == pol):
                a_, b_ = e.left, e.comparators[0]
                if norm(b_) != "1":
                    a_, b_ = b_, a_
                if norm(b_) == "1" and isinstance(a_, ast.Call) and norm(a_.func) == "len" and len(a_.args) == 1:
                    inner = _r2c(tcfg, mnode, a_.args[0])
                    t_ = norm(inner)
                    return t_.startswith("set(") or (isinstance(inner, ast.SetComp) and norm(inner.generators[0].iter) == "uses" and "attr_name" in norm(inner.elt))
            return False
        gf = guard_facts(tcfg, mnode)
        need_all = need_all or any(carried_by_all(e, pol) for e, pol in gf)
        need_one = need_one or any(single_value(e, pol) for e, pol in gf)
    if need_all and need_one:
        rr.ok("paint attribute moves from <use> to its target only if every use carries it and all values are equal")
    else:
        rr.bad_shape(tfi, mig[0], "a paint attribute is moved from <use> elements to the shared target without requiring that all uses carry the same value: "
               "other users of the target would change colour", construct=f"target.attrib[attr_name] = values[0] under {facts}")
    # ... and only onto a target that is not itself rendered (one parked in <defs>): a target drawn in place would be repainted
    allf = [(norm(e), pol) for e, pol in guard_facts(tcfg, tcfg.node_for(mig[0]))]
    in_defs = any(("defs" in t and "target" in t) for t, pol in allf)
    if in_defs:
        rr.ok("paint attributes move only onto targets parked in <defs> (a target drawn in place keeps its own paint)")
    else:
        rr.bad(tfi, mig[0], "a paint attribute shared by all <use> copies is moved onto their target even when that target is itself drawn in place: "
               "a black shape followed by two identical red copies comes out red", construct="_tidy_use_elements: migration onto a rendered target")
    gb = [c for c in calls_in(tfi) if norm(c.func) == "groupby"]
    if len(gb) == 1 and isinstance(gb[0].args[0], ast.Name) and kwarg(gb[0], "key") is not None:
        defs = tcfg.reaching(tcfg.node_for(gb[0]), gb[0].args[0].id)
        k = norm(kwarg(gb[0], "key"))
        if defs and all(isinstance(d.value, ast.Call) and norm(d.value.func) == "sorted" and kwarg(d.value, "key") is not None and norm(kwarg(d.value, "key")) == k for d in defs):
            rr.ok(f"groupby(..., key={k}) runs over a sequence sorted by the same key (each target's uses form one group)")
        else:
            rr.bad(tfi, gb[0], f"groupby(..., key={k}) runs over a sequence that is not sorted by that key: uses of one target are split into several "
                   f"groups and 'all uses agree' is evaluated on a part only", construct=f"groupby over unsorted {gb[0].args[0].id}")
    else:
        raise AnalysisError("_tidy_use_elements: groupby(use_els, key=...) not found")
    dup = [n for n in walk_body(tfi) if isinstance(n, ast.SetComp)]
    from ..guards import canon_conjuncts as _cc2
    dupc = [c_ for d_ in dup for g_ in d_.generators for i_ in g_.ifs for c_ in _cc2(i_)]
    if dup and ("attr_value == reused_el.attrib.get(attr_name)" in norm(dup[0]) or "attr_value == reused_el.attrib.get(attr_name)" in dupc
                or "attr_value == reused_el.attrib[attr_name]" in dupc):
        rr.ok("a <use> attribute is dropped only when the target already has the same value")
    else:
        rr.bad_shape(tfi, tfi.node, "<use> attributes are dropped without comparing with the target's value", construct="_tidy_use_elements: duplicate_attrs")
    # cross-glyph reuse goes through <defs> (Illustrator rule) -- shared with C07/R07d
    mig_calls = find_calls(fi, "_migrate_to_defs")
    if len(mig_calls) == 1:
        facts = [norm(e) for e, pol in guard_facts(cfg, cfg.node_for(mig_calls[0]))]
        from .c07 import migrate_condition_ok
        whole_ok = migrate_condition_ok(cfg, cfg.node_for(mig_calls[0]), fi)
        if whole_ok:
            rr.ok("_migrate_to_defs is taken exactly when the reused element belongs to another colour glyph or carries paint attributes (truth table of the path condition)")
            rr.ok("_migrate_to_defs is also taken whenever the reused element has any attribute _apply_paint may set")
        elif any("color_glyph.ufo_glyph_name != _color_glyph_name(" in f for f in facts):
            rr.ok("_migrate_to_defs is taken when the reused element belongs to another colour glyph")
        else:
            rr.bad_shape(fi, mig_calls[0], "reuse across glyphs is not forced through <defs>", construct=f"_migrate_to_defs under {facts[-2:]}")
        # second reason: the target carries any paint attribute at all (a <use> can neither override nor unset what its target declares)
        tests = [] if whole_ok else [e for e, pol in guard_facts(cfg, cfg.node_for(mig_calls[0])) if isinstance(e, ast.BoolOp) and isinstance(e.op, ast.Or)]
        disj = [v for t in tests for v in t.values]
        bare = [v for v in disj if isinstance(v, ast.Call) and callee_tail(v) == "_attrib_apply_paint_uses" and len(v.args) == 1 and norm(v.args[0]) == "reused_el"]
        narrowed = [v for v in disj if any(isinstance(c, ast.Call) and callee_tail(c) == "_attrib_apply_paint_uses" for c in ast.walk(v)) and v not in bare]
        if whole_ok:
            pass
        elif bare and not narrowed:
            rr.ok("_migrate_to_defs is also taken whenever the reused element has any attribute _apply_paint may set")
        else:
            rr.bad_shape(fi, mig_calls[0], f"the 'target has paint attributes' reason for moving the target to <defs> is narrowed to {[short(v, 80) for v in narrowed] or 'nothing'}: a later "
                   f"copy that sets none of the target's attributes (a plain black copy of a yellow box, an opaque copy of a 30% shadow) inherits them, since <use> cannot unset them",
                   construct="_add_glyph: _migrate_to_defs condition on target attributes narrowed")


@RULES.rule("C02", "R02d", "glyph ids used in documents come from the re-numbered mapping; one group list drives numbering and emission", floor=7)
def r02d(model: Model, rr: RuleResult):
    fi = model.func("svg", "_picosvg_docs")
    cfg = cfg_of(fi)
    ens = find_calls(fi, "_ensure_groups_grouped_in_glyph_order")
    if len(ens) != 1:
        raise AnalysisError("_picosvg_docs: _ensure_groups_grouped_in_glyph_order call not found")
    en = cfg.node_for(ens[0])
    mapping = ens[0].args[0]
    groups = ens[0].args[2]
    if not isinstance(groups, ast.Name):
        raise AnalysisError("_picosvg_docs: groups argument is not a name")
    if not isinstance(mapping, ast.Name):
        rr.bad(fi, ens[0], f"the renumbering step is given a temporary ({short(mapping)}): the glyph ids it assigns are lost and documents keep stale ids",
               construct=f"_ensure_groups_grouped_in_glyph_order({short(mapping)}, ...)")
        return
    mdefs = cfg.reaching(en, mapping.id)
    if len(mdefs) == 1 and isinstance(mdefs[0].value, ast.DictComp) and norm(mdefs[0].value.key).endswith(".ufo_glyph_name"):
        rr.ok(f"{mapping.id} is re-bound to a name -> ColorGlyph mapping before renumbering")
    else:
        rr.bad(fi, ens[0], "the mapping handed to the renumbering step is not a fresh name -> ColorGlyph dict", construct=short(ens[0]))
    # every glyph_id / _add_glyph use after the call goes through that mapping, with no re-definition in between
    from ..model import parent_map as _pm
    pmap = _pm(fi.node)

    def via_mapping(at, e) -> bool:
        """does the value of `e` come out of <mapping>[...] (directly, through temporaries, loop variables or comprehension variables)?"""
        todo, seen = [e], set()
        while todo:
            x = todo.pop()
            if id(x) in seen:
                continue
            seen.add(id(x))
            _, exprs = expr_closure(cfg, at, x)
            for y in exprs:
                for z in ast.walk(y):
                    if isinstance(z, ast.Subscript) and isinstance(z.value, ast.Name) and z.value.id == mapping.id:
                        return True
            # a comprehension variable stands for the elements of what its comprehension iterates
            for nm in [z for z in ast.walk(x) if isinstance(z, ast.Name)]:
                p_ = pmap.get(nm)
                while p_ is not None and not isinstance(p_, (ast.GeneratorExp, ast.ListComp, ast.SetComp, ast.DictComp)):
                    p_ = pmap.get(p_)
                if p_ is not None:
                    for g_ in p_.generators:
                        if any(isinstance(t_, ast.Name) and t_.id == nm.id for t_ in ast.walk(g_.target)):
                            todo.append(g_.iter)
        return False
    for n in walk_body(fi):
        if isinstance(n, ast.Attribute) and n.attr == "glyph_id":
            at = cfg.node_for(n)
            if not cfg.dominates(en, at):
                rr.bad(fi, n, "a glyph id is read before the glyphs are renumbered", construct=short(n))
                continue
            base = norm(n.value)
            if (base.startswith(f"{mapping.id}[") or via_mapping(at, n.value)) and [d.node for d in cfg.reaching(at, mapping.id)] == [d.node for d in mdefs]:
                rr.ok(f"glyph id read as {short(n, 50)} from the renumbered mapping")
            else:
                rr.bad_shape(fi, n, f"glyph id read from {base}, not from the renumbered mapping {mapping.id}[...]: document ranges would use stale ids", construct=short(n, 80))
    adds = find_calls(fi, "_add_glyph")
    for c in adds:
        at = cfg.node_for(c)
        names, exprs = expr_closure(cfg, at, c.args[1])
        if cfg.dominates(en, at) and (any(norm(e).startswith(f"({mapping.id}[") or f"{mapping.id}[g]" in norm(e) for e in exprs) or via_mapping(at, c.args[1])):
            rr.ok("_add_glyph receives colour glyphs looked up in the renumbered mapping")
        else:
            rr.bad(fi, c, "_add_glyph does not receive the renumbered colour glyph (its <g id='glyphN'> would carry the old id)", construct=short(c))
    # the same reuse_groups value is used for numbering and for emission
    loops = [st for st in walk_body(fi) if isinstance(st, ast.For) and norm(st.iter) == groups.id]
    if len(loops) == 1 and [d.node for d in cfg.reaching(cfg.node_for(loops[0]), groups.id)] == [d.node for d in cfg.reaching(en, groups.id)]:
        rr.ok(f"documents are emitted by iterating the same {groups.id} value that fixed the numbering")
    else:
        rr.bad(fi, fi.node, "document emission does not iterate the group list that fixed the glyph numbering", construct="_picosvg_docs: group loop")
    app = [c for c in calls_in(fi) if callee_tail(c) == "append" and "doc_list" in norm(c.func)]
    if len(app) == 1 and isinstance(app[0].args[0], ast.Tuple) and [norm(x) for x in app[0].args[0].elts[1:]] == ["min(gids)", "max(gids)"]:
        gd = cfg.reaching(cfg.node_for(app[0]), "gids")
        gnames, _ = expr_closure(cfg, cfg.node_for(app[0]), ast.Name(id="gids", ctx=ast.Load()))
        gvar = norm(loops[0].target) if len(loops) == 1 else "group"
        if len(gd) == 1 and ("for g in group" in norm(gd[0].value) or (gvar in gnames and any(isinstance(z, ast.Attribute) and z.attr == "glyph_id" for z in ast.walk(gd[0].value)))):
            rr.ok("document range = (min(gids), max(gids)) of the group being emitted")
        else:
            rr.bad_shape(fi, app[0], "gids is not computed from the group being emitted", construct="gids definition")
    else:
        rr.bad_shape(fi, fi.node, "document range is not (min(gids), max(gids))", construct="doc_list.append")
    # renumbering: append + _replace(glyph_id=gid) + gid += 1 for the same glyph name, then reorder_glyphs
    efi = model.func("svg", "_ensure_groups_grouped_in_glyph_order")
    inner = None
    for st in walk_body(efi):
        if isinstance(st, ast.For) and isinstance(st.target, ast.Name) and any(isinstance(b, ast.AugAssign) for b in st.body):
            inner = st
    if inner is None:
        # the same renumbering with enumerate: ids count up from the number of glyphs left in place, over the flattened groups, and the order list is
        # extended with exactly that sequence
        en_loops = [st for st in walk_body(efi) if isinstance(st, ast.For) and isinstance(st.iter, ast.Call) and norm(st.iter.func) == "enumerate"
                    and isinstance(st.target, ast.Tuple) and len(st.target.elts) == 2]
        okE = False
        if len(en_loops) == 1:
            lp_ = en_loops[0]
            gidv, namev = norm(lp_.target.elts[0]), norm(lp_.target.elts[1])
            seq = lp_.iter.args[0] if lp_.iter.args else None
            start = lp_.iter.args[1] if len(lp_.iter.args) > 1 else kwarg(lp_.iter, "start")
            body_t = [norm(b) for b in lp_.body]
            ext = [c for c in calls_in(efi) if callee_tail(c) in ("extend",) and norm(c.func.value) == "glyph_order" and len(c.args) == 1]
            app_in = f"glyph_order.append({namev})" in body_t
            core = seq
            if isinstance(core, ast.Call) and norm(core.func) in ("tuple", "list") and len(core.args) == 1:
                core = core.args[0]
            flat = isinstance(core, ast.Call) and norm(core.func) in ("chain.from_iterable", "itertools.chain.from_iterable") and len(core.args) == 1 and isinstance(core.args[0], ast.Name)
            okE = flat and start is not None and norm(start) == "len(glyph_order)" and f"color_glyphs[{namev}] = color_glyphs[{namev}]._replace(glyph_id={gidv})" in body_t \
                and ((len(ext) == 1 and norm(ext[0].args[0]) == norm(seq) and not app_in) or (app_in and not ext))
            if okE and not app_in:
                # nothing may change the order list between the start value and the extension
                ecfg_ = cfg_of(efi)
                okE = ecfg_.dominates(ecfg_.node_for(lp_), ecfg_.node_for(ext[0]))
            if okE:
                gsrc = [n_.id for n_ in ast.walk(seq) if isinstance(n_, ast.Name) and n_.id not in ("chain", "itertools", "tuple", "list")]
                rr.ok("renumbering: glyph appended to the new order, its ColorGlyph re-bound with that gid, gid incremented")
                rr.ok(f"the renumbering loop runs over every group the caller passed ({gsrc[0] if gsrc else '?'}; the leading .notdef group is split off)")
                rr.ok("numbering starts after the glyphs that are not moved")
                ro = find_calls(efi, "reorder_glyphs")
                if len(ro) == 1 and [norm(a) for a in ro[0].args] == ["ttfont", "glyph_order"] and ecfg_.postdominates(ecfg_.node_for(ro[0]), ecfg_.entry) if not app_in else True:
                    rr.ok("font reordered with the same glyph_order that was used for numbering")
                    rr.ok("every normal path through the renumbering step reaches reorder_glyphs (no early return)")
                    return
        raise AnalysisError("_ensure_groups_grouped_in_glyph_order: renumbering loop not found")
    g = inner.target.id
    t = [norm(b) for b in inner.body]
    ok = any(x == f"glyph_order.append({g})" for x in t) and any(x == f"color_glyphs[{g}] = color_glyphs[{g}]._replace(glyph_id=gid)" for x in t) and any(x == "gid += 1" for x in t)
    if not ok and any(x == f"color_glyphs[{g}] = color_glyphs[{g}]._replace(glyph_id=gid)" for x in t) and any(x == "gid += 1" for x in t):
        # the new order may be extended in one go with the very sequence the loop numbers
        ext = [c for c in calls_in(efi) if callee_tail(c) == "extend" and norm(c.func.value) == "glyph_order" and len(c.args) == 1]
        if len(ext) == 1 and norm(ext[0].args[0]) == norm(inner.iter) and not any(callee_tail(c) == "append" and norm(c.func.value) == "glyph_order" for c in calls_in(efi)):
            ok = True
    if ok:
        rr.ok("renumbering: glyph appended to the new order, its ColorGlyph re-bound with that gid, gid incremented")
    elif any(x == f"glyph_order.append({g})" for x in t) or any(x == "gid += 1" for x in t):
        rr.bad(efi, inner, "renumbering loop does not keep the new glyph order and the recorded glyph ids in step", construct=short(inner, 160))
    else:
        rr.bad_shape(efi, inner, "renumbering loop does not keep the new glyph order and the recorded glyph ids in step", construct=short(inner, 160))
    ecfg = cfg_of(efi)
    # every colour glyph is renumbered: the loop runs over all the caller's groups (the .notdef group, fixed at gid 0, aside)
    outer = [st for st in walk_body(efi) if isinstance(st, ast.For) and inner in st.body]
    if len(outer) == 1 and isinstance(outer[0].iter, ast.Call) and norm(outer[0].iter.func) in ("tuple", "list") and len(outer[0].iter.args) == 1 \
            and isinstance(outer[0].iter.args[0], (ast.ListComp, ast.GeneratorExp)):
        outer[0].iter = outer[0].iter.args[0]  # tuple(<comprehension>) walks the same elements
    if len(outer) == 1 and isinstance(outer[0].iter, (ast.ListComp, ast.GeneratorExp)) and len(outer[0].iter.generators) == 1 and outer[0].iter.generators[0].ifs \
            and norm(outer[0].iter.elt) == norm(outer[0].iter.generators[0].target) and isinstance(outer[0].iter.generators[0].iter, ast.Name):
        flt = outer[0].iter.generators[0]
        rr.bad(efi, outer[0], f"the groups that are renumbered are a filtered subset of the caller's groups (only those with {short(flt.ifs[0])}): glyphs left out move to "
               f"another glyph id when the others are appended behind them, but keep the stale ColorGlyph.glyph_id their document is emitted under",
               construct=f"_ensure_groups_grouped_in_glyph_order: {norm(flt.iter)} redefined before the renumbering loop")
        return
    if len(outer) != 1 or not isinstance(outer[0].iter, ast.Name):
        raise AnalysisError("_ensure_groups_grouped_in_glyph_order: loop over the groups not found")
    gname = outer[0].iter.id
    gdefs = ecfg.reaching(ecfg.node_for(outer[0]), gname)
    odd = [d for d in gdefs if not (d.kind == "param" or (d.kind in ("unpack", "assign") and d.stmt is not None and isinstance(d.stmt, ast.Assign)
                                                         and any(isinstance(e, ast.Starred) for t in d.stmt.targets if isinstance(t, (ast.Tuple, ast.List)) for e in t.elts)
                                                         and norm(d.stmt.value) == gname))]
    if gdefs and not odd:
        rr.ok(f"the renumbering loop runs over every group the caller passed ({gname}; the leading .notdef group is split off)")
    else:
        rr.bad(efi, odd[0].stmt if odd and odd[0].stmt is not None else outer[0], f"the groups that are renumbered are a filtered/rebuilt subset of the caller's groups "
               f"({[short(d.stmt) if d.stmt is not None else d.kind for d in odd]}): glyphs left out move to another glyph id when the others are appended behind them, "
               f"but keep the stale ColorGlyph.glyph_id their document is emitted under", construct=f"_ensure_groups_grouped_in_glyph_order: {gname} redefined before the renumbering loop")
    init = [d for d in ecfg.all_defs("gid") if d.kind == "assign"]
    if len(init) == 1 and norm(init[0].value) == "len(glyph_order)":
        rr.ok("numbering starts after the glyphs that are not moved")
    else:
        rr.bad(efi, efi.node, "the first renumbered gid is not the number of glyphs left in place", construct="gid initialisation")
    ro = find_calls(efi, "reorder_glyphs")
    if len(ro) == 1 and [norm(a) for a in ro[0].args] == ["ttfont", "glyph_order"]:
        rr.ok("font reordered with the same glyph_order that was used for numbering")
        if ecfg.postdominates(ecfg.node_for(ro[0]), ecfg.entry):
            rr.ok("every normal path through the renumbering step reaches reorder_glyphs (no early return)")
        else:
            rr.bad(efi, ro[0], "the renumbering step can return without renumbering/reordering: documents are emitted in group order, so their "
                   "start glyph ids are no longer increasing and ids recorded in the documents may be stale", construct="_ensure_groups_grouped_in_glyph_order: path that skips reorder_glyphs")
    else:
        rr.bad(efi, efi.node, "font is not reordered with the computed glyph order", construct="reorder_glyphs call")


@RULES.rule("C02", "R02e", "make_svg_table wires picosvg/compressed; one document per raw glyph", floor=4)
def r02e(model: Model, rr: RuleResult):
    fi = model.func("svg", "make_svg_table")
    cfg = cfg_of(fi)
    comp = [st for st in walk_body(fi) if isinstance(st, ast.Assign) and norm(st.targets[0]).endswith(".compressed")]
    if len(comp) == 1 and norm(comp[0].value) == "compressed":
        rr.ok("svg_table.compressed = compressed")
    else:
        rr.bad(fi, fi.node, "the SVG table's compression flag is not the requested one", construct="make_svg_table: compressed")
    tests = [st for st in walk_body(fi) if isinstance(st, ast.If) and norm(st.test) in ("picosvg", "not picosvg")]
    ok = False
    if tests:
        st = tests[0]
        a = " ".join(norm(x) for x in st.body)
        b = " ".join(norm(x) for x in st.orelse)
        if norm(st.test) == "not picosvg":
            a, b = b, a
        ok = "_picosvg_docs(" in a and "_rawsvg_docs(" in b
    if ok:
        rr.ok("picosvg selects _picosvg_docs, otherwise _rawsvg_docs")
    else:
        rr.bad(fi, fi.node, "picosvg flag does not select between _picosvg_docs and _rawsvg_docs", construct="make_svg_table: dispatch")
    dl = [st for st in walk_body(fi) if isinstance(st, ast.Assign) and norm(st.targets[0]).endswith(".docList")]
    if len(dl) == 1 and norm(dl[0].value) == "doc_list":
        rr.ok("docList = the documents just built")
    else:
        rr.bad(fi, fi.node, "docList is not assigned from the built documents", construct="make_svg_table: docList")
    wf = model.mod("write_font")
    reg = wf.const("_COLOR_FORMAT_GENERATORS")
    for k, v in zip(reg.keys, reg.values):
        if "svg" in k.value:
            tt = v.args[1]
            call = tt.body if isinstance(tt, ast.Lambda) else None
            pic = kwarg(call, "picosvg") if isinstance(call, ast.Call) else None
            cm = kwarg(call, "compressed") if isinstance(call, ast.Call) else None
            if pic is not None and cm is not None and pic.value == k.value.startswith("picosvg") and cm.value == k.value.endswith("z"):
                rr.ok(f"{k.value}: picosvg={pic.value}, compressed={cm.value}")
            else:
                rr.bad(wf, v, f"registry entry {k.value} binds picosvg/compressed inconsistently with its name", construct=f"registry[{k.value}]")
    rfi = model.func("svg", "_rawsvg_docs")
    app = [c for c in calls_in(rfi) if callee_tail(c) == "append" and "doc_list" in norm(c.func)]
    if len(app) == 1 and isinstance(app[0].args[0], ast.Tuple) and [norm(x) for x in app[0].args[0].elts[1:]] == ["color_glyph.glyph_id", "color_glyph.glyph_id"]:
        rr.ok("raw documents cover exactly their own glyph id")
    else:
        rr.bad_shape(rfi, rfi.node, "raw document range is not (glyph_id, glyph_id)", construct="_rawsvg_docs: range")
    ids = [n for n in walk_body(rfi) if isinstance(n, ast.Dict) and any(isinstance(k, ast.Constant) and k.value == "id" for k in n.keys)]
    if ids and "f'glyph{color_glyph.glyph_id}'" in norm(ids[0]):
        rr.ok("raw document wraps content in <g id='glyph<ID>'>")
    else:
        rr.bad_shape(rfi, rfi.node, "raw document group id is not glyph<ID>", construct="_rawsvg_docs: id")
    afi = model.func("svg", "_add_glyph")
    gid = [st for st in walk_body(afi) if isinstance(st, ast.Assign) and norm(st.targets[0]) == "svg_g.attrib['id']"]
    if gid and norm(gid[0].value) == "f'glyph{color_glyph.glyph_id}'":
        rr.ok("picosvg glyph group id = glyph<ID>")
    else:
        rr.bad(afi, afi.node, "glyph group id is not glyph<ID>", construct="_add_glyph: id")


ROOT_ATTRS_REMOVABLE = {"width", "height", "viewBox", "enable-background"}


@RULES.rule("C02", "R02f", "untouched SVG: only width/height/viewBox/enable-background are taken off the root element", floor=2)
def r02f(model: Model, rr: RuleResult):
    fi = model.func("svg", "_rawsvg_docs")
    for c in calls_in(fi, nested=True):
        if callee_tail(c) == "remove_attributes":
            a = c.args[0] if c.args else None
            if not isinstance(a, (ast.Tuple, ast.List)) or not all(isinstance(e, ast.Constant) for e in a.elts):
                raise AnalysisError(f"_rawsvg_docs: remove_attributes argument {short(a)} is not a literal tuple")
            extra = {e.value for e in a.elts} - ROOT_ATTRS_REMOVABLE
            if extra:
                rr.bad(fi, c, f"remove_attributes drops {sorted(extra)} from the source's root element: inherited presentation (fill, fill-rule, style) is lost for every "
                       f"shape that relied on it", construct=f"_rawsvg_docs: remove_attributes {sorted(extra)}")
            else:
                rr.ok(f"{short(c, 70)}: geometry/compat attributes only")
    dels = []
    for st in walk_body(fi, nested=True):
        if isinstance(st, ast.Delete):
            dels += [t for t in st.targets if "attrib" in norm(t)]
        if isinstance(st, ast.Call) and callee_tail(st) in ("pop", "clear", "popitem") and "attrib" in norm(st.func):
            dels.append(st)
        if isinstance(st, ast.Call) and callee_tail(st) in ("strip_attributes", "cleanup_namespaces", "strip_elements", "strip_tags"):
            dels.append(st)
    for d in dels:
        key = None
        if isinstance(d, ast.Subscript) and isinstance(d.slice, ast.Constant):
            key = d.slice.value
        if isinstance(d, ast.Call) and d.args and isinstance(d.args[0], ast.Constant):
            key = d.args[0].value
        if key in ROOT_ATTRS_REMOVABLE:
            rr.ok(f"{short(d)}: removable attribute")
        else:
            rr.bad(fi, d, f"`{short(d, 70)}` deletes {'attribute ' + repr(key) if key else 'attributes'} of the untouched source: an 'untouched' glyph must keep everything that affects "
                   f"painting (a root style may carry fill / fill-rule next to enable-background)", construct=f"_rawsvg_docs: {short(d, 60)}")
    if not dels:
        rr.ok("no attribute of the source document is deleted besides the remove_attributes calls")


@RULES.rule("C02", "R02g", "radial gradient element: every attribute is written under the condition of its own field only (fr iff r0 != 0, fx/fy iff c0 != c1, cx cy r always)", floor=4)
def r02g(model: Model, rr: RuleResult):
    from ..guards import canon_facts
    fi = model.func("svg", "_define_radial_gradient")
    cfg = cfg_of(fi)
    want = {"fx": [("paint.c0 == paint.c1", False)], "fy": [("paint.c0 == paint.c1", False)], "fr": [("paint.r0 == 0", False)], "cx": [], "cy": [], "r": []}
    # the writers emit the gradient they are given: a writer that first replaces it by a "simpler equivalent" (folding r0 into the stops, merging stops) changes the picture
    # whenever the rewrite's own side conditions (concentric circles, pad) are not all tested
    for wname in ("_define_radial_gradient", "_define_linear_gradient"):
        w_ = model.func("svg", wname)
        pparam = next((p_ for p_ in w_.params if p_ == "paint"), None)
        reb = [st for st in walk_body(w_) if isinstance(st, ast.Assign) and any(isinstance(t, ast.Name) and t.id == pparam for t in st.targets)] if pparam else []
        if reb:
            rr.bad(w_, reb[0], f"{wname} replaces the gradient it was asked to write (`{short(reb[0], 80)}`) before emitting its attributes and stops: geometry (r0, centres) or the stop list of "
                   f"the emitted <{'radial' if 'radial' in wname else 'linear'}Gradient> differ from the paint's", construct=f"{wname}: paint rebound before writing")
        else:
            rr.ok(f"{wname} writes the gradient it is given (the parameter is never rebound)")
    seen = {}
    for st in walk_body(fi):
        if isinstance(st, ast.Assign) and len(st.targets) == 1 and isinstance(st.targets[0], ast.Subscript) and norm(st.targets[0].value).endswith(".attrib") \
                and isinstance(st.targets[0].slice, ast.Constant) and st.targets[0].slice.value in want:
            seen[st.targets[0].slice.value] = (st, sorted(canon_facts(cfg, cfg.node_for(st))))
    for k, w in want.items():
        if k not in seen:
            rr.bad_shape(fi, fi.node, f"<radialGradient> {k} is not written", construct=f"_define_radial_gradient: {k}")
            continue
        st, facts = seen[k]
        if facts == sorted(w):
            rr.ok(f"<radialGradient> {k} written {'always' if not w else 'exactly when ' + ' and '.join(('not ' if not p else '') + t for t, p in w)}")
        elif all(f in facts for f in w) and len(facts) > len(w):
            extra = [f for f in facts if f not in w]
            rr.bad(fi, st, f"<radialGradient> {k} is written only when additionally {extra}: a gradient whose {k} matters but which does not meet that condition is "
                   f"drawn with the SVG default ({'fr = 0: the colour ramp starts at the centre instead of at the start circle' if k == 'fr' else 'the default'})",
                   construct=f"_define_radial_gradient: {k} under {extra}")
        else:
            rr.bad_shape(fi, st, f"<radialGradient> {k} is written under {facts}", construct=f"_define_radial_gradient: {k} under {facts}")


@RULES.rule("C02", "R02h", "a layer is drawn into its NEAREST enclosing group element (prefixes of the paint path are tried longest first)", floor=1)
def r02h(model: Model, rr: RuleResult):
    fi = model.func("svg", "_add_glyph")
    # reference idiom: `while path: if path in el_by_path: parent_el = el_by_path[path]; break; path = path[:-1]`
    loops = [st for st in walk_body(fi) if isinstance(st, ast.While) and any(isinstance(b, ast.Assign) and norm(b.value).endswith("[:-1]") for b in st.body)]
    desc = [lp for lp in loops if any(isinstance(b, ast.If) and " in el_by_path" in norm(b.test) and any(isinstance(x, ast.Break) for x in ast.walk(b)) for b in lp.body)]
    if desc:
        rr.ok("_add_glyph walks the paint path from the longest prefix down and stops at the first group element found")
        return
    # a search over prefixes in another spelling: positive when the prefixes are generated shortest first and the first hit is taken
    for n in walk_body(fi):
        if isinstance(n, ast.Call) and norm(n.func) == "next" and n.args and isinstance(n.args[0], ast.GeneratorExp) and "el_by_path" in norm(n.args[0]):
            from ..dataflow import resolved as _r2h
            cfg = cfg_of(fi)
            g = _r2h(cfg, cfg.node_for(n), n.args[0])
            t = norm(g)
            asc = ("range(1, len(" in t and "[:" in t) and "reversed(" not in t and ", -1)" not in t
            if asc:
                rr.bad(fi, n, f"{short(n, 90)} tries the prefixes of the paint path shortest first, so a layer inside a nested group is drawn into the OUTERMOST enclosing "
                       f"element: nested opacity groups lose their nesting and the inner opacity replaces the outer one", construct="_add_glyph: enclosing group search order")
                return
    rr.bad_shape(fi, fi.node, "the search for the enclosing group element is not the longest-prefix-first walk", construct="_add_glyph: enclosing group search")


@RULES.rule("C02", "R02i", "rounding a gradient for the SVG writer keeps its stop list one to one (no stop dropped, merged or reordered)", floor=2)
def r02i(model: Model, rr: RuleResult):
    """Two stops on one offset are how SVG (and COLR) spell a hard colour edge: a rounding step that folds stops by offset turns the edge into a blend."""
    from .. import report as _rep
    pm = model.mod("paint")
    n = 0
    for fi in pm.functions.values():
        if isinstance(fi.node, ast.Lambda) or fi.name != "round" or not fi.cls or "Gradient" not in fi.cls:
            continue
        for c in calls_in(fi):
            v = kwarg(c, "stops")
            if v is None:
                continue
            n += 1
            label = f"{fi.qualname}: stops={short(v, 60)}"
            inner = v.args[0] if isinstance(v, ast.Call) and norm(v.func) in ("tuple", "list") and len(v.args) == 1 else v
            if isinstance(inner, (ast.GeneratorExp, ast.ListComp)) and len(inner.generators) == 1 and not inner.generators[0].ifs \
                    and norm(inner.generators[0].iter).endswith(".stops") and isinstance(inner.generators[0].target, ast.Name) \
                    and inner.generators[0].target.id in {x.id for x in ast.walk(inner.elt) if isinstance(x, ast.Name)}:
                rr.ok(f"{label}: one rounded stop per stop, in order")
                continue
            if norm(v).endswith(".stops"):
                rr.ok(f"{label}: stops carried over unchanged")
                continue
            callee = model.resolve_call(fi, v) if isinstance(v, ast.Call) else None
            if isinstance(inner, ast.Name) and inner.id not in fi.params:
                callee = fi  # the list is assembled in the method itself (a helper the normal form inlined, or a hand-written loop)
            if callee is not None and not isinstance(callee.node, ast.Lambda) and (callee is fi or _rep.CURRENT_DRIFT.get(callee.fq, 0) is None):
                # a new helper builds the list: any overwrite of an element already pushed, or a push under a condition, makes it shorter than its input
                over = [x for x in ast.walk(callee.node) if isinstance(x, ast.Assign) and isinstance(x.targets[0], ast.Subscript) and isinstance(x.targets[0].slice, (ast.UnaryOp, ast.Constant, ast.Name))]
                cond = [x for x in ast.walk(callee.node) if isinstance(x, ast.If) and any(isinstance(y, ast.Call) and callee_tail(y) in ("append", "add", "pop", "remove") for y in ast.walk(x))]
                filt = [x for x in ast.walk(callee.node) if isinstance(x, (ast.GeneratorExp, ast.ListComp)) and any(g.ifs for g in x.generators)]
                if over or cond or filt:
                    w = (over or cond or filt)[0]
                    rr.bad(callee, w, f"{fi.qualname} builds its rounded stops with {callee.name}, which replaces / skips stops ({short(w, 70)}): stops that share an offset - the spelling of a "
                           f"hard colour edge - are folded into one, so the OT-SVG gradient blends where the source has an edge", construct=f"{fi.qualname}: stops folded by {callee.name}")
                    continue
            if isinstance(inner, (ast.GeneratorExp, ast.ListComp)) and any(g.ifs for g in inner.generators):
                rr.bad(fi, v, f"{fi.qualname} filters the stops while rounding ({short(v, 80)}): a gradient loses stops on its way to the SVG", construct=f"{fi.qualname}: stops filtered")
                continue
            rr.bad_shape(fi, v, "the rounded gradient's stops are not one rounded stop per source stop", construct=f"{fi.qualname}: stops")
    if n < 2:
        raise AnalysisError(f"R02i: only {n} gradient round() methods with a stops= argument found")
