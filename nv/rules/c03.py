"""C03 — COLRv0 and glyf builds lose only what those formats cannot express; C05 — clip boxes never cut painted content.
(structural clauses on write_font.py)"""
from __future__ import annotations

import ast
from typing import List, Optional

from ..cfg import cfg_of
from ..dataflow import expr_closure
from ..guards import guard_facts
from ..model import (AnalysisError, FuncInfo, Model, calls_in, callee_tail, find_calls, kwarg, names_in, norm, short, walk_body)
from ..report import RULES, RuleResult


def _loop_over(fi: FuncInfo, iter_text: str) -> ast.For:
    loops = [st for st in walk_body(fi) if isinstance(st, ast.For) and norm(st.iter) == iter_text]
    if len(loops) != 1:
        raise AnalysisError(f"{fi.fq}: loop over {iter_text} not found")
    return loops[0]


def _only_paintglyph_filter(fi: FuncInfo, call: ast.Call, rr: RuleResult, what: str, extra_ok=()):
    """The emission `call` inside a breadth_first loop is reached for every PaintGlyph context: the only conditions that
    hold at it (ignoring aborting guards) are the PaintGlyph filter and the listed extras."""
    cfg = cfg_of(fi)
    facts = [(norm(e), pol) for e, pol in guard_facts(cfg, cfg.node_for(call), skip_abort_guards=True)]
    allowed = {("isinstance(context.paint, PaintGlyph)", True), ("context.paint.format != PaintGlyph.format", False),
               ("context.paint.format == PaintGlyph.format", True)} | set(extra_ok)
    extra = [f for f in facts if f not in allowed]
    has_filter = any(f in allowed and "PaintGlyph" in f[0] for f in facts)
    if not has_filter:
        # positive only when the call sits directly in a statement-level loop over breadth_first(): then every context reaches it
        from ..model import parent_map as _pm3
        pm_ = _pm3(fi.node)
        x_ = call
        direct = False
        while x_ in pm_:
            x_ = pm_[x_]
            if isinstance(x_, ast.For):
                direct = "breadth_first()" in norm(x_.iter)
                break
            if isinstance(x_, (ast.GeneratorExp, ast.ListComp, ast.SetComp, ast.DictComp, ast.Lambda)):
                break
        if direct:
            rr.bad(fi, call, f"{what}: contexts that are not PaintGlyph are not skipped", construct=f"{fi.name}: {short(call, 60)} without PaintGlyph filter")
        else:
            rr.bad_shape(fi, call, f"{what}: contexts that are not PaintGlyph are not skipped", construct=f"{fi.name}: {short(call, 60)} without PaintGlyph filter")
    elif extra:
        rr.bad(fi, call, f"{what}: some PaintGlyph contexts are skipped under {extra}: their outline is missing from the output", construct=f"{fi.name}: {short(call, 60)} under {extra}")
    else:
        rr.ok(f"{fi.name}: {short(call, 60)} is reached for every PaintGlyph context and only for those")


@RULES.rule("C03", "R03a", "one layer / component per PaintGlyph", floor=4)
def r03a(model: Model, rr: RuleResult):
    fi = model.func("write_font", "_colr0_layers")
    lp = _loop_over(fi, "root.breadth_first()")
    app = [c for c in calls_in(lp) if callee_tail(c) == "append" and norm(c.func.value) == "layers"]
    if len(app) != 1:
        raise AnalysisError("_colr0_layers: layers.append not found")
    _only_paintglyph_filter(fi, app[0], rr, "COLRv0 layers")
    rets = [st for st in walk_body(fi) if isinstance(st, ast.Return)]
    if rets and norm(rets[0].value) == "layers":
        rr.ok("_colr0_layers returns the accumulated layers")
    else:
        rr.bad(fi, fi.node, "_colr0_layers does not return the accumulated layers", construct="_colr0_layers: return")
    g = model.func("write_font", "_glyf_ufo")
    lp2 = [st for st in walk_body(g) if isinstance(st, ast.For) and norm(st.iter) == "root.breadth_first()"]
    if len(lp2) != 1:
        raise AnalysisError("_glyf_ufo: breadth_first loop not found")
    app2 = [c for c in calls_in(lp2[0]) if callee_tail(c) == "append" and "components" in norm(c.func)]
    if len(app2) != 1:
        raise AnalysisError("_glyf_ufo: components.append not found")
    _only_paintglyph_filter(g, app2[0], rr, "glyf components")
    outer = [st for st in walk_body(g) if isinstance(st, ast.For) and norm(st.iter) == "color_glyph.painted_layers"]
    if outer and any(x is lp2[0] for x in ast.walk(outer[0])):
        rr.ok("_glyf_ufo walks every root of painted_layers")
    else:
        rr.bad(g, g.node, "_glyf_ufo does not walk every painted layer root", construct="_glyf_ufo: root loop")
    u = model.func("write_font", "_ufo_colr_layers")
    c0 = [c for c in calls_in(u) if callee_tail(c) == "_colr0_layers"]
    if len(c0) == 1 and [norm(a) for a in c0[0].args] == ["color_glyph", "paint", "colors"] and callee_tail(_parent_call(u, c0[0])) == "extend":
        rr.ok("_ufo_colr_layers extends the v0 layer list with every root's layers (same palette as CPAL)")
    else:
        rr.bad(u, u.node, "_ufo_colr_layers does not collect _colr0_layers(color_glyph, paint, colors) of every root", construct="_ufo_colr_layers: v0 branch")


def _parent_call(fi: FuncInfo, node: ast.AST) -> Optional[ast.Call]:
    for c in calls_in(fi):
        if any(a is node for a in c.args):
            return c
    return ast.Call(func=ast.Name(id="", ctx=ast.Load()), args=[], keywords=[])


@RULES.rule("C03", "R03b", "each component / layer glyph carries the transform of its own traversal context", floor=5)
def r03b(model: Model, rr: RuleResult):
    g = model.func("write_font", "_glyf_ufo")
    comp = [c for c in calls_in(g) if norm(c.func) == "Component"]
    if len(comp) != 1:
        raise AnalysisError("_glyf_ufo: Component(...) not found")
    cfg = cfg_of(g)
    at = cfg.node_for(comp[0])
    bg, tr = kwarg(comp[0], "baseGlyph"), kwarg(comp[0], "transformation")
    names, exprs = expr_closure(cfg, at, bg)
    if norm(tr) == "context.transform" and any("context.paint" in norm(e) for e in exprs):
        rr.ok("_glyf_ufo: Component(baseGlyph <- context.paint.glyph, transformation = context.transform) of the same context")
    else:
        rr.bad(g, comp[0], "component glyph and transform do not come from the same traversal context", construct=short(comp[0]))
    fi = model.func("write_font", "_colr0_layers")
    cfg = cfg_of(fi)
    ct = find_calls(fi, "_create_transformed_glyph")
    if len(ct) != 1:
        # the choice may have been moved into a helper: read the layer's glyph name as an expression with alternatives
        from ..dataflow import resolved, inline_new_helpers
        from ..guards import canon_fact
        apps = [c for c in calls_in(fi) if callee_tail(c) == "append" and norm(c.func.value) == "layers"]
        if len(apps) == 1 and isinstance(apps[0].args[0], ast.Tuple):
            e = inline_new_helpers(resolved(cfg, cfg.node_for(apps[0]), apps[0].args[0].elts[0]), fi)
            alts = []

            def emit(x, conds):
                if isinstance(x, ast.IfExp):
                    emit(x.body, conds + [canon_fact(x.test, True)])
                    emit(x.orelse, conds + [canon_fact(x.test, False)])
                else:
                    alts.append((norm(x), conds))
            emit(e, [])
            ident = [(v, c) for v, c in alts if "_create_transformed_glyph" not in v]
            made = [(v, c) for v, c in alts if "_create_transformed_glyph" in v]
            if len(ident) == 1 and len(made) == 1 and ident[0][1] == [("context.transform == Affine2D.identity()", True)] and made[0][1] == [("context.transform == Affine2D.identity()", False)] \
                    and made[0][0].replace(" ", "").startswith("_create_transformed_glyph(color_glyph,") and made[0][0].endswith("context.transform).name") \
                    and ident[0][0].endswith(".glyph") and "context.paint" in ident[0][0]:
                rr.ok("a transformed component glyph is created exactly when context.transform is not the identity")
                rr.ok("_create_transformed_glyph(color_glyph, paint_glyph, context.transform): same context")
                rr.ok("layer glyph = the PaintGlyph's glyph, or the transformed composite built for it")
                ct = None
        if ct is not None:
            raise AnalysisError("_colr0_layers: _create_transformed_glyph call not found")
    if ct is None:
        facts = []
    else:
        facts = [(norm(e), pol) for e, pol in guard_facts(cfg, cfg.node_for(ct[0]), skip_abort_guards=True)]
    if ct is None:
        pass
    elif ("context.transform != Affine2D.identity()", True) in facts or ("context.transform == Affine2D.identity()", False) in facts:
        rr.ok("a transformed component glyph is created exactly when context.transform is not the identity")
    else:
        rr.bad(fi, ct[0], "transformed glyph creation is not tied to `context.transform != identity`", construct=f"_create_transformed_glyph under {facts}")
    if ct is None:
        pass
    elif [norm(a) for a in ct[0].args] in (["color_glyph", "paint_glyph", "context.transform"], ["color_glyph", "paint_glyph.glyph", "context.transform"]):
        rr.ok("_create_transformed_glyph(color_glyph, paint_glyph, context.transform): same context")
    else:
        rr.bad(fi, ct[0], "transformed glyph is not built from this context's paint and transform", construct=short(ct[0]))
    if ct is not None:
        app = [c for c in calls_in(fi) if callee_tail(c) == "append" and norm(c.func.value) == "layers"][0]
        nm = app.args[0].elts[0] if isinstance(app.args[0], ast.Tuple) else None
        defs = cfg.reaching(cfg.node_for(app), norm(nm)) if isinstance(nm, ast.Name) else []
        srcs = sorted(norm(d.value) for d in defs)
        if len(defs) == 2 and any(s == "paint_glyph.glyph" for s in srcs) and any("_create_transformed_glyph" in s and s.endswith(".name") for s in srcs):
            rr.ok("layer glyph = the PaintGlyph's glyph, or the transformed composite built for it")
        else:
            rr.bad(fi, app, f"layer glyph name comes from {srcs}", construct="_colr0_layers: glyph_name definitions")
    t = model.func("write_font", "_create_transformed_glyph")
    c2 = [c for c in calls_in(t) if norm(c.func) == "Component"]
    tcfg = cfg_of(t)
    draws = [c for c in calls_in(t) if callee_tail(c) in ("draw", "drawPoints")]
    # the component's base glyph is the PaintGlyph's own glyph: read through the call, whichever side takes `.glyph`
    base_ok = trans_ok = False
    if len(c2) == 1:
        bg, tr = kwarg(c2[0], "baseGlyph"), kwarg(c2[0], "transformation")
        if isinstance(bg, ast.Attribute) and bg.attr == "glyph" and isinstance(bg.value, ast.Name) and bg.value.id in t.params:
            base_ok = True
        elif isinstance(bg, ast.Name) and bg.id in t.params:
            args = model.arguments_for(t, bg.id)
            base_ok = bool(args) and all(isinstance(e, ast.Attribute) and e.attr == "glyph" for _, _, e in args)
        trans_ok = isinstance(tr, ast.Name) and tr.id in t.params and tr.id == t.params[-1]
        if not trans_ok and isinstance(tr, ast.Call) and callee_tail(tr) in ("Transform", "Affine2D"):
            # the six numbers re-assembled one by one: positive evidence either way (fontTools Transform(xx, xy, yx, yy, dx, dy) = Affine2D(a, b, c, d, e, f))
            from ..dataflow import resolved as _res, fold_tuples as _ft
            order = ["xx", "xy", "yx", "yy", "dx", "dy"] if callee_tail(tr) == "Transform" else ["a", "b", "c", "d", "e", "f"]
            got = {}
            for i, a_ in enumerate(tr.args):
                if isinstance(a_, ast.Starred):
                    got = None
                    break
                got[order[i]] = a_
            if got is not None:
                for k_ in tr.keywords:
                    got[k_.arg] = k_.value
                idx = {}
                for f_, e_ in got.items():
                    r_ = _ft(_res(tcfg, tcfg.node_for(c2[0]), e_))
                    if isinstance(r_, ast.Subscript) and norm(r_.value) == t.params[-1] and isinstance(r_.slice, ast.Constant):
                        idx[f_] = r_.slice.value
                    elif isinstance(r_, ast.Attribute) and norm(r_.value) == t.params[-1] and r_.attr in "abcdef":
                        idx[f_] = "abcdef".index(r_.attr)
                if len(idx) == 6 and set(idx) == set(order):
                    if all(idx[f_] == i for i, f_ in enumerate(order)):
                        trans_ok = True
                    else:
                        rr.bad(t, c2[0], f"the component transformation is re-assembled with its fields permuted ({ {f_: 'abcdef'[i] for f_, i in idx.items()} }): rotated / "
                               f"skewed layer copies are placed with the transposed matrix", construct="_create_transformed_glyph: Component transformation permuted")
                        base_ok = None
    if base_ok is None:
        pass  # reported above
    elif base_ok and trans_ok and (guard_facts(tcfg, tcfg.node_for(c2[0])) or draws):
        rr.bad(t, c2[0], "a transformed copy is only sometimes a component of the shared outline; otherwise the outline is drawn again into a new glyph: "
               "congruent (e.g. mirrored) copies are stored separately", construct="_create_transformed_glyph: component is conditional / outline re-drawn")
    elif base_ok and trans_ok:
        rr.ok("_create_transformed_glyph: Component(baseGlyph=paint.glyph, transformation=transform), unconditionally")
    else:
        rr.bad_shape(t, t.node, "_create_transformed_glyph does not wrap the paint's glyph in the given transform", construct="_create_transformed_glyph: Component")
    if any("glyphOrder +=" in norm(st) or "glyphOrder = " in norm(st) for st in t.body):
        rr.ok("_create_transformed_glyph appends the new glyph to the glyph order")
    else:
        rr.bad(t, t.node, "new composite glyph is not added to the glyph order", construct="_create_transformed_glyph: glyphOrder")


@RULES.rule("C03", "R03c", "COLRv0 palette keeps alpha and layers look their colour up unmodified", floor=2)
def r03c(model: Model, rr: RuleResult):
    from .c15 import palette_normalisation
    palette_normalisation(model, rr, only_v0=True)


@RULES.rule("C03", "R03d", "COLRv0 base glyphs get their extents drawn, each with its own bounds", floor=2)
def r03d(model: Model, rr: RuleResult):
    fi = model.func("write_font", "_colr_ufo")
    cfg = cfg_of(fi)
    de = find_calls(fi, "_draw_glyph_extents")
    if len(de) != 1:
        raise AnalysisError("_colr_ufo: _draw_glyph_extents call not found")
    facts = [(norm(e), pol) for e, pol in guard_facts(cfg, cfg.node_for(de[0]))]
    if ("colr_version == 0", True) in facts:
        rr.ok("extents are drawn on the COLRv0 branch")
    else:
        rr.bad(fi, de[0], "base-glyph extents are not drawn for COLRv0", construct=f"_draw_glyph_extents under {facts}")
    outer = [st for st in walk_body(fi) if isinstance(st, ast.For) and norm(st.iter) == "clipBoxes.items()"]
    ok = False
    if outer and isinstance(outer[0].target, ast.Tuple):
        b, gs = [norm(x) for x in outer[0].target.elts]
        inner = [st for st in outer[0].body if isinstance(st, ast.For) and norm(st.iter) == gs]
        dfn = model.func("write_font", "_draw_glyph_extents")
        from ..model import arg as _arg3
        ga = _arg3(de[0], dfn.params.index("glyph"), "glyph") if "glyph" in dfn.params else None
        ba = _arg3(de[0], dfn.params.index("bounds"), "bounds") if "bounds" in dfn.params else None
        if inner and ga is not None and ba is not None and norm(ga) == f"ufo[{norm(inner[0].target)}]" and norm(ba) == b:
            ok = True
    if ok:
        rr.ok("every glyph of every clip-box group gets _draw_glyph_extents(ufo, ufo[name], its bounds)")
    else:
        rr.bad(fi, de[0], "extents are not drawn for every glyph with its own bounds", construct=short(de[0]))
    d = model.func("write_font", "_draw_glyph_extents")
    from ..dataflow import resolved, fold_tuples
    dcfg = cfg_of(d)
    bp = d.params[2] if len(d.params) > 2 else "bounds"

    def corner(e):
        """which components of the bounds 4-tuple an expression denotes: bounds[:2] / (bounds[0], bounds[1]) -> (0, 1)"""
        if isinstance(e, ast.Subscript) and norm(e.value) == bp and isinstance(e.slice, ast.Slice) and e.slice.step is None:
            lo = e.slice.lower.value if isinstance(e.slice.lower, ast.Constant) else (0 if e.slice.lower is None else None)
            hi = e.slice.upper.value if isinstance(e.slice.upper, ast.Constant) else (4 if e.slice.upper is None else None)
            return tuple(range(lo, hi)) if lo is not None and hi is not None else None
        if isinstance(e, ast.Tuple) and all(isinstance(x, ast.Subscript) and norm(x.value) == bp and isinstance(x.slice, ast.Constant) for x in e.elts):
            return tuple(x.slice.value for x in e.elts)
        return None
    mv = [c for c in calls_in(d) if callee_tail(c) == "moveTo" and len(c.args) == 1]
    ln = [c for c in calls_in(d) if callee_tail(c) == "lineTo" and len(c.args) == 1]
    if len(mv) == 1 and len(ln) == 1:
        a = corner(fold_tuples(resolved(dcfg, dcfg.node_for(mv[0]), mv[0].args[0])))
        b = corner(fold_tuples(resolved(dcfg, dcfg.node_for(ln[0]), ln[0].args[0])))
        if {a, b} == {(0, 1), (2, 3)}:
            rr.ok("_draw_glyph_extents draws (xMin,yMin)-(xMax,yMax)")
        elif a is not None and b is not None:
            rr.bad(d, d.node, "_draw_glyph_extents does not span the two corners of the bounds", construct="_draw_glyph_extents body")
        else:
            rr.bad_shape(d, d.node, "_draw_glyph_extents does not span the two corners of the bounds", construct="_draw_glyph_extents body")
    else:
        rr.bad_shape(d, d.node, "_draw_glyph_extents does not span the two corners of the bounds", construct="_draw_glyph_extents body")


@RULES.rule("C03", "R03e", "single-component flattening only for unshared components, keeping the codepoint", floor=2)
def r03e(model: Model, rr: RuleResult):
    fi = model.func("write_font", "_glyf_ufo")
    cfg = cfg_of(fi)
    dels = [st for st in walk_body(fi) if isinstance(st, ast.Delete)]
    if len(dels) != 1:
        raise AnalysisError("_glyf_ufo: flattening `del ufo[...]` not found")
    from ..guards import canon_facts as _cf3
    facts = [t_ for t_, pol in _cf3(cfg, cfg.node_for(dels[0])) if pol]
    if "len(parent_glyph.components) == 1" in facts and any(f.startswith("glyph_uses[") and f.endswith("== 1") for f in facts):
        rr.ok("flattening requires exactly one component that is used exactly once in the whole font")
    else:
        rr.bad_shape(fi, dels[0], f"a component is inlined/deleted under {facts}: a shared outline would disappear for its other users", construct=f"del ufo[component.name] under {facts}")
    t = [norm(st) for st in ast.walk(fi.node) if isinstance(st, ast.Assign)]
    if "component.unicode = parent_glyph.unicode" in t and "ufo[color_glyph.ufo_glyph_name] = component" in t:
        rr.ok("the inlined outline takes over the colour glyph's name and codepoint")
    else:
        rr.bad(fi, fi.node, "flattening does not carry the codepoint/name over to the inlined outline", construct="_glyf_ufo: flatten assignments")
    cnt = [st for st in ast.walk(fi.node) if isinstance(st, ast.AugAssign) and "glyph_uses[" in norm(st.target)]
    if cnt and norm(cnt[0].target) == "glyph_uses[glyph.name]":
        rr.ok("use counts are incremented per emitted component")
    else:
        rr.bad_shape(fi, fi.node, "component use counts are not maintained", construct="_glyf_ufo: glyph_uses")


# ----------------------------------------------------------------------------------------------- C05
@RULES.rule("C05", "R05a", "the clip box is the union over every PaintGlyph of every root, each under its own transform", floor=4)
def r05a(model: Model, rr: RuleResult):
    fi = model.func("write_font", "_bounds")
    cfg = cfg_of(fi)
    tb = find_calls(fi, "_transformed_glyph_bounds")
    if len(tb) != 1:
        raise AnalysisError("_bounds: _transformed_glyph_bounds call not found")
    _only_paintglyph_filter(fi, tb[0], rr, "clip box")
    # what is measured, read through the call: the glyph the callee draws and the transform it applies, in the caller's terms
    from ..dataflow import in_caller_terms
    tg = model.func("write_font", "_transformed_glyph_bounds")
    tgcfg = cfg_of(tg)
    draws = [c for c in calls_in(tg) if callee_tail(c) == "draw" and isinstance(c.func, ast.Attribute)]
    tpen = [c for c in calls_in(tg) if norm(c.func) == "TransformPen" and len(c.args) == 2]
    same_receiver = len(draws) >= 1 and len({norm(c.func.value) for c in draws}) == 1  # `if identity: g.draw(a) else: g.draw(b)` draws the same glyph either way
    drawn = in_caller_terms(tg, tb[0], draws[0].func.value, tgcfg.node_for(draws[0])) if same_receiver else None
    applied = in_caller_terms(tg, tb[0], tpen[0].args[1], tgcfg.node_for(tpen[0])) if len(tpen) == 1 else None
    from ..dataflow import resolved as _r5a
    if drawn is not None:
        drawn = _r5a(cfg, cfg.node_for(tb[0]), drawn)
    if applied is not None:
        applied = _r5a(cfg, cfg.node_for(tb[0]), applied)
    DRAWN = ("color_glyph.ufo[paint_glyph.glyph]", "color_glyph.ufo[cast(PaintGlyph, context.paint).glyph]", "color_glyph.ufo[context.paint.glyph]")
    if drawn is not None and applied is not None and norm(drawn) in DRAWN and norm(applied) == "context.transform":
        at = cfg.node_for(tb[0])
        defs = cfg.reaching(at, "paint_glyph")
        if norm(drawn) != DRAWN[0] or (defs and all("context.paint" in norm(d.value) for d in defs)):
            rr.ok("bounds of paint_glyph.glyph under context.transform of the same context")
        else:
            rr.bad(fi, tb[0], "paint_glyph is not this context's paint", construct="_bounds: paint_glyph definition")
    elif drawn is not None and applied is not None and ((norm(applied) != "context.transform" and norm(applied).endswith("transform")) or
                                                         (norm(drawn).startswith("color_glyph.ufo[") and norm(drawn) not in DRAWN)):
        rr.bad(fi, tb[0], "glyph bounds are not computed for this context's glyph under this context's transform", construct=short(tb[0]))
    else:
        rr.bad_shape(fi, tb[0], "glyph bounds are not computed for this context's glyph under this context's transform", construct=short(tb[0]))
    outer = [st for st in walk_body(fi) if isinstance(st, ast.For) and norm(st.iter) == "color_glyph.painted_layers"]
    if outer:
        rr.ok("every root of painted_layers contributes")
    else:
        rr.bad_shape(fi, fi.node, "_bounds does not walk every painted layer root", construct="_bounds: root loop")
    un = find_calls(fi, "unionRect")
    ok = False
    if len(un) == 1 and [norm(a) for a in un[0].args] in (["bounds", "glyph_bbox"], ["glyph_bbox", "bounds"]):
        facts = [(norm(e), pol) for e, pol in guard_facts(cfg, cfg.node_for(un[0]), skip_abort_guards=True)]
        okf = {("glyph_bbox is None", False), ("bounds is None", False), ("bounds is not None", True), ("isinstance(context.paint, PaintGlyph)", True),
               ("context.paint.format != PaintGlyph.format", False)}
        skip_none = ("glyph_bbox is None", False) in facts and all(f in okf for f in facts)
        firsts = [st for st in ast.walk(fi.node) if isinstance(st, ast.Assign) and norm(st.targets[0]) == "bounds" and norm(st.value) == "glyph_bbox"]
        ok = skip_none and bool(firsts)
    if ok:
        rr.ok("bounds accumulate through unionRect; the only skip is an empty glyph (no bounds)")
    else:
        rr.bad_shape(fi, fi.node, "bounds are not accumulated as first-box-then-unionRect over all non-empty glyphs", construct="_bounds: accumulation")
    rets = [st for st in walk_body(fi) if isinstance(st, ast.Return)]
    none_ret = [st for st in rets if st.value is None or (isinstance(st.value, ast.Constant) and st.value.value is None)]
    if none_ret and ("bounds is None", True) in [(norm(e), pol) for e, pol in guard_facts(cfg, cfg.node_for(none_ret[0]))]:
        rr.ok("a glyph that paints nothing has no clip box (returns None)")
    else:
        rr.bad_shape(fi, fi.node, "_bounds does not return None for a glyph without painted outlines", construct="_bounds: None return")


@RULES.rule("C05", "R05b", "bounds are measured in font space through the accumulated transform", floor=2)
def r05b(model: Model, rr: RuleResult):
    fi = model.func("write_font", "_transformed_glyph_bounds")
    cfg = cfg_of(fi)
    tp = [c for c in calls_in(fi) if norm(c.func) == "TransformPen"]
    if len(tp) != 1:
        raise AnalysisError("_transformed_glyph_bounds: TransformPen(...) not found")
    if [norm(a) for a in tp[0].args] == ["bounds_pen", "transform"]:
        rr.ok("pen chain: TransformPen(bounds pen, the given transform)")
    else:
        rr.bad(fi, tp[0], "the transform applied while measuring is not the given one / pens are chained the wrong way round", construct=short(tp[0]))
    facts = [(norm(e), pol) for e, pol in guard_facts(cfg, cfg.node_for(tp[0]))]
    if facts == [("transform.almost_equals(Affine2D.identity())", False)]:
        rr.ok("the untransformed shortcut is taken only for (almost) identity")
    else:
        rr.bad(fi, tp[0], f"transform is skipped under {facts}", construct=f"TransformPen under {facts}")
    draw = [c for c in calls_in(fi) if callee_tail(c) == "draw" and isinstance(c.func, ast.Attribute) and len(c.args) == 1]
    ret = [st for st in walk_body(fi) if isinstance(st, ast.Return)]
    from ..dataflow import resolved as _res5
    bpc = [c for c in calls_in(fi) if norm(c.func) == "ControlBoundsPen"]
    # the name(s) the bounds pen is bound to
    bnames = {t.id for st in walk_body(fi) if isinstance(st, ast.Assign) and bpc and st.value is bpc[0] for t in st.targets if isinstance(t, ast.Name)}
    okd = False
    if len(draw) >= 1 and len({norm(c.func.value) for c in draw}) == 1 and all(c.args for c in draw) and len(ret) == 1 and ret[0].value is not None and bnames:
        dn = cfg.node_for(draw[0])
        vals = []
        for dc in draw:  # one draw per branch of `if identity ... else ...` counts like one draw of a pen chosen by that test
            pen_arg = dc.args[0]
            if isinstance(pen_arg, ast.Name):
                for d in cfg.reaching(cfg.node_for(dc), pen_arg.id):
                    vals.append(d.value)
            else:
                vals.append(pen_arg)
        pens_ok = bool(vals) and all(v is not None and ((isinstance(v, ast.Name) and v.id in bnames) or v is bpc[0] or
                                                         (isinstance(v, ast.Call) and norm(v.func) == "TransformPen" and len(v.args) == 2 and norm(v.args[0]) in bnames)) for v in vals)
        ret_ok = isinstance(ret[0].value, ast.Attribute) and ret[0].value.attr == "bounds" and norm(ret[0].value.value) in bnames
        recv = _res5(cfg, dn, draw[0].func.value)
        glyph_ok = (isinstance(recv, ast.Name) and recv.id in fi.params) or \
            (isinstance(recv, ast.Subscript) and isinstance(recv.value, ast.Name) and recv.value.id in fi.params and isinstance(recv.slice, ast.Name) and recv.slice.id in fi.params)
        if pens_ok and ret_ok and glyph_ok:
            rr.ok("the named glyph is drawn through the pen chain; the bounds pen's result is returned")
            okd = True
        elif pens_ok and ret_ok:
            rr.bad(fi, fi.node, "the glyph drawn is not ufo[glyph_name]", construct="_transformed_glyph_bounds: glyph")
            okd = True
    if not okd:
        rr.bad_shape(fi, fi.node, "glyph is not drawn through `pen` or the bounds pen's result is not returned", construct="_transformed_glyph_bounds: draw/return")
    bp = [c for c in calls_in(fi) if norm(c.func) == "ControlBoundsPen"]
    if bp:
        rr.ok("ControlBoundsPen (control-point bounds contain the curve)")
    else:
        rr.bad(fi, fi.node, "bounds are not measured with ControlBoundsPen: on-curve bounds of a transformed quadratic/cubic may be smaller than "
               "the quantised outline", construct="_transformed_glyph_bounds: pen class")


@RULES.rule("C05", "R05c", "directed rounding: minima floor, maxima ceil; otRound before quantising", floor=5)
def r05c(model: Model, rr: RuleResult):
    fi = model.func("write_font", "_quantize_bounding_rect")
    rets = [st for st in walk_body(fi) if isinstance(st, ast.Return)]
    if len(rets) == 1 and rets[0].value is not None and not (isinstance(rets[0].value, ast.Tuple) and len(rets[0].value.elts) == 4):
        # named pieces, local one-line helpers, concatenated pairs: bring the returned value to one tuple expression
        from ..dataflow import resolved, inline_new_helpers, fold_tuples
        qcfg = cfg_of(fi)
        v = fold_tuples(inline_new_helpers(resolved(qcfg, qcfg.node_for(rets[0]), rets[0].value), fi))
        rets = [ast.copy_location(ast.Return(value=v), rets[0])]
    if len(rets) != 1 or not isinstance(rets[0].value, ast.Tuple) or len(rets[0].value.elts) != 4:
        raise AnalysisError("_quantize_bounding_rect: 4-tuple return not found")
    params = fi.params[:4]
    fac = fi.params[4]

    def direction(e, var) -> Optional[str]:
        """down / up / zero (truncation) / nearest for `<rounding>(var / factor) * factor` in its usual spellings."""
        s = norm(e).replace(" ", "").replace("math.", "")
        v, f = var, fac
        # strip an outer int(...) around the whole product
        if s.startswith("int(") and s.endswith(")") and s.count("(") == s.count(")") and not s.endswith(f")*{f}"):
            s = s[4:-1]
        forms = {
            "down": [f"floor({v}/{f})*{f}", f"int(floor({v}/{f}))*{f}", f"{v}//{f}*{f}", f"({v}//{f})*{f}", f"int({v}//{f})*{f}"],
            "up": [f"ceil({v}/{f})*{f}", f"int(ceil({v}/{f}))*{f}", f"-(-{v}//{f})*{f}", f"-((-{v})//{f})*{f}", f"-(-{v}//{f}*{f})"],
            "zero": [f"int({v}/{f})*{f}", f"trunc({v}/{f})*{f}", f"int(trunc({v}/{f}))*{f}"],
            "nearest": [f"round({v}/{f})*{f}", f"int(round({v}/{f}))*{f}", f"otRound({v}/{f})*{f}"],
        }
        for d, alts in forms.items():
            if s in alts:
                return d
        return None
    want = ["down", "down", "up", "up"]
    for e, var, w in zip(rets[0].value.elts, params, want):
        d = direction(e, var)
        if d is None:
            raise AnalysisError(f"_quantize_bounding_rect: rounding idiom {short(e)} not recognised")
        if d == w:
            rr.ok(f"{var}: rounded {d} to a multiple of {fac}")
        else:
            how = {"zero": "toward zero (int() truncates)", "nearest": "to the nearest multiple"}.get(d, d)
            rr.bad(fi, e, f"{var} is rounded {how}, expected {w}: the box can shrink below the painted bounds", construct=f"{var}: {short(e)}")
    a = [st for st in walk_body(fi) if isinstance(st, ast.Assert)]
    if a and norm(a[0].test) == f"{fac} >= 1":
        rr.ok("factor >= 1 asserted")
    b = model.func("write_font", "_bounds")
    cfg = cfg_of(b)
    q = find_calls(b, "_quantize_bounding_rect")
    from ..dataflow import resolved as _res, fold_tuples as _ft

    def rounded_source(e):
        """e denotes otRound applied element-wise to a sequence S: tuple(otRound(v) for v in S) / [..] / (..) -> text of S"""
        if isinstance(e, ast.Call) and isinstance(e.func, ast.Name) and e.func.id in ("tuple", "list") and len(e.args) == 1:
            e = e.args[0]
        if isinstance(e, (ast.GeneratorExp, ast.ListComp)) and len(e.generators) == 1 and not e.generators[0].ifs and isinstance(e.elt, ast.Call) \
                and callee_tail(e.elt) == "otRound" and len(e.elt.args) == 1 and norm(e.elt.args[0]) == norm(e.generators[0].target):
            return norm(e.generators[0].iter)
        return None

    def box_source(at, exprs):
        """the 4 values handed on: `*X` or four expressions -> text of the sequence whose otRound-ed elements they are, "" when they are not rounded, None when unread"""
        if len(exprs) == 1 and isinstance(exprs[0], ast.Starred):
            r = _ft(_res(cfg, at, exprs[0].value, depth=1))
            return rounded_source(r) if rounded_source(r) is not None else ("" if isinstance(r, ast.Name) or "otRound" not in norm(r) else None)
        if len(exprs) == 1:
            r = _ft(_res(cfg, at, exprs[0], depth=1))
            if isinstance(r, ast.Tuple) and len(r.elts) == 4:
                exprs = r.elts
            else:
                return rounded_source(r) if rounded_source(r) is not None else ("" if "otRound" not in norm(r) else None)
        if len(exprs) == 4:
            srcs = set()
            for i, x in enumerate(exprs):
                r = _ft(_res(cfg, at, x, depth=1))
                if isinstance(r, ast.Subscript) and isinstance(r.slice, ast.Constant) and r.slice.value == i and rounded_source(r.value) is not None:
                    srcs.add(rounded_source(r.value))
                elif isinstance(r, ast.Call) and callee_tail(r) == "otRound":
                    srcs.add(None)
                else:
                    return "" if "otRound" not in norm(r) else None
            return srcs.pop() if len(srcs) == 1 else None
        return None
    ok_q = False
    if len(q) == 1 and kwarg(q[0], "factor") is not None and norm(kwarg(q[0], "factor")) == "quantize_factor":
        src = box_source(cfg.node_for(q[0]), list(q[0].args))
        if src:
            rr.ok("all four values go through otRound (the compiler's rounding) before being quantised outward")
            ok_q = True
        elif src == "":
            rr.bad(b, b.node, "bounds are not otRound-ed before quantisation, or quantisation is not applied to them", construct="_bounds: otRound / quantise order")
            ok_q = None
    if ok_q is False:
        rr.bad_shape(b, b.node, "bounds are not otRound-ed before quantisation, or quantisation is not applied to them", construct="_bounds: otRound / quantise order")
    for st in walk_body(b):
        if isinstance(st, ast.Return) and st.value is not None and not (isinstance(st.value, ast.Call) and callee_tail(st.value) == "_quantize_bounding_rect") \
                and not (isinstance(st.value, ast.Constant) and st.value.value is None):
            src = box_source(cfg.node_for(st), [st.value])
            if src:
                rr.ok("the unquantised return is the otRound-ed box")


@RULES.rule("C05", "R05d", "clip-box option plumbing: default step, per-glyph keys, v1 only, none for empty glyphs", floor=5)
def r05d(model: Model, rr: RuleResult):
    fi = model.func("write_font", "_colr_ufo")
    cfg = cfg_of(fi)
    b = find_calls(fi, "_bounds")
    if len(b) != 1:
        raise AnalysisError("_colr_ufo: _bounds call not found")
    at = cfg.node_for(b[0])
    from ..dataflow import alternatives
    qarg = b[0].args[1] if len(b[0].args) > 1 else None
    alts = alternatives(cfg, at, qarg.id, fi) if isinstance(qarg, ast.Name) else []
    srcs = sorted({v for v, _ in alts})
    if srcs == ["config.clipbox_quantization", "round(config.upem * 0.02)"]:
        conds = [c for v, c in alts if v.startswith("round(")][0]
        unset = [t for t, pol in conds if "is not None" in t and not pol and ("clipbox_quantization" in t or "quantization" in t)]
        if unset:
            rr.ok("quantization = config.clipbox_quantization, or round(2% of upem) when unset")
        else:
            rr.bad(fi, fi.node, "default quantisation is not limited to the unset case", construct="_colr_ufo: quantization default")
    else:
        rr.bad_shape(fi, b[0], f"quantization comes from {srcs}", construct="_colr_ufo: quantization sources")
    if [norm(a) for a in b[0].args] == ["color_glyph", "quantization"]:
        rr.ok("_bounds(color_glyph, quantization) for the migrated glyph of this iteration")
    else:
        rr.bad(fi, b[0], "_bounds is not called with this glyph and the quantisation step", construct=short(b[0]))
    # the glyph passed is the migrated one (paths already replaced by glyph names)
    mig = [st for st in ast.walk(fi.node) if isinstance(st, ast.Assign) and "_migrate_paths_to_ufo_glyphs" in norm(st.value)]
    if mig and cfg.dominates(cfg.node_for(mig[0]), at):
        rr.ok("bounds are computed after paths were migrated to UFO glyphs")
    else:
        rr.bad(fi, b[0], "bounds are computed before the glyph's paths exist as UFO glyphs", construct="_colr_ufo: _bounds before migration")
    sd = [c for c in calls_in(fi) if callee_tail(c) == "setdefault" and "clipBoxes" in norm(c.func)]
    ok = False
    if len(sd) == 1:
        facts = [(norm(e), pol) for e, pol in guard_facts(cfg, cfg.node_for(sd[0]), skip_abort_guards=True)]
        par = _parent_attr_call(fi, sd[0])
        ok = facts == [("bounds is not None", True)] and par is not None and norm(par.args[0]) == "color_glyph.ufo_glyph_name" and norm(sd[0].args[0]) == "bounds"
    if ok:
        # the box a glyph is filed under is the one _bounds returned for that glyph: nothing replaces it on the way (e.g. by a "close enough" box of another glyph)
        bd = cfg.reaching(cfg.node_for(sd[0]), "bounds")
        if not (bd and all(isinstance(d.value, ast.Call) and callee_tail(d.value) == "_bounds" for d in bd)):
            ok = False
            odd = [d for d in bd if not (isinstance(d.value, ast.Call) and callee_tail(d.value) == "_bounds")]
            rr.bad(fi, odd[0].stmt if odd and odd[0].stmt is not None else sd[0], f"the box a glyph is recorded under is not always the one _bounds computed for it "
                   f"({[short(d.stmt) for d in odd if d.stmt is not None]}): a box taken over from another glyph is close to, not a superset of, this glyph's painted bounds",
                   construct="_colr_ufo: bounds redefined between _bounds() and clipBoxes.setdefault")
            ok = None
    if ok is None:
        pass
    elif ok:
        rr.ok("each glyph with bounds is recorded under its own name, keyed by its own box; no box when _bounds is None")
    else:
        rr.bad_shape(fi, fi.node, "clip boxes are not recorded per glyph under `bounds is not None`", construct="_colr_ufo: clipBoxes.setdefault")
    cb = [st for st in ast.walk(fi.node) if isinstance(st, ast.Assign) and "COLR_CLIP_BOXES_KEY" in norm(st.targets[0])]
    if cb:
        facts = [(norm(e), pol) for e, pol in guard_facts(cfg, cfg.node_for(cb[0]))]
        if ("colr_version == 0", False) in facts and "(glyphs, box) for box, glyphs in clipBoxes.items()" in norm(cb[0].value):
            rr.ok("clip boxes go to COLR_CLIP_BOXES_KEY only for COLRv1, as (glyph names, box) pairs")
        else:
            rr.bad(fi, cb[0], "clip boxes are stored for the wrong COLR version or in the wrong shape", construct=short(cb[0], 120))
    else:
        rr.bad_shape(fi, fi.node, "clip boxes never reach ufo.lib", construct="_colr_ufo: COLR_CLIP_BOXES_KEY")


def _parent_attr_call(fi: FuncInfo, inner: ast.Call) -> Optional[ast.Call]:
    for c in calls_in(fi):
        if isinstance(c.func, ast.Attribute) and c.func.value is inner:
            return c
    return None


@RULES.rule("C03", "R03f", "the compiler is not asked to remove overlaps (the COLRv0 extents contour is an open two-point contour the filter would drop)", floor=2)
def r03f(model: Model, rr: RuleResult):
    fi = model.func("write_font", "_make_ttfont")
    for name in ("compileTTF", "compileOTF"):
        for c in calls_in(fi):
            if callee_tail(c) != name:
                continue
            ro = kwarg(c, "removeOverlaps")
            if ro is not None and not (isinstance(ro, ast.Constant) and ro.value is False):
                rr.bad(fi, c, f"ufo2ft.{name}(..., removeOverlaps={short(ro)}): the overlap filter discards open contours, i.e. the two-point 'extents' contour "
                       f"_draw_glyph_extents puts into every COLRv0 base glyph; base glyphs become blank and have no bounds", construct=f"_make_ttfont: {name} removeOverlaps")
            else:
                rr.ok(f"ufo2ft.{name}: removeOverlaps not requested")
    de = model.func("write_font", "_draw_glyph_extents")
    if any(callee_tail(c) in ("moveTo", "lineTo", "endPath") for c in calls_in(de)):
        rr.ok("_draw_glyph_extents draws an open contour through the pen")


@RULES.rule("C03", "R03g", "the traversal hands every child its own ancestors' transform (nothing is carried over from siblings)", floor=2)
def r03g(model: Model, rr: RuleResult):
    """Paint.breadth_first: the transform stored for a child is built from the dequeued context's transform and that context's paint, both re-read in the
    same iteration.  A running variable that survives from one iteration to the next accumulates the transforms of earlier siblings and cousins."""
    from ..dataflow import expr_closure
    fi = model.func("paint", "Paint.breadth_first")
    cfg = cfg_of(fi)
    loops = [st for st in walk_body(fi) if isinstance(st, ast.While)]
    if len(loops) != 1:
        raise AnalysisError("Paint.breadth_first: while loop not found")
    lp = loops[0]
    ctor = [c for c in calls_in(lp, nested=False) if norm(c.func) == "PaintTraverseContext"]
    if len(ctor) != 1 or len(ctor[0].args) < 3:
        raise AnalysisError("Paint.breadth_first: PaintTraverseContext(path, paint, transform) for the children not found")
    targ = ctor[0].args[2]
    at = cfg.node_for(ctor[0])
    inside = {cfg.node_for(st) for st in ast.walk(lp) if isinstance(st, ast.stmt) and st is not lp}
    # every definition that can reach the child's transform is made in this iteration, after the dequeue
    pops = [st for st in lp.body if isinstance(st, ast.Assign) and isinstance(st.value, ast.Call) and callee_tail(st.value) in ("pop", "popleft")]
    if not pops:
        raise AnalysisError("Paint.breadth_first: dequeue not found")
    pop_n = cfg.node_for(pops[0])
    ctx = norm(pops[0].targets[0])
    stale = []
    seen = set()
    todo = [(at, targ)]
    uses_ctx_transform = False
    uses_paint_transform = False
    while todo:
        node, e = todo.pop()
        for x in ast.walk(e):
            if isinstance(x, ast.Attribute) and norm(x) == f"{ctx}.transform":
                uses_ctx_transform = True
            if isinstance(x, ast.Call) and callee_tail(x) == "gettransform" and norm(x.func.value) == f"{ctx}.paint":
                uses_paint_transform = True
        for nm in [x for x in ast.walk(e) if isinstance(x, ast.Name) and isinstance(x.ctx, ast.Load)]:
            if nm.id in (ctx, "Affine2D", "self"):
                continue
            for d in cfg.reaching(node, nm.id):
                if id(d) in seen:
                    continue
                seen.add(id(d))
                if d.kind in ("param", "import", "def"):
                    continue
                if d.node not in inside or not cfg.dominates(pop_n, d.node) or not cfg.dominates(d.node, at):
                    stale.append((nm.id, d))
                elif d.value is not None:
                    todo.append((d.node, d.value))
    if stale:
        nm, d = stale[0]
        rr.bad(fi, d.stmt if d.stmt is not None else lp, f"the transform handed to a child depends on `{nm}` as left by an earlier iteration / set before the loop "
               f"(`{short(d.stmt) if d.stmt is not None else d.kind}`): transforms of earlier siblings and cousins leak into later children (a group holding two transformed "
               f"reuses places the second at the first one's offset plus its own)", construct=f"breadth_first: `{nm}` carried across iterations")
    else:
        rr.ok("the child's transform is rebuilt in every iteration from values read after the dequeue")
    if uses_ctx_transform and uses_paint_transform:
        rr.ok(f"child transform = compose({ctx}.transform, {ctx}.paint.gettransform())")
    else:
        rr.bad(fi, ctor[0], f"the child's transform is not built from {ctx}.transform and {ctx}.paint.gettransform()", construct="breadth_first: child transform sources")


@RULES.rule("C03", "R03h", "placing composites stay composites: no ufo2ft filter / compile option decomposes (transformed) components", floor=2)
def r03h(model: Model, rr: RuleResult):
    mod = model.mod("write_font")
    hits = []
    for n in ast.walk(mod.tree):
        if isinstance(n, ast.Assign) and any("FILTERS_KEY" in norm(t) or "ufo2ft.filters" in norm(t) for t in n.targets):
            hits.append(n)
        if isinstance(n, ast.Call) and callee_tail(n) in ("compileTTF", "compileOTF", "compileVariableTTF"):
            for k in n.keywords:
                if k.arg in ("flattenComponents", "decomposeComponents", "filters") and not (isinstance(k.value, ast.Constant) and k.value.value in (False, None)):
                    hits.append(n)
        if isinstance(n, ast.Call) and callee_tail(n) in ("DecomposeComponentsFilter", "DecomposeTransformedComponentsFilter", "FlattenComponentsFilter"):
            hits.append(n)
    for h in hits:
        owner = next((fi for fi in mod.functions.values() if any(x is h for x in ast.walk(fi.node))), None)
        rr.bad(owner or mod, h, f"{short(h, 90)}: a ufo2ft filter / option that decomposes components turns every rotated, mirrored or scaled copy (a composite of the shared "
               f"outline) back into an outline of its own at compile time", construct=f"write_font: {short(h, 60)}")
    if not hits:
        rr.ok("write_font configures no ufo2ft filters and no component-flattening compile option")
    c = [x for x in calls_in(mod.func("_make_ttfont")) if callee_tail(x) in ("compileTTF", "compileOTF")]
    rr.ok(f"{len(c)} compile calls inspected")
