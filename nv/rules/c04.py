"""C04 — every source is reachable from its codepoints, and only from them (structural clauses)."""
from __future__ import annotations

import ast
import string
from typing import Dict, List, Optional, Set, Tuple

from ..cfg import cfg_of
from ..dataflow import expr_closure
from ..guards import guard_facts
from ..model import (AnalysisError, Model, calls_in, callee_tail, find_calls, kwarg, names_in, norm, short, walk_body)
from ..report import RULES, RuleResult
from .c17 import uniqueness_checks


@RULES.rule("C04", "R04a", "every site that names a glyph from codepoints uses glyph.glyph_name", floor=4)
def r04a(model: Model, rr: RuleResult):
    target = model.func("glyph", "glyph_name")
    sites = [("write_glyphmap", "_glyphmappings", 1), ("features", "generate_fea", 2), ("write_font", "_ensure_codepoints_will_have_glyphs", 1)]
    for modname, fn, n in sites:
        fi = model.func(modname, fn)
        from ..model import new_helpers_called as _nh
        cs = [c for hf in [fi] + list(_nh(fi)) for c in calls_in(hf, nested=True) if model.resolve_call(hf, c) is target]
        if len(cs) >= n:
            rr.ok(f"{modname}.{fn}: {len(cs)} call(s) to glyph.glyph_name")
        else:
            rr.bad_shape(fi, fi.node, f"{modname}.{fn} no longer derives glyph names with glyph.glyph_name ({len(cs)} of {n} calls): names written to the "
                   f"glyph map, referenced by the ligature rules and created for blank glyphs would disagree", construct=f"{modname}.{fn}: glyph_name calls {len(cs)}/{n}")
    g = model.func("features", "generate_fea")
    # the ligature rule text, wherever it is built (generate_fea or a helper it newly calls) and however it is spelled (% / f-string / format)
    from ..dataflow import format_parts, format_template, resolved
    from ..model import new_helpers_called
    found = []
    for hf in [g] + list(new_helpers_called(g)):
        hcfg = cfg_of(hf)
        for n in walk_body(hf):
            if isinstance(n, (ast.JoinedStr, ast.BinOp, ast.Call)):
                parts = format_parts(n)
                if parts and format_template(parts).strip().startswith("sub ") and len([1 for k, _ in parts if k == "expr"]) >= 2:
                    found.append((hf, hcfg, n, parts))
    if len(found) == 1:
        hf, hcfg, n, parts = found[0]
        tmpl = format_template(parts).strip()
        ex = [resolved(hcfg, hcfg.node_for(n), x) for k, x in parts if k == "expr"]

        def comps_of(e):
            """' '.join(glyph_name(v) for v in S) -> S"""
            if isinstance(e, ast.Call) and isinstance(e.func, ast.Attribute) and e.func.attr == "join" and isinstance(e.func.value, ast.Constant) and e.func.value.value == " " \
                    and len(e.args) == 1 and isinstance(e.args[0], (ast.GeneratorExp, ast.ListComp)) and len(e.args[0].generators) == 1 and not e.args[0].generators[0].ifs:
                c, gen = e.args[0].elt, e.args[0].generators[0]
                if isinstance(c, ast.Call) and callee_tail(c) == "glyph_name" and len(c.args) == 1 and norm(c.args[0]) == norm(gen.target):
                    return norm(gen.iter)
            return None

        def target_of(e):
            return norm(e.args[0]) if isinstance(e, ast.Call) and callee_tail(e) == "glyph_name" and len(e.args) == 1 and not e.keywords else None
        if tmpl == "sub {} by {};" and comps_of(ex[0]) is not None and comps_of(ex[0]) == target_of(ex[1]):
            rr.ok("ligature rule: components = glyph_name(each codepoint), target = glyph_name(whole sequence)")
            rr.ok("rule text: sub <components> by <target>;")
        elif tmpl != "sub {} by {};" or (comps_of(ex[1]) is not None and target_of(ex[0]) is not None):
            rr.bad(hf, n, "ligature rule text is not 'sub <components> by <target>;'", construct="generate_fea: rule text")
        else:
            rr.bad_shape(hf, n, "ligature components/target are not named from each codepoint / the whole sequence", construct="generate_fea: glyphs/target")
    else:
        rr.bad_shape(g, g.node, "ligature rule text is not 'sub <components> by <target>;'", construct="generate_fea: rule text")
    # census of the statement kinds generate_fea can emit: one ligature lookup, nothing that restructures it
    kinds = {}
    for c in calls_in(g):
        if callee_tail(c) == "append" and isinstance(c.func, ast.Attribute) and norm(c.func.value) == "rules" and c.args:
            a = c.args[0]
            frag = "".join(x.value for x in ast.walk(a) if isinstance(x, ast.Constant) and isinstance(x.value, str))
            tok = frag.strip().split(" ")[0].strip("{};") if frag.strip() else ""
            kinds.setdefault(tok, []).append(c)
    allowed = {"", "languagesystem", "feature", "sub", "}", "#"}
    restructuring = {"subtable", "lookup", "lookupflag", "ignore", "script", "language", "useExtension"}
    for tok, cs in kinds.items():
        if tok in allowed or tok.startswith("#"):
            continue
        if tok in restructuring:
            rr.bad(g, cs[0], f"generate_fea emits a '{tok}' statement: the ligature rules no longer form one lookup in one subtable, so a sequence whose first "
                   f"glyph is already covered by an earlier subtable can become unreachable", construct=f"generate_fea: emits '{tok}'")
        else:
            raise AnalysisError(f"generate_fea emits an unknown statement kind {tok!r}")
    if {"feature", "sub", "languagesystem"} <= set(kinds):
        rr.ok(f"generate_fea emits only: {sorted(k for k in kinds if k)}")
    w = model.func("write_glyphmap", "_glyphmappings")
    y = [c for c in calls_in(w) if norm(c.func) == "GlyphMapping"]
    def _gm_arg(c, name, from_end):
        for k_ in c.keywords:
            if k_.arg == name:
                return k_.value
        return c.args[from_end] if len(c.args) >= -from_end and not c.keywords else None
    gm_cps = _gm_arg(y[0], "codepoints", -2) if y else None
    gm_name = _gm_arg(y[0], "glyph_name", -1) if y else None
    if y and gm_cps is not None and gm_name is not None and norm(gm_name) == "glyph_name(cps)" and norm(gm_cps) == "cps":
        cfg = cfg_of(w)
        d = cfg.reaching(cfg.node_for(y[0]), "cps")
        if d and all("codepoints.from_filename(source_stem)" in norm(x.value) for x in d):
            rr.ok("glyph map row: codepoints from the file name, glyph name from those codepoints")
        else:
            rr.bad(w, y[0], "glyph map codepoints do not come from the source file's name", construct="_glyphmappings: cps")
    elif y and gm_name is not None and gm_cps is not None and isinstance(gm_name, ast.Call) and callee_tail(gm_name) == "glyph_name" and norm(gm_name.args[0]) != norm(gm_cps):
        rr.bad(w, w.node, "glyph map rows are not GlyphMapping(files, cps, glyph_name(cps))", construct="_glyphmappings: GlyphMapping")
    else:
        rr.bad_shape(w, w.node, "glyph map rows are not GlyphMapping(files, cps, glyph_name(cps))", construct="_glyphmappings: GlyphMapping")


def _len_predicate(test: ast.AST) -> Optional[Tuple[str, Set[int]]]:
    """`len(x) OP k` / `not x` over lengths 0..8 (8 stands for 'many')."""
    U = set(range(0, 9))
    if isinstance(test, ast.UnaryOp) and isinstance(test.op, ast.Not):
        inner = _len_predicate(test.operand)
        if inner:
            return inner[0], U - inner[1]
        return norm(test.operand), {0}
    if isinstance(test, ast.Compare) and len(test.ops) == 1 and isinstance(test.left, ast.Call) and norm(test.left.func) == "len" \
            and isinstance(test.comparators[0], ast.Constant):
        k = test.comparators[0].value
        op = test.ops[0]
        f = {ast.Eq: lambda n: n == k, ast.NotEq: lambda n: n != k, ast.Gt: lambda n: n > k, ast.GtE: lambda n: n >= k,
             ast.Lt: lambda n: n < k, ast.LtE: lambda n: n <= k}.get(type(op))
        if f:
            return norm(test.left.args[0]), {n for n in U if f(n)}
    if isinstance(test, (ast.Name, ast.Attribute)):
        return norm(test), U - {0}
    return None


@RULES.rule("C04", "R04b", "lengths 1 / >= 2 partition codepoint sequences between cmap and ligatures", floor=4)
def r04b(model: Model, rr: RuleResult):
    U = set(range(0, 9))
    # cmap: ColorGlyph.create sets unicode exactly when len == 1
    c = model.func("color_glyph", "ColorGlyph.create")
    ccfg = cfg_of(c)
    un = [st for st in walk_body(c) if isinstance(st, ast.Assign) and norm(st.targets[0]) == "base_glyph.unicode"]
    if len(un) != 1:
        raise AnalysisError("ColorGlyph.create: unicode assignment not found")
    cmap = set(U)
    for t, lab in ccfg.controlling_tests(ccfg.node_for(un[0])):
        test = ccfg.nodes[t].ast.test
        p = _len_predicate(test)
        if p is None:
            raise AnalysisError(f"ColorGlyph.create: condition {short(test)} on the unicode assignment is not a length test")
        cmap &= p[1] if lab == "T" else (U - p[1])
    if norm(un[0].value) not in ("next(iter(codepoints))", "codepoints[0]"):
        rr.bad(c, un[0], "the cmap codepoint is not the sequence's single codepoint", construct=short(un[0]))
    # ligatures: write_fea filter, then generate_fea's skip
    wf = model.func("write_fea", "main")
    filt = None
    for n in ast.walk(wf.node):
        if isinstance(n, ast.SetComp) or isinstance(n, ast.ListComp) or isinstance(n, ast.GeneratorExp):
            for g in n.generators:
                for i in g.ifs:
                    filt = _len_predicate(i)
    if filt is None:
        raise AnalysisError("write_fea: length filter on glyph mappings not found")
    lig = set(filt[1])
    gf = model.func("features", "generate_fea")
    skip = None
    for st in ast.walk(gf.node):
        if isinstance(st, ast.If) and any(isinstance(b, ast.Continue) for b in st.body):
            skip = _len_predicate(st.test)
    if skip is not None:
        lig &= (U - skip[1])
    if cmap == {1}:
        rr.ok("cmap entry exactly for sequences of length 1")
    else:
        rr.bad(c, un[0], f"a glyph gets a direct cmap entry for sequence lengths {sorted(cmap)} (8 = many); expected exactly {{1}}", construct=f"cmap lengths {sorted(cmap)}")
    if lig == set(range(2, 9)):
        rr.ok("ligature rule exactly for sequences of length >= 2")
    else:
        rr.bad(gf, gf.node, f"ligature rules are generated for sequence lengths {sorted(lig)}; expected every length >= 2", construct=f"ligature lengths {sorted(lig)}")
    if not (cmap & lig) and (cmap | lig) >= set(range(1, 9)):
        rr.ok("cmap and ligature lengths are disjoint and cover every non-empty sequence")
    else:
        rr.bad(gf, gf.node, f"sequence lengths {sorted(set(range(1, 9)) - (cmap | lig))} are reachable by neither cmap nor ligature, or {sorted(cmap & lig)} by both",
               construct=f"partition cmap {sorted(cmap)} / lig {sorted(lig)}")
    # blank glyphs: codepoints that occur only in multi-codepoint sequences
    e = model.func("write_font", "_ensure_codepoints_will_have_glyphs")
    ecfg = cfg_of(e)
    direct = [x for x in calls_in(e) if callee_tail(x) == "update" and "direct_mapped" in norm(x.func)]
    allc = [x for x in calls_in(e) if callee_tail(x) == "update" and "all_codepoints" in norm(x.func)]
    if len(direct) == 1 and len(allc) == 1:
        dl = set(U)
        for t, lab in ecfg.controlling_tests(ecfg.node_for(direct[0])):
            p = _len_predicate(ecfg.nodes[t].ast.test) if hasattr(ecfg.nodes[t].ast, "test") else None
            if p:
                dl &= p[1] if lab == "T" else (U - p[1])
        al = set(U)
        for t, lab in ecfg.controlling_tests(ecfg.node_for(allc[0])):
            p = _len_predicate(ecfg.nodes[t].ast.test) if hasattr(ecfg.nodes[t].ast, "test") else None
            if p:
                al &= p[1] if lab == "T" else (U - p[1])
        # `if not codepoints: continue` dominates both
        dl -= {0}
        al -= {0}
        if dl == {1} and al == set(range(1, 9)):
            rr.ok("blank glyphs = codepoints of all sequences minus codepoints that are a sequence of length 1")
        else:
            rr.bad(e, e.node, f"blank-glyph bookkeeping: direct-mapped from lengths {sorted(dl)}, all from {sorted(al)}", construct="_ensure_codepoints_will_have_glyphs: sets")
    nb = [st for st in walk_body(e) if isinstance(st, ast.Assign) and norm(st.targets[0]) == "need_blanks"]
    if nb and norm(nb[0].value) in ("all_codepoints - direct_mapped_codepoints", "all_codepoints.difference(direct_mapped_codepoints)"):
        rr.ok("need_blanks = all_codepoints - direct_mapped_codepoints")
    else:
        rr.bad_shape(e, e.node, "need_blanks is not (all codepoints) minus (directly mapped codepoints)", construct="need_blanks")
    from ..dataflow import resolved as _r4b
    uni = [st for st in ast.walk(e.node) if isinstance(st, ast.Assign) and len(st.targets) == 1 and isinstance(st.targets[0], ast.Attribute) and st.targets[0].attr == "unicode"]
    okb = None
    # the glyph may be made in a helper the reference tree does not have (`_add_blank_glyph(ufo, cp)`): read the helper in its own terms
    from .. import report as _rep4
    sites = [(e, ecfg, st) for st in uni]
    for c_ in calls_in(e, nested=True):
        callee = model.resolve_call(e, c_)
        if callee is not None and not isinstance(callee.node, ast.Lambda) and _rep4.CURRENT_DRIFT.get(callee.fq, 0) is None:
            hcfg = cfg_of(callee)
            sites += [(callee, hcfg, st) for st in ast.walk(callee.node) if isinstance(st, ast.Assign) and len(st.targets) == 1
                      and isinstance(st.targets[0], ast.Attribute) and st.targets[0].attr == "unicode"]
    for f_, c4, st in sites:
        made = _r4b(c4, c4.node_for(st), st.targets[0].value)  # the glyph whose unicode is set, through temporaries
        if isinstance(made, ast.Call) and callee_tail(made) == "newGlyph" and len(made.args) == 1 and isinstance(made.args[0], ast.Call) \
                and callee_tail(made.args[0]) == "glyph_name" and len(made.args[0].args) == 1:
            okb = norm(made.args[0].args[0]) == norm(st.value)
        elif isinstance(made, ast.Call) and callee_tail(made) == "newGlyph" and len(made.args) == 1 and isinstance(made.args[0], ast.Name) and isinstance(st.value, ast.Name):
            # name and codepoint are the two halves of one item of {cp: glyph_name(cp) for cp in ...}
            for lp in [x for x in ast.walk(f_.node) if isinstance(x, ast.For) and any(y is st for y in ast.walk(x))]:
                if isinstance(lp.target, ast.Tuple) and len(lp.target.elts) == 2 and isinstance(lp.iter, ast.Call) and callee_tail(lp.iter) == "items" and not lp.iter.args \
                        and [norm(x) for x in lp.target.elts] == [st.value.id, made.args[0].id]:
                    from ..dataflow import deref as _d4c
                    d_ = _d4c(c4, c4.node_for(lp), lp.iter.func.value)
                    if isinstance(d_, ast.DictComp) and len(d_.generators) == 1 and isinstance(d_.value, ast.Call) and callee_tail(d_.value) == "glyph_name" \
                            and len(d_.value.args) == 1 and norm(d_.value.args[0]) == norm(d_.key) == norm(d_.generators[0].target):
                        okb = True
    if okb is None:
        # name and codepoint taken from two sequences walked in parallel: positive when each was ordered by its own key (names as strings, codepoints as numbers)
        from ..dataflow import deref as _d4b
        for st in uni:
            par = None
            for lp in [x for x in ast.walk(e.node) if isinstance(x, ast.For)]:
                if any(y is st for y in ast.walk(lp)):
                    par = lp
            if par is not None and isinstance(par.iter, ast.Call) and norm(par.iter.func) == "zip" and len(par.iter.args) == 2:
                a_ = _d4b(ecfg, ecfg.node_for(par), par.iter.args[0])
                b_ = _d4b(ecfg, ecfg.node_for(par), par.iter.args[1])
                ta, tb = norm(a_), norm(b_)
                if ta.startswith("sorted(") and "glyph_name(" in ta and (tb.startswith("sorted(") or isinstance(b_, ast.Name)) and "glyph_name(" not in tb:
                    rr.bad(e, par, f"blank glyph names ({short(a_, 60)}) and codepoints ({short(b_, 50)}) are sorted separately and then paired by zip: names are hex strings of "
                           f"different lengths (g_20e3 < g_23 but 0x23 < 0x20e3), so blank glyphs receive each other's codepoint and every ligature rule addresses the wrong glyph",
                           construct="_ensure_codepoints_will_have_glyphs: names and codepoints paired by zip of two sort orders")
                    okb = "reported"
    if okb == "reported":
        pass
    elif okb:
        rr.ok("each blank glyph maps its own codepoint")
    elif okb is False:
        rr.bad(e, e.node, "blank glyphs are not mapped from their codepoint", construct="blank glyph unicode")
    else:
        rr.bad_shape(e, e.node, "blank glyphs are not mapped from their codepoint", construct="blank glyph unicode")
    g = model.func("write_font", "_generate_color_font")
    ens = find_calls(g, "_ensure_codepoints_will_have_glyphs")
    if ens and [norm(a) for a in ens[0].args] == ["ufo", "inputs"]:
        rr.ok("_generate_color_font creates blank glyphs from all inputs before colour glyphs")


@RULES.rule("C04", "R04c", "font skeleton: .notdef first with an outline, .space = U+0020, blanks appended sorted", floor=5)
def r04c(model: Model, rr: RuleResult):
    fi = model.func("write_font", "_ufo")
    cfg = cfg_of(fi)
    ng = [c for c in calls_in(fi) if callee_tail(c) == "newGlyph"]
    names = [norm(c.args[0]).strip("'\"") for c in ng]
    if names[:2] == [".notdef", ".space"]:
        rr.ok("_ufo creates .notdef then .space")
    else:
        rr.bad(fi, fi.node, f"_ufo creates glyphs {names}: .notdef must come first, .space second", construct=f"_ufo newGlyph order {names}")
    go = [st for st in walk_body(fi) if isinstance(st, ast.Assign) and norm(st.targets[0]) == "ufo.glyphOrder"]
    if go and norm(go[0].value) == "['.notdef', '.space']":
        rr.ok("glyphOrder = ['.notdef', '.space']")
    else:
        rr.bad(fi, fi.node, "initial glyph order is not ['.notdef', '.space']", construct="_ufo: glyphOrder")
    sp = [st for st in walk_body(fi) if isinstance(st, ast.Assign) and norm(st.targets[0]) == "space.unicodes"]
    if sp and norm(sp[0].value) in ("[32]", "[0x0020]"):
        rr.ok(".space maps U+0020")
    else:
        rr.bad(fi, fi.node, ".space does not map U+0020", construct="_ufo: space.unicodes")
    dn = find_calls(fi, "_draw_notdef")
    if len(dn) == 1 and not guard_facts(cfg, cfg.node_for(dn[0])):
        rr.ok("_draw_notdef is called unconditionally (glyph 0 always has an outline)")
    else:
        rr.bad(fi, fi.node, ".notdef outline is not drawn on every path", construct="_ufo: _draw_notdef")
    d = model.func("write_font", "_draw_notdef")
    if any("notdefArtist.draw(glyph.getPen())" in norm(st) for st in d.body) and any(norm(st) == "glyph = ufo['.notdef']" for st in d.body):
        rr.ok("_draw_notdef draws into ufo['.notdef']")
    else:
        rr.bad(d, d.node, "_draw_notdef does not draw into the .notdef glyph", construct="_draw_notdef body")
    g = model.func("write_font", "_generate_color_font")
    a = [st for st in walk_body(g) if isinstance(st, ast.Assert) and norm(st.test) == "glyph_order[0] == '.notdef'"]
    if a:
        rr.ok("_generate_color_font asserts .notdef is glyph 0")
    else:
        rr.bad(g, g.node, "the '.notdef is first' assertion is gone", construct="_generate_color_font: assert")
    # gid bookkeeping: existing name -> its index, else appended; ufo.glyphOrder = glyph_order; ids asserted
    t = " ".join(norm(st) for st in ast.walk(g.node) if isinstance(st, (ast.Assign, ast.Expr)))
    stm = [norm(st) for st in ast.walk(g.node) if isinstance(st, (ast.Assign, ast.Expr))]
    # the glyph id variable, by role: whatever name is handed to ColorGlyph.create as glyph_id
    from ..model import arg as _arg4
    _cr = [c for c in calls_in(g) if norm(c.func) == "ColorGlyph.create"]
    _ga = _arg4(_cr[0], 3, "glyph_id") if _cr else None
    G = _ga.id if isinstance(_ga, ast.Name) else "gid"
    new_first = f"{G} = len(glyph_order)" in stm and "glyph_order.append(glyph_input.glyph_name)" in stm \
        and stm.index(f"{G} = len(glyph_order)") < stm.index("glyph_order.append(glyph_input.glyph_name)")
    new_after = f"{G} = len(glyph_order) - 1" in stm and "glyph_order.append(glyph_input.glyph_name)" in stm \
        and stm.index("glyph_order.append(glyph_input.glyph_name)") < stm.index(f"{G} = len(glyph_order) - 1")
    if f"{G} = glyph_order.index(glyph_input.glyph_name)" in t and (new_first or new_after) and "ufo.glyphOrder = glyph_order" in t:
        rr.ok("glyph ids: index of an existing name, else appended at the end; UFO glyph order assigned from that list")
    else:
        rr.bad_shape(g, g.node, "glyph id bookkeeping changed", construct="_generate_color_font: gid bookkeeping")
    cr = [c for c in calls_in(g) if norm(c.func) == "ColorGlyph.create"]
    from ..model import arg as _arg
    got = [(_arg(cr[0], i, nm)) for i, nm in ((3, "glyph_id"), (4, "ufo_glyph_name"), (5, "codepoints"), (6, "svg"))] if cr else []
    gt = [norm(x) if x is not None else None for x in got]
    if cr and gt[1:] == ["glyph_input.glyph_name", "glyph_input.codepoints", "glyph_input.svg"] and gt[0] == G:
        rr.ok("ColorGlyph.create(gid, glyph name, codepoints, svg) of the same input")
    elif cr and gt[1:] == ["glyph_input.glyph_name", "glyph_input.codepoints", "glyph_input.svg"]:
        rr.bad_shape(g, g.node, "ColorGlyph.create does not receive the gid/name/codepoints/svg of one input", construct="ColorGlyph.create args")
    elif cr and all(x is not None for x in gt) and any(x.endswith(sfx) and not x.startswith("glyph_input.") for x, sfx in zip(gt[1:], (".glyph_name", ".codepoints", ".svg"))):
        rr.bad(g, g.node, "ColorGlyph.create does not receive the gid/name/codepoints/svg of one input", construct="ColorGlyph.create args")
    else:
        rr.bad_shape(g, g.node, "ColorGlyph.create does not receive the gid/name/codepoints/svg of one input", construct="ColorGlyph.create args")


@RULES.rule("C04", "R04d", "advance = max(configured width, proportional width) whenever a viewBox exists", floor=2)
def r04d(model: Model, rr: RuleResult):
    afi = model.func("color_glyph", "_advance_width")
    rets = [st for st in walk_body(afi) if isinstance(st, ast.Return)]
    from ..dataflow import resolved, inline_new_helpers
    acfg = cfg_of(afi)
    val = inline_new_helpers(resolved(acfg, acfg.node_for(rets[0]), rets[0].value), afi) if len(rets) == 1 and rets[0].value is not None else None
    if isinstance(val, ast.Call):
        val = ast.Call(func=val.func, args=[inline_new_helpers(resolved(acfg, acfg.node_for(rets[0]), x), afi) for x in val.args], keywords=val.keywords)
    ok = isinstance(val, ast.Call) and norm(val.func) == "max" and len(val.args) == 2 and not val.keywords
    EM = "config.ascender - config.descender"
    pre = [c_ for c_ in calls_in(afi) if norm(c_.func) in ("round", "int", "math.floor", "math.ceil", "otRound") and len(c_.args) >= 1 and norm(c_.args[0]) in ("view_box.w", "view_box.h")]
    if pre:
        rr.bad(afi, pre[0], f"`{short(pre[0])}` rounds a side of the viewBox before the ratio is taken: the advance is no longer em height x w / h (viewBox 0 0 1.5 1 gives 2400 instead of 1800), "
               f"so non-square artwork in small or fractional units gets the wrong advance", construct="_advance_width: viewBox side rounded before the ratio")
        ok = None
    if ok is None:
        pass
    elif ok:
        a = sorted(norm(x) for x in val.args)
        want = [f"round(({EM}) * view_box.w / view_box.h)", f"round(view_box.w * ({EM}) / view_box.h)", f"round(({EM}) * (view_box.w / view_box.h))"]
        if a[0] == "config.width" and a[1] in want:
            rr.ok("_advance_width = max(config.width, round(em height * vb.w / vb.h))")
            rr.ok("em height = ascender - descender")
        elif a[0] == "config.width" and a[1].startswith("round(") and "view_box.w" in a[1] and "view_box.h" in a[1] and EM not in a[1]:
            rr.bad(afi, afi.node, "em height is not ascender - descender", construct="_advance_width: font_height")
        else:
            rr.bad_shape(afi, afi.node, "advance rule is not max(config.width, round(em height x vb.w / vb.h))", construct="_advance_width: return")
    else:
        rr.bad_shape(afi, afi.node, "advance rule is not max(config.width, round(em height x vb.w / vb.h))", construct="_advance_width: return")
    c = model.func("color_glyph", "ColorGlyph.create")
    cfg = cfg_of(c)
    w = [st for st in walk_body(c) if isinstance(st, ast.Assign) and norm(st.targets[0]) == "base_glyph.width"]
    ok2 = False
    extra_guard = None
    from ..guards import value_cases
    from ..guards import canon_fact as _cf4

    def _canon(fs):
        out = []
        for t_, pol_ in fs:
            try:
                out.append(_cf4(ast.parse(t_, mode="eval").body, pol_))
            except SyntaxError:
                out.append((t_, pol_))
        return out
    VB = _canon([("view_box is not None", True)])[0]
    from ..guards import guard_facts as _gf4

    def cases_of(st):
        """value cases of the assignment; a value that is a plain local is followed to the assignments that reach it, each under its own guards as well"""
        for v, facts in value_cases(cfg, st):
            if isinstance(v, ast.Name):
                ds = [d for d in cfg.reaching(cfg.node_for(st), v.id) if d.value is not None]
                if ds:
                    for d in ds:
                        yield d.value, [(norm(t_), pol_) for t_, pol_ in _gf4(cfg, d.node)] + list(facts)
                    continue
            yield v, facts
    for st in w:
        for v, facts in cases_of(st):
            if "_advance_width(view_box, font_config)" not in norm(v):
                continue
            facts = _canon(facts)
            ok2 = facts == [VB]
            if not ok2 and VB in facts:
                extra_guard = (st, [f for f in facts if f != VB])
    if ok2:
        rr.ok("ColorGlyph.create applies the advance rule whenever a viewBox (or bitmap size) is known")
    elif extra_guard is not None:
        rr.bad(c, extra_guard[0], f"the advance rule is applied only when additionally {extra_guard[1]}: a glyph that already exists in the UFO skeleton (.notdef, .space mapped to "
               f"artwork) keeps the skeleton's width while bitmap metrics and clip boxes use the artwork's", construct=f"ColorGlyph.create: width under {extra_guard[1]}")
    else:
        rr.bad_shape(c, c.node, "the advance rule is not applied under `view_box is not None`", construct="ColorGlyph.create: width")
    ig = model.func("write_font", "_init_glyph")
    iw = [st for st in walk_body(ig) if isinstance(st, ast.Assign) and norm(st.targets[0]) == "glyph.width"]
    if len(iw) == 1 and "color_glyph" in norm(iw[0].value) and norm(iw[0].value).endswith(".width"):
        rr.ok("layer glyphs inherit their colour glyph's advance (the glyf flattening replaces a colour glyph by its only layer glyph)")
    else:
        rr.bad(ig, ig.node, f"layer glyphs get the advance {short(iw[0].value) if iw else None} instead of their colour glyph's: when the plain glyf build inlines a "
               f"glyph's single layer, the colour glyph's advance is lost", construct=f"_init_glyph: glyph.width = {short(iw[0].value) if iw else None}")
    vb = cfg.all_defs("view_box")
    srcs = sorted(norm(d.value) for d in vb if d.value is not None)
    if "svg.view_box()" in srcs and "Rect(0, 0, *bitmap.size)" in srcs:
        rr.ok("viewBox comes from the SVG, or from the bitmap's pixel size")
    else:
        rr.bad_shape(c, c.node, f"viewBox sources are {srcs}", construct="ColorGlyph.create: view_box")


# --------------------------------------------------------------------------------------------- R04e: name language
class NFA:
    def __init__(self):
        self.trans: Dict[int, List[Tuple[frozenset, int]]] = {}
        self.eps: Dict[int, List[int]] = {}
        self.n = 0
        self.start = self.new()
        self.accept: Set[int] = set()

    def new(self) -> int:
        self.n += 1
        return self.n - 1

    def add(self, a, chars, b):
        self.trans.setdefault(a, []).append((frozenset(chars), b))

    def e(self, a, b):
        self.eps.setdefault(a, []).append(b)

    def closure(self, states):
        todo = list(states)
        seen = set(states)
        while todo:
            s = todo.pop()
            for t in self.eps.get(s, []):
                if t not in seen:
                    seen.add(t)
                    todo.append(t)
        return frozenset(seen)


def name_language(sep: str, first_filter, prefix: str = "") -> NFA:
    """NFA for prefix + T (sep T)* where T = one ASCII letter | hex of a scalar value > U+0020 (2..6 lowercase hex digits, no
    leading zero); first_filter(ch) restricts the first character of the unprefixed part."""
    letters = set(string.ascii_letters)
    hexd = set("0123456789abcdef")
    n = NFA()
    cur = n.start
    for ch in prefix:
        nxt = n.new()
        n.add(cur, {ch}, nxt)
        cur = nxt
    tok_start_first = cur  # first token: apply filter
    tok_end = n.new()
    # subsequent tokens
    tok_start = n.new()

    def add_token(s0, filt):
        # letter token
        ok = {c for c in letters if filt(c)}
        if ok:
            n.add(s0, ok, tok_end)
        # hex token of a scalar value above U+0020: two digits >= 21, or 3..6 digits without a leading zero
        two_hi = {c for c in (hexd - set("012")) if filt(c)}  # 3x..fx
        if two_hi:
            h = n.new()
            n.add(s0, two_hi, h)
            n.add(h, hexd, tok_end)
        if filt("2"):
            h = n.new()
            n.add(s0, {"2"}, h)
            n.add(h, hexd - {"0"}, tok_end)  # 21..2f
        first = {c for c in (hexd - {"0"}) if filt(c)}
        if first:
            h = n.new()
            n.add(s0, first, h)
            h2 = n.new()
            n.add(h, hexd, h2)
            prev = h2
            for i in range(4):
                nx = n.new()
                n.add(prev, hexd, nx)
                n.e(nx, tok_end)
                prev = nx
    add_token(tok_start_first, first_filter)
    add_token(tok_start, lambda c: True)
    # separator
    cur = tok_end
    for ch in sep:
        nx = n.new()
        n.add(cur, {ch}, nx)
        cur = nx
    n.e(cur, tok_start)
    n.accept = {tok_end}
    return n


def intersect_witness(a: NFA, b: NFA, limit: int = 200000) -> Optional[str]:
    from collections import deque
    sa, sb = a.closure({a.start}), b.closure({b.start})
    q = deque([(sa, sb, "")])
    seen = {(sa, sb)}
    steps = 0
    while q:
        x, y, w = q.popleft()
        steps += 1
        if steps > limit:
            raise AnalysisError("name-language product too large")
        if (x & a.accept) and (y & b.accept):
            return w
        moves: Dict[str, Tuple[set, set]] = {}
        for s in x:
            for chars, t in a.trans.get(s, []):
                for ch in chars:
                    moves.setdefault(ch, (set(), set()))[0].add(t)
        for s in y:
            for chars, t in b.trans.get(s, []):
                for ch in chars:
                    if ch in moves:
                        moves[ch][1].add(t)
        for ch in sorted(moves):
            ta, tb = moves[ch]
            if not ta or not tb:
                continue
            nx, ny = a.closure(ta), b.closure(tb)
            if (nx, ny) not in seen:
                seen.add((nx, ny))
                q.append((nx, ny, w + ch))
    return None


def extract_name_grammar(model: Model) -> dict:
    """Reads separator, hex format, prefix and the prefix condition out of glyph.py."""
    gfi = model.func("glyph", "glyph_name")
    nfi = model.func("glyph", "_name")
    sep = None
    prefix = None
    cond = None
    cond_node = None
    for n in ast.walk(gfi.node):
        if isinstance(n, ast.Call) and callee_tail(n) == "join" and isinstance(n.func.value, ast.Constant):
            sep = n.func.value.value
        if isinstance(n, ast.If):
            for b in n.body:
                if isinstance(b, ast.Assign) and isinstance(b.value, ast.BinOp) and isinstance(b.value.op, ast.Add) and isinstance(b.value.left, ast.Constant) \
                        and norm(b.value.right) == "name":
                    prefix = b.value.left.value
                    cond = norm(n.test)
                    cond_node = n
    fmt = None
    letter_rule = None
    for n in ast.walk(nfi.node):
        if isinstance(n, ast.BinOp) and isinstance(n.op, ast.Mod) and isinstance(n.left, ast.Constant):
            fmt = n.left.value
        if isinstance(n, ast.JoinedStr) and len(n.values) == 1 and isinstance(n.values[0], ast.FormattedValue) and n.values[0].format_spec is not None \
                and isinstance(n.values[0].format_spec, ast.JoinedStr) and len(n.values[0].format_spec.values) == 1 \
                and isinstance(n.values[0].format_spec.values[0], ast.Constant) and n.values[0].conversion == -1:
            fmt = "%" + str(n.values[0].format_spec.values[0].value)  # f"{cp:x}" is "%x" % cp
        if isinstance(n, ast.Call) and isinstance(n.func, ast.Name) and n.func.id == "format" and len(n.args) == 2 and isinstance(n.args[1], ast.Constant):
            fmt = "%" + str(n.args[1].value)  # format(cp, "x")
        if isinstance(n, ast.If):
            letter_rule = norm(n.test)
    maxlen = model.mod("glyph").const("_MAX_NAME_LEN")
    if sep is None or prefix is None or fmt is None or cond is None:
        raise AnalysisError("glyph.py: separator / prefix / hex format / prefix condition not found in the enumerated shape")
    return {"sep": sep, "prefix": prefix, "cond": cond, "cond_node": cond_node, "fmt": fmt, "letter_rule": letter_rule, "maxlen": maxlen.value if isinstance(maxlen, ast.Constant) else None}


def decode(name: str, sep: str) -> str:
    cps = []
    for tok in name.split(sep):
        cps.append(f"U+{ord(tok):04X}" if len(tok) == 1 and tok.isalpha() else f"U+{int(tok, 16):04X}")
    return "(" + ", ".join(cps) + ")"


def r04e_impl(model: Model, rr: RuleResult):
    gfi = model.func("glyph", "glyph_name")
    # order of the two final steps: the non-letter prefix must be decided on the name that is returned, i.e. after the long-name hash replaced it
    hashes = [st for st in ast.walk(gfi.node) if isinstance(st, ast.Assign) and "b32encode" in norm(st.value)]
    alpha_tests = [n for n in ast.walk(gfi.node) if isinstance(n, ast.Call) and callee_tail(n) == "isalpha" and "[0]" in norm(n.func)]
    if hashes and alpha_tests:
        hpos = (hashes[0].lineno, hashes[0].col_offset)
        before = [n for n in alpha_tests if (n.lineno, n.col_offset) < hpos]
        after = [n for n in alpha_tests if (n.lineno, n.col_offset) > hpos]
        if before and not after:
            rr.bad(gfi, before[0], "the 'starts with a letter' test (and the g_ prefix) is applied BEFORE the long-name hash: a hashed name (base32: letters and the digits 2-7) that "
                   "starts with a digit is emitted without prefix, which feature files do not accept as a glyph name", construct="glyph_name: prefix decided before the hash step")
            return
    g = extract_name_grammar(model)
    if g["fmt"] != "%x" or g["letter_rule"] != "ch.isalpha() and _isascii(ch)":
        raise AnalysisError(f"glyph._name token rule changed ({g['fmt']!r}, {g['letter_rule']!r}); the regular abstraction needs review")
    if g["cond"] != "not name[0].isalpha()":
        raise AnalysisError(f"prefix condition {g['cond']!r} outside the enumerated idiom")
    rr.ok(f"name grammar read from glyph.py: token = ASCII letter | '%x' hex, separator {g['sep']!r}, prefix {g['prefix']!r} when the first char is not a letter")
    # A: names emitted as they are (first char alphabetic); B: prefix + names whose first char is not alphabetic
    A = name_language(g["sep"], lambda c: c.isalpha())
    B = name_language(g["sep"], lambda c: not c.isalpha(), prefix=g["prefix"])
    w = intersect_witness(A, B)
    if w is None:
        rr.ok("prefixed and unprefixed glyph names are disjoint languages: distinct sequences get distinct names (below the hashing length)")
    else:
        tail = w[len(g["prefix"]):]
        rr.bad(gfi, gfi.node, f"glyph name {w!r} is produced both for {decode(w, g['sep'])} (unprefixed) and for {decode(tail, g['sep'])} (with the "
               f"{g['prefix']!r} prefix): two different sources would share one glyph", construct=f"glyph_name: prefix {g['prefix']!r} collides with a leading letter token")
    # alphabet and length are legal in feature files
    legal = set(string.ascii_letters + string.digits + "._")
    used = set(g["sep"]) | set(g["prefix"]) | set(string.ascii_letters) | set("0123456789abcdef") | set("ABCDEFGHIJKLMNOPQRSTUVWXYZ234567")
    if used <= legal:
        rr.ok("name alphabet is a subset of [A-Za-z0-9._]")
    else:
        rr.bad(gfi, gfi.node, f"glyph names may contain {sorted(used - legal)} which feature files do not accept", construct=f"name alphabet {sorted(used - legal)}")
    if g["maxlen"] is not None and 32 + len(g["prefix"]) <= g["maxlen"] <= 63:
        rr.ok(f"names longer than {g['maxlen']} are replaced by a 32-char base32 sha1 (+ prefix): at most {32 + len(g['prefix'])} <= 63 characters")
    else:
        rr.bad(gfi, gfi.node, f"name length bound {g['maxlen']} is not within the 63 characters feature files allow", construct=f"_MAX_NAME_LEN = {g['maxlen']}")
    hashes = [n for n in ast.walk(gfi.node) if isinstance(n, ast.Call) and norm(n.func) in ("hashlib.sha1", "base64.b32encode")]
    if len(hashes) >= 2:
        rr.ok("long names: sha1 -> base32")
    # the first-character test is applied to whatever name is returned (a base32 digest may start with 2-7)
    gcfg = cfg_of(gfi)
    rets = [st for st in walk_body(gfi) if isinstance(st, ast.Return) and st.value is not None]
    tnode = gcfg.node_for(g["cond_node"])
    if rets and all(gcfg.dominates(tnode, gcfg.node_for(r)) for r in rets) and not any(
            d.node != gcfg.node_for(g["cond_node"].body[0]) and gcfg.dominates(tnode, d.node) for r in rets for d in gcfg.reaching(gcfg.node_for(r), "name")):
        rr.ok("every returned name passes the first-character test after its last modification (hashed names included)")
    else:
        rr.bad(gfi, g["cond_node"], "a path returns a name that did not pass the first-character test (e.g. the base32 digest of a long sequence, which starts with a digit "
               "in about one case out of five): such a name is not a legal feature-file glyph name", construct="glyph_name: return not dominated by the prefix test")


@RULES.rule("C04", "R04e", "glyph names of distinct codepoint sequences are distinct (regular-language abstraction of glyph_name)", floor=3)
def r04e(model: Model, rr: RuleResult):
    r04e_impl(model, rr)


@RULES.rule("C10", "R10e", "glyph names of distinct sequences are distinct and legal in feature files (= R04e)", floor=3)
def r10e(model: Model, rr: RuleResult):
    r04e_impl(model, rr)


@RULES.rule("C04", "R04f", "two inputs never share a glyph name or codepoint sequence (= R17a)", floor=2)
def r04f(model: Model, rr: RuleResult):
    gfi = model.func("write_font", "_generate_color_font")
    for attr, what in (("glyph_name", "glyph name"), ("codepoints", "codepoint sequence")):
        got = uniqueness_checks(model, attr)
        if got:
            rr.ok(f"{what}: {got[0]}")
        elif getattr(uniqueness_checks, "pair_keys", None):
            pfi, pst, ptxt = uniqueness_checks.pair_keys[0]
            rr.bad(pfi, pst, f"the only duplicate check is keyed on glyph name AND codepoints together (`{ptxt}`): inputs sharing just the {what} are merged", construct=f"uniqueness check on the pair instead of {attr}")
        else:
            rr.bad_shape(gfi, gfi.node, f"no check rejects two inputs with the same {what}: one source's artwork would replace or merge with another's",
                   construct=f"_generate_color_font: no uniqueness check on {attr}")
