"""C06 — shape and gradient reuse never changes what is painted; C19 — congruent copies are stored once.
(shared structural rules on the reuse machinery)"""
from __future__ import annotations

import ast
from typing import List, Optional

from ..cfg import cfg_of
from ..dataflow import expr_closure
from ..guards import fact_calls, flag_values, guard_facts, guarded_names, same_defs
from ..model import (AnalysisError, Model, calls_in, callee_tail, find_calls, kwarg, names_in, norm, short, walk_body)
from ..report import RULES, RuleResult
from .spaces_common import report

WHY = "Under reuse the donor outline is drawn through a transform; paints attached to it must be counter-transformed consistently"


def _canon_get(t: str) -> str:
    """`d.get(k)` and `d[k]` denote the same entry when the key is known to be present."""
    class G(ast.NodeTransformer):
        def visit_Call(self, n):
            self.generic_visit(n)
            if isinstance(n.func, ast.Attribute) and n.func.attr == "get" and len(n.args) == 1 and not n.keywords and norm(n.func.value).startswith("self."):
                return ast.Subscript(value=n.func.value, slice=n.args[0], ctx=ast.Load())
            return n
    try:
        return norm(G().visit(ast.parse(t, mode="eval").body))
    except SyntaxError:
        return t


class DonorNotReplaced(Exception):
    def __init__(self, call):
        self.call = call


def reuse_cache_roles(model: Model) -> dict:
    """Role-based reading of GlyphReuseCache (names of locals, of the dict attribute and `.get` vs `in` + index do not matter)."""
    from ..dataflow import resolved_text
    tfi = model.func("glyph_reuse", "GlyphReuseCache.try_reuse")
    afi = model.func("glyph_reuse", "GlyphReuseCache.add_glyph")
    tcfg, acfg = cfg_of(tfi), cfg_of(afi)
    out = {"tfi": tfi, "afi": afi}
    stores = [st for st in walk_body(afi) if isinstance(st, ast.Assign) and isinstance(st.targets[0], ast.Subscript) and norm(st.targets[0].value).startswith("self.")]
    sd = [c for c in calls_in(afi) if callee_tail(c) == "setdefault" and norm(c.func.value).startswith("self.")]
    if not stores and sd:
        raise DonorNotReplaced(sd[0])
    if len(stores) != 1:
        raise AnalysisError("GlyphReuseCache.add_glyph: expected one store into the donor table")
    st = stores[0]
    out["table"] = norm(st.targets[0].value)
    out["store_value"] = resolved_text(acfg, acfg.node_for(st), st.value, afi)
    kd = acfg.reaching(acfg.node_for(st), st.targets[0].slice.id) if isinstance(st.targets[0].slice, ast.Name) else []
    keys = []
    for d in kd:
        if d.value is not None:
            v = d.value
            if isinstance(v, ast.IfExp):
                keys += [(norm(v.test), resolved_text(acfg, d.node, v.body, afi)), ("not " + norm(v.test), resolved_text(acfg, d.node, v.orelse, afi))]
            else:
                facts = [(norm(e), pol) for e, pol in guard_facts(acfg, d.node)]
                keys.append((" and ".join(f if pol else f"not {f}" for f, pol in facts), resolved_text(acfg, d.node, v, afi)))
    if not kd:
        keys.append(("", resolved_text(acfg, acfg.node_for(st), st.targets[0].slice, afi)))
    out["store_keys"] = keys
    ab = find_calls(tfi, "affine_between")
    out["affine_between"] = [_canon_get(resolved_text(tcfg, tcfg.node_for(ab[0]), a, tfi)) for a in ab[0].args] if len(ab) == 1 else None
    rets = [x for x in walk_body(tfi) if isinstance(x, ast.Return) and isinstance(x.value, ast.Call) and callee_tail(x.value) == "ReuseResult"]
    out["result_name"] = _canon_get(resolved_text(tcfg, tcfg.node_for(rets[0]), rets[0].value.args[0], tfi)) if len(rets) == 1 and rets[0].value.args else None
    nones = [x for x in walk_body(tfi) if isinstance(x, ast.Return) and (x.value is None or norm(x.value) == "None")]
    reasons = []
    for x in nones:
        f = guard_facts(tcfg, tcfg.node_for(x), skip_abort_guards=True)
        if not f:
            reasons.append(("<unconditional>", True))
            continue
        e, pol = f[-1]
        reasons.append((_canon_get(resolved_text(tcfg, tcfg.node_for(x), e, tfi)), pol))
    out["none_reasons"] = reasons
    return out


@RULES.rule("C06", "R06a", "coordinate-space consistency of both reuse branches (COLR wrapper and OT-SVG <use>)", floor=60)
def r06a(model: Model, rr: RuleResult):
    report(model, rr, [("write_font", "_migrate_paths_to_ufo_glyphs._update_paint_glyph"), ("svg", "_add_glyph"), ("svg", "_apply_paint"),
                       ("svg", "_apply_gradient_paint")], WHY)


def _overflow_flag(wcfg, facts):
    """The flag tested on the way to the reuse return, found by role: a plain name one of whose definitions tests fixed_safe -> (name, value it has there)."""
    flag = None
    for name, val in flag_values(facts).items():
        if any(d.value is not None and "fixed_safe" in norm(d.value) for d in wcfg.all_defs(name)):
            flag = (name, val)
    return flag


def _failing_edges_cannot_reach(cfg, fi, name: str, target: int) -> bool:
    """There is a test `fixed_safe(*name)` in the function and from none of its failing edges the target can be reached on a path consistent with the constants
    the path assigns (`name = None` ... `if name is None: return None`)."""
    tests = []
    for n_ in walk_body(fi):
        if isinstance(n_, ast.If) and f"fixed_safe(*{name})" in norm(n_.test).replace("not ", ""):
            neg = isinstance(n_.test, ast.UnaryOp) and isinstance(n_.test.op, ast.Not)
            tests.append((cfg.node_for(n_), "T" if neg else "F"))
    if not tests:
        return False
    for tn, fail_lab in tests:
        for t_, lab in cfg.nodes[tn].succs:
            if lab == fail_lab and _reaches_consistently(cfg, t_, target):
                return False
    # and every way from the entry to the target passes one of the tests
    if _reaches_consistently(cfg, cfg.entry, target, blocked=frozenset(tn for tn, _ in tests)):
        return False
    # what is returned is what was tested: every binding of `name` that reaches the target (None sentinels and `x = x` aside) also reaches one of the tests
    def origins(node, depth=4):
        out = set()
        for d in cfg.reaching(node, name):
            if isinstance(d.value, ast.Constant) and d.value.value is None:
                continue
            if isinstance(d.value, ast.Name) and d.value.id == name and depth > 0:
                out |= origins(d.node, depth - 1)
            else:
                out.add(id(d))
        return out
    tested = set()
    for tn, _ in tests:
        tested |= origins(tn)
    return origins(target) <= tested


def r06b_impl(model: Model, rr: RuleResult):
    # try_reuse returns a result only under fixed_safe(*affine)
    fi = model.func("glyph_reuse", "GlyphReuseCache.try_reuse")
    cfg = cfg_of(fi)
    rets = [st for st in walk_body(fi) if isinstance(st, ast.Return) and isinstance(st.value, ast.Call) and norm(st.value.func) == "ReuseResult"]
    if len(rets) != 1:
        raise AnalysisError("try_reuse: expected one 'return ReuseResult(...)'")
    at = cfg.node_for(rets[0])
    facts = guard_facts(cfg, at)
    aff = rets[0].value.args[1] if len(rets[0].value.args) > 1 else kwarg(rets[0].value, "transform")
    if isinstance(aff, ast.Name) and aff.id in guarded_names(facts, "fixed_safe") and all(
            same_defs(cfg, cfg.node_for(c), at, aff.id) for c in fact_calls(facts, "fixed_safe")):
        rr.ok("try_reuse returns ReuseResult(_, affine) only under fixed_safe(*affine)")
    elif isinstance(aff, ast.Name) and _failing_edges_cannot_reach(cfg, fi, aff.id, at):
        rr.ok("try_reuse: every failing edge of fixed_safe(*affine) leaves without reaching the ReuseResult (sentinel / early exit instead of a dominating test)")
    elif isinstance(aff, ast.Name) and fact_calls(facts, "fixed_safe") and not all(same_defs(cfg, cfg.node_for(c), at, aff.id) for c in fact_calls(facts, "fixed_safe")):
        late = [d for d in cfg.reaching(at, aff.id) if d.value is not None and not any(d in cfg.reaching(cfg.node_for(c), aff.id) for c in fact_calls(facts, "fixed_safe"))]
        rr.bad(fi, (late[0].stmt if late and late[0].stmt is not None else rets[0]), f"`{aff.id}` is bound again after fixed_safe(*{aff.id}) was tested "
               f"({short(late[0].value, 60) if late else '?'}): the transform that is returned is not the one that was checked against the 16.16 range",
               construct=f"try_reuse: {aff.id} rebound after the fixed_safe test")
    else:
        rr.bad(fi, rets[0], "try_reuse can return a transform that does not fit OpenType Fixed (16.16): PaintTransform would overflow at compile time",
               construct=f"{short(rets[0])} without dominating fixed_safe")
    if any(pol is False and isinstance(e, ast.Compare) and isinstance(e.ops[0], ast.Is) and norm(e.left) == norm(aff) and norm(e.comparators[0]) == "None" for e, pol in facts):
        rr.ok("try_reuse returns None when affine_between finds no transform")
    else:
        rr.bad(fi, rets[0], "try_reuse no longer bails out when affine_between returns None", construct="try_reuse: affine is None check")
    ab = find_calls(fi, "affine_between")
    try:
        roles = reuse_cache_roles(model)
    except DonorNotReplaced as e:
        afi0 = model.func("glyph_reuse", "GlyphReuseCache.add_glyph")
        rr.bad(afi0, e.call, f"{short(e.call, 70)}: the donor table keeps the FIRST shape registered for a normal form. A shape that had to be stored again because no exact affine "
               f"to that first donor exists is registered but never becomes the donor, so all of its own later copies are compared with the wrong shape and stored again too",
               construct="GlyphReuseCache.add_glyph: setdefault instead of assignment")
        return
    KEY = "normalize(SVGPath(d=path), self._normalize_tolerance).d"
    ENTRY = f"{roles['table']}[{KEY}]"
    if roles["affine_between"] == [f"SVGPath(d={ENTRY}[1])", "SVGPath(d=path)", "self._reuse_tolerance"]:
        rr.ok("affine_between(donor path, new path, reuse tolerance): transform maps donor -> new")
    else:
        rr.bad_shape(fi, fi.node, "affine_between is not called as (donor, new path, tolerance): the reuse transform would point the wrong way or ignore the tolerance",
               construct=f"try_reuse: {short(ab[0]) if ab else 'affine_between missing'}")
    # write_font: reuse return dominated by `not overflows`; overflows covers the combined gradient transform
    wf = model.func("write_font", "_migrate_paths_to_ufo_glyphs._update_paint_glyph")
    wcfg = cfg_of(wf)
    rr_ret = [st for st in walk_body(wf) if isinstance(st, ast.Return) and isinstance(st.value, ast.Call) and norm(st.value.func) == "transformed"]
    if len(rr_ret) != 1:
        raise AnalysisError("_update_paint_glyph: reuse return not found")
    rn = wcfg.node_for(rr_ret[0])
    facts = guard_facts(wcfg, rn)
    # the flag that guards the reuse return is found by role: a name tested on the way to the return, one of whose definitions tests fixed_safe
    at_calls = [c for c in calls_in(wf) if callee_tail(c) == "apply_transform" and "child_paint" in norm(c.func)]
    applied = norm(at_calls[0].args[0]) if at_calls and at_calls[0].args else None
    if not at_calls:
        # the try/except around apply_transform moved into a helper the reference tree does not have: the transform it is handed is the one applied
        from .. import report as _rep6
        for c in calls_in(wf):
            callee = model.resolve_call(wf, c)
            if callee is None or isinstance(callee.node, ast.Lambda) or _rep6.CURRENT_DRIFT.get(callee.fq, 0) is not None:
                continue
            inner = [x for x in calls_in(callee, nested=True) if callee_tail(x) == "apply_transform" and x.args and isinstance(x.args[0], ast.Name) and x.args[0].id in callee.params]
            if inner:
                idx = [p_ for p_ in callee.params].index(inner[0].args[0].id)
                if idx < len(c.args):
                    applied = norm(c.args[idx])
                    at_calls = [c]
                    break
    from ..guards import _atoms
    flag = _overflow_flag(wcfg, facts)
    direct = [c for c in fact_calls(facts, "fixed_safe") if applied and norm(c.args[0]) == f"*{applied}"] if facts else []
    if flag is not None:
        name, val = flag
        covered, wrong = 0, []
        for d in wcfg.reaching(rn, name):
            if d.value is None:
                wrong.append(d)
            elif isinstance(d.value, ast.Constant):
                if bool(d.value.value) != val:
                    continue  # this definition never reaches the return: the test on the flag excludes it
            else:
                at = [(e, pol) for e, pol in _atoms(d.value, val, wcfg, d.node) if isinstance(e, ast.Call) and callee_tail(e) == "fixed_safe"]
                if any(pol and applied and norm(e.args[0]) == f"*{applied}" for e, pol in at):
                    covered += 1
                else:
                    wrong.append(d)
        if covered and not wrong:
            rr.ok(f"reuse wrapper is returned only when `{name}` is {val}")
            rr.ok(f"`{name}` is {val} only when fixed_safe(*{applied}) holds for the very transform applied to the gradient")
        elif wrong and covered == 0 and any(d.value is not None and "fixed_safe" in norm(d.value) for d in wrong):
            rr.bad(wf, wf.node, f"`{name}` does not test the transform that is applied to the gradient", construct="_update_paint_glyph: overflows definition")
            rr.ok("reuse wrapper return is guarded by a flag")
        else:
            rr.bad(wf, rr_ret[0], "the reuse wrapper is returned although the counter-transform of the gradient may overflow", construct="reuse return not guarded by `not overflows`")
    elif direct:
        rr.ok("reuse wrapper is returned only under fixed_safe of the transform applied to the gradient")
        rr.ok("(no flag variable)")
    else:
        # no flag, no dominating test: positive evidence when the fixed_safe test of the applied transform exists and its failing edge still reaches the reuse return
        escaped = False
        tested = False
        for n_ in walk_body(wf):
            if isinstance(n_, ast.If) and applied and f"fixed_safe(*{applied})" in norm(n_.test).replace("not ", ""):
                tn = wcfg.node_for(n_)
                tested = True
                neg = isinstance(n_.test, ast.UnaryOp) and isinstance(n_.test.op, ast.Not)
                fail_lab = "T" if neg else "F"
                for t_, lab in wcfg.nodes[tn].succs:
                    if lab == fail_lab and (t_ == rn or rn in wcfg.reachable_from(t_)) and _reaches_consistently(wcfg, t_, rn):
                        escaped = True
        if escaped:
            rr.bad(wf, rr_ret[0], "the reuse wrapper is returned although the counter-transform of the gradient may overflow", construct="reuse return not guarded by `not overflows`")
        elif tested and at_calls and wcfg.dominates(wcfg.node_for([n_ for n_ in walk_body(wf) if isinstance(n_, ast.If) and applied and f"fixed_safe(*{applied})" in norm(n_.test).replace("not ", "")][0]), wcfg.node_for(at_calls[0])):
            rr.ok("the failing edge of fixed_safe(*transform) leaves without reaching the reuse wrapper (early exit instead of a flag)")
            rr.ok("(no flag variable)")
        else:
            rr.bad_shape(wf, rr_ret[0], "the reuse wrapper is returned although the counter-transform of the gradient may overflow", construct="reuse return not guarded by `not overflows`")
    # OverflowError fallback wraps with the same transform
    handlers = [h for n in walk_body(wf) if isinstance(n, ast.Try) for h in n.handlers]
    good = False
    other = None
    for h in handlers:
        if h.type is not None and "OverflowError" in norm(h.type):
            for st in h.body:
                if isinstance(st, ast.Assign) and isinstance(st.value, ast.Call) and norm(st.value.func) == "transformed" and at_calls and len(st.value.args) == 2 \
                        and norm(st.value.args[1]) == norm(st.targets[0]):
                    if norm(st.value.args[0]) == norm(at_calls[0].args[0]):
                        good = True
                    else:
                        other = st
    if good:
        rr.ok("OverflowError fallback: child_paint = transformed(transform, child_paint) with the same transform")
    elif other is not None:
        rr.bad(wf, other, f"the OverflowError fallback wraps the untouched gradient in {short(other.value.args[0], 60)}, not in the counter-transform {short(at_calls[0].args[0], 60)} "
               f"that apply_transform was asked for", construct="_update_paint_glyph: except OverflowError")
    else:
        rr.bad_shape(wf, wf.node, "the OverflowError fallback does not wrap the untouched gradient in the same counter-transform", construct="_update_paint_glyph: except OverflowError")
    # when reuse is abandoned the shape is emitted un-reused
    cg = find_calls(wf, "_create_glyph")
    if len(cg) == 1:
        fname = flag[0] if flag is not None else "fixed_safe"
        tests = [st for st in walk_body(wf) if isinstance(st, ast.If) and fname in norm(st.test) and any(x is rr_ret[0] for x in ast.walk(st))]
        if tests and wcfg.path_exists(wcfg.node_for(tests[0]), wcfg.node_for(cg[0]), avoid={rn}):
            rr.ok("abandoned reuse falls through to _create_glyph (shape emitted un-reused)")
        else:
            rr.bad_shape(wf, wf.node, "when reuse is abandoned control does not reach the un-reused emission", construct="_update_paint_glyph: fall-through")
    san = [st for st in walk_body(wf) if isinstance(st, ast.Assert) and "fixed_safe(*reuse_result.transform)" in norm(st.test)]
    if san:
        rr.ok("sanity assertion fixed_safe(*reuse_result.transform) present")


def _reaches_consistently(cfg, start: int, target: int, limit: int = 4000, blocked=frozenset()) -> bool:
    """Is `target` reachable from `start` along a path that agrees with the constants the path itself assigns?  `x = None` ... `if x is not None: <target>` is
    not such a path.  Tests on names the path gave a constant to (truthiness, `not`, `is None`, `is not None`, `== c`) are followed on their consistent edge only;
    every other test on both edges."""
    def ev(test, env):
        if isinstance(test, ast.UnaryOp) and isinstance(test.op, ast.Not):
            r = ev(test.operand, env)
            return None if r is None else (not r)
        if isinstance(test, ast.Name) and test.id in env:
            return bool(env[test.id])
        if isinstance(test, ast.Compare) and len(test.ops) == 1 and isinstance(test.left, ast.Name) and test.left.id in env and isinstance(test.comparators[0], ast.Constant):
            v, c = env[test.left.id], test.comparators[0].value
            op = test.ops[0]
            if isinstance(op, ast.Is):
                return v is c
            if isinstance(op, ast.IsNot):
                return v is not c
            if isinstance(op, ast.Eq):
                return v == c
            if isinstance(op, ast.NotEq):
                return v != c
        return None
    seen = set()
    todo = [(start, ())]
    steps = 0
    while todo and steps < limit:
        steps += 1
        n, envt = todo.pop()
        if n == target:
            return True
        if (n, envt) in seen or n in blocked:
            continue
        seen.add((n, envt))
        env = dict(envt)
        node = cfg.nodes[n]
        st = node.ast
        if isinstance(st, ast.Assign) and len(st.targets) == 1 and isinstance(st.targets[0], ast.Name):
            if isinstance(st.value, ast.Constant):
                env[st.targets[0].id] = st.value.value
            else:
                env.pop(st.targets[0].id, None)
        elif isinstance(st, (ast.AugAssign, ast.For)):
            for m in ast.walk(getattr(st, "target", st)):
                if isinstance(m, ast.Name):
                    env.pop(m.id, None)
        test = getattr(st, "test", None) if isinstance(st, (ast.If, ast.While)) else None
        verdict = ev(test, env) if test is not None else None
        for t_, lab in node.succs:
            if verdict is not None and lab in ("T", "F") and (lab == "T") != verdict:
                continue
            todo.append((t_, tuple(sorted(env.items(), key=lambda kv: kv[0]))))
    return False


@RULES.rule("C06", "R06b", "reuse falls back to the un-reused emission when a transform is not representable", floor=7)
def r06b(model: Model, rr: RuleResult):
    r06b_impl(model, rr)


def r06c_impl(model: Model, rr: RuleResult):
    n = 0
    for mod in model.modules.values():
        for fi in mod.functions.values():
            for c in walk_body(fi):
                if isinstance(c, ast.Compare) and len(c.ops) == 1:
                    l, r = c.left, c.comparators[0]
                    for a, b in ((l, r), (r, l)):
                        if "reuse_tolerance" in norm(a):
                            val = None
                            if isinstance(b, ast.UnaryOp) and isinstance(b.op, ast.USub) and isinstance(b.operand, ast.Constant):
                                val = -b.operand.value
                            elif isinstance(b, ast.Constant) and isinstance(b.value, (int, float)) and not isinstance(b.value, bool):
                                val = b.value
                            if val is None:
                                continue
                            n += 1
                            if isinstance(c.ops[0], (ast.Eq, ast.NotEq)) and val < 0:
                                rr.bad(fi, c, f"'{short(c)}' tests one negative value; the flag documents that ANY negative tolerance disables reuse "
                                       f"(e.g. -2 reaches normalize() and divides by zero)", construct=f"{fi.fq}: {short(c)}")
                            elif isinstance(c.ops[0], (ast.Lt, ast.GtE, ast.LtE, ast.Gt)) and val == 0:
                                rr.ok(f"{fi.fq}: {short(c)} covers the whole negative half-line")
                            else:
                                rr.unknown(f"{fi.fq}: {short(c)}")
    if n < 4:
        raise AnalysisError(f"only {n} reuse_tolerance sentinel comparisons found")
    # the help text still says so (the oracle of this rule)
    flags = [c for c in ast.walk(model.mod("config").tree) if isinstance(c, ast.Call) and norm(c.func).startswith("flags.DEFINE_") and c.args and norm(c.args[0]) == "'reuse_tolerance'"]
    if flags and "negative value means that shape reuse is disabled" in " ".join(s for s in [x.value for x in ast.walk(flags[0]) if isinstance(x, ast.Constant) and isinstance(x.value, str)]):
        rr.ok("flag help documents: a negative value disables reuse")
    else:
        rr.unknown("reuse_tolerance help text no longer documents the negative sentinel")


@RULES.rule("C06", "R06c", "the 'reuse disabled' sentinel covers every negative tolerance", floor=5)
def r06c(model: Model, rr: RuleResult):
    r06c_impl(model, rr)


def r06d_impl(model: Model, rr: RuleResult):
    wf = model.func("write_font", "_migrate_paths_to_ufo_glyphs._update_paint_glyph")
    cfg = cfg_of(wf)
    tr = find_calls(wf, "try_reuse")
    ag = find_calls(wf, "add_glyph")
    cg = find_calls(wf, "_create_glyph")
    if len(tr) == 1 and len(cg) == 1 and not ag:
        rr.bad(wf, cg[0], "new outline glyphs are never registered in the reuse cache (no add_glyph call): no later copy can reuse them",
               construct="_update_paint_glyph: _create_glyph without add_glyph")
        return
    if len(tr) != 1 or not ag or not cg or len(ag) != len(cg):
        raise AnalysisError("_update_paint_glyph: try_reuse/add_glyph/_create_glyph calls not found")
    a = tr[0].args[0]
    # every creation site (there may be several exits that store the shape un-reused) is paired with the registration that follows it
    for c_ in cg:
        pm_ = {ch: par for par in ast.walk(wf.node) for ch in ast.iter_child_nodes(par)}
        holder = pm_.get(c_)
        gname = holder.targets[0].id if isinstance(holder, ast.Assign) and len(holder.targets) == 1 and isinstance(holder.targets[0], ast.Name) else None
        mine = [g_ for g_ in ag if cfg.postdominates(cfg.node_for(g_), cfg.node_for(c_))]
        g_ = mine[0] if mine else None
        b = g_.args[1] if g_ is not None and len(g_.args) > 1 else None
        if g_ is not None and isinstance(a, ast.Name) and isinstance(b, ast.Name) and a.id == b.id and same_defs(cfg, cfg.node_for(tr[0]), cfg.node_for(g_), a.id):
            rr.ok(f"COLR: look-up key and insertion key are the same value ({a.id})")
        elif g_ is not None:
            rr.bad(wf, g_, f"the path looked up by try_reuse ({short(a)}) is not the path inserted by add_glyph ({short(b)}): later copies are compared "
                   f"with a different outline", construct=f"try_reuse({short(a)}) vs add_glyph(_, {short(b)})")
        if any(norm(x_) == norm(a) for x_ in list(c_.args[1:]) + [k_.value for k_ in c_.keywords]):
            rr.ok("the outline drawn into the new glyph is the same font-space path")
        else:
            rr.bad(wf, c_, "the glyph is drawn from a different path than the one registered for reuse", construct=short(c_))
        if g_ is not None and gname is not None and norm(g_.args[0]) == f"{gname}.name":
            rr.ok("every newly created outline glyph is registered in the reuse cache under its own name")
        else:
            rr.bad(wf, c_, "a newly created glyph may not be registered for reuse (or under another name)", construct="_create_glyph not followed by add_glyph(glyph.name, ...)")
    # svg.py
    gg = model.func("svg", "_glyph_groups")
    t2 = find_calls(gg, "try_reuse")
    ra = model.func("svg", "ReuseCache.add_glyph")
    a2 = [c for c in calls_in(ra) if callee_tail(c) == "add_glyph" and "glyph_cache" in norm(c.func)]
    if len(t2) == 1 and len(a2) == 1 and norm(t2[0].args[0]) == norm(a2[0].args[1]) == "context.paint.glyph":
        rr.ok("OT-SVG: look-up key and insertion key are both context.paint.glyph")
    else:
        rr.bad(gg, gg.node, "OT-SVG reuse looks up and inserts different path expressions", construct="svg: try_reuse vs add_glyph keys")
    el = [st for st in walk_body(ra) if isinstance(st, ast.Assign) and "glyph_elements[glyph_name]" in norm(st.targets[0])]
    if el and "context.paint.glyph" in norm(el[0].value):
        rr.ok("OT-SVG: the element stored for a glyph is built from the same path")
    else:
        rr.bad(ra, ra.node, "the stored element is not built from the path that was registered", construct="ReuseCache.add_glyph: element")
    # ReuseCache.add_glyph: None -> donor registered; result -> recorded
    facts_ok = False
    for c in a2:
        f = [(norm(e), pol) for e, pol in guard_facts(cfg_of(ra), cfg_of(ra).node_for(c))]
        if ("reuse_result is None", True) in f:
            facts_ok = True
    rec = [st for st in walk_body(ra) if isinstance(st, ast.Assign) and "reuse_results[glyph_name]" in norm(st.targets[0]) and norm(st.value) == "reuse_result"]
    if facts_ok and rec:
        rr.ok("ReuseCache.add_glyph: no reuse -> register as donor; reuse -> record the result under the glyph's name")
    else:
        rr.bad(ra, ra.node, "ReuseCache.add_glyph does not register donors / record reuse results consistently", construct="ReuseCache.add_glyph branches")
    # GlyphReuseCache: both normalisations use one tolerance and the same construction
    tfi = model.func("glyph_reuse", "GlyphReuseCache.try_reuse")
    afi = model.func("glyph_reuse", "GlyphReuseCache.add_glyph")
    try:
        roles = reuse_cache_roles(model)
    except DonorNotReplaced:
        return  # reported by R06b
    pp = afi.params[2] if len(afi.params) > 2 else "glyph_path"
    KEY = "normalize(SVGPath(d=path), self._normalize_tolerance).d"
    lookup_ok = any(KEY in (t or "") for t in (roles["affine_between"] or [])) or any(KEY in r for r, _ in roles["none_reasons"])
    store_norm = [k for c, k in roles["store_keys"] if "normalize(" in k]
    if lookup_ok and store_norm and all(k == KEY.replace("d=path", f"d={pp}") for k in store_norm):
        rr.ok("try_reuse and add_glyph normalise with the same tolerance (self._normalize_tolerance) and construction")
    else:
        rr.bad_shape(tfi, tfi.node, "look-up and insertion normalise with different tolerances/constructions: congruent shapes hash differently", construct="normalize(...) arguments differ")
    ifi = model.func("glyph_reuse", "GlyphReuseCache.__init__")
    nt = [st for st in walk_body(ifi) if isinstance(st, ast.Assign) and norm(st.targets[0]) == "self._normalize_tolerance"]
    if nt and "self._reuse_tolerance" in norm(nt[0].value):
        rr.ok("normalisation tolerance derives from the reuse tolerance")
    else:
        rr.bad(ifi, ifi.node, "normalisation tolerance no longer derives from the configured reuse tolerance", construct="GlyphReuseCache.__init__")
    ENTRY = f"{roles['table']}[{KEY}]"
    pn = afi.params[1] if len(afi.params) > 1 else "glyph_name"
    if roles["store_value"] == f"({pn}, {pp})" and roles["result_name"] == f"{ENTRY}[0]" and roles["affine_between"] and roles["affine_between"][0] == f"SVGPath(d={ENTRY}[1])":
        rr.ok("cache maps normalised path -> (donor glyph name, donor path); first field is the name, second the un-normalised path")
    else:
        # the store side is read from add_glyph, the two read sides from try_reuse: the report belongs to the function whose part does not read as expected
        at_fault = afi if roles["store_value"] != f"({pn}, {pp})" else tfi
        rr.bad_shape(at_fault, at_fault.node, "reuse cache entry is not (glyph name, original path) keyed by the normalised path", construct="_reusable_paths entry")


@RULES.rule("C06", "R06d", "look-up key = insertion key in both back ends; one normalisation tolerance", floor=8)
def r06d(model: Model, rr: RuleResult):
    r06d_impl(model, rr)


# ------------------------------------------------------------------------------------------- C19
@RULES.rule("C19", "R19a", "look-up key = insertion key; every new outline is registered (= R06d)", floor=8)
def r19a(model: Model, rr: RuleResult):
    r06d_impl(model, rr)


@RULES.rule("C19", "R19b", "reuse is taken whenever a donor exists and the transforms are representable", floor=7)
def r19b(model: Model, rr: RuleResult):
    wf = model.func("write_font", "_migrate_paths_to_ufo_glyphs._update_paint_glyph")
    cfg = cfg_of(wf)
    rets = [st for st in walk_body(wf) if isinstance(st, ast.Return) and isinstance(st.value, ast.Call) and norm(st.value.func) == "transformed"]
    if len(rets) != 1:
        raise AnalysisError("_update_paint_glyph: reuse return not found")
    rawf = guard_facts(cfg, cfg.node_for(rets[0]), skip_abort_guards=True)
    flag = _overflow_flag(cfg, rawf)
    facts = [(norm(e), pol) for e, pol in rawf if not (flag is not None and flag_values([(e, pol)]).get(flag[0]) is flag[1])]
    allowed = {("reuse_result is not None", True), ("reuse_result is None", False), ("overflows", False),
               ("paint.format != PaintGlyph.format", False), ("paint.format == PaintGlyph.format", True),
               ("glyph_cache.is_known_glyph(paint.glyph)", False)}
    extra = [f for f in facts if f not in allowed]
    # a sentinel in the place of the flag: `fill = None` exactly where fixed_safe(*transform) fails, reuse under `fill is not None`, is `not overflows`
    import re as _re19
    for f_ in list(extra):
        m_ = _re19.fullmatch(r"(\w+) is (not )?None", f_[0])
        if not m_ or (m_.group(2) is not None) != f_[1]:
            continue
        ds = cfg.reaching(cfg.node_for(rets[0]), m_.group(1))
        none_defs = [d for d in ds if isinstance(d.value, ast.Constant) and d.value.value is None]
        if none_defs and len(none_defs) < len(ds) and all(
                any(isinstance(e, ast.Call) and callee_tail(e) == "fixed_safe" and pol is False for e, pol in guard_facts(cfg, d.node)) for d in none_defs):
            extra.remove(f_)
    # a condition on a value that a function the reference tree does not have computed cannot be judged here (the overflow test may have moved there)
    from ..report import CURRENT_DRIFT as _CD
    via_new = False
    for e, pol in rawf:
        if (norm(e), pol) not in extra:
            continue
        for nm in names_in(e):
            for d in cfg.reaching(cfg.node_for(rets[0]), nm):
                if d.value is not None:
                    for c_ in ast.walk(d.value):
                        if isinstance(c_, ast.Call):
                            cal = model.resolve_call(wf, c_)
                            if cal is not None and _CD.get(cal.fq, 0) is None:
                                via_new = True
    if not extra:
        rr.ok("COLR: between 'a donor exists' and the reuse wrapper the only blocking condition is `overflows`")
    elif via_new:
        rr.shape(wf, rets[0], f"reuse is additionally blocked by {extra}, a condition on the result of a function the reference tree does not have", construct=f"reuse return under {extra}")
    else:
        rr.bad(wf, rets[0], f"reuse is additionally blocked by {extra}: congruent copies would be stored separately", construct=f"reuse return under {extra}")
    # try_reuse is consulted for every path that is not already a glyph
    tr = find_calls(wf, "try_reuse")
    f2 = [(norm(e), pol) for e, pol in guard_facts(cfg, cfg.node_for(tr[0]), skip_abort_guards=True)]
    extra2 = [f for f in f2 if f not in allowed]
    if len(tr) == 1 and not extra2:
        rr.ok("COLR: try_reuse is consulted for every PaintGlyph that still carries a path")
    else:
        rr.bad(wf, tr[0], f"try_reuse is skipped under {extra2}", construct=f"try_reuse under {extra2}")
    # GlyphReuseCache.try_reuse: returns None only for: disabled, unknown normal form, no affine, overflow
    tfi = model.func("glyph_reuse", "GlyphReuseCache.try_reuse")
    tcfg = cfg_of(tfi)
    nones = [st for st in walk_body(tfi) if isinstance(st, ast.Return) and (st.value is None or norm(st.value) == "None")]
    reasons = []
    for st in nones:
        f = [(norm(e), pol) for e, pol in guard_facts(tcfg, tcfg.node_for(st), skip_abort_guards=True)]
        reasons.append(f[-1] if f else ("<unconditional>", True))
    try:
        roles = reuse_cache_roles(model)
    except DonorNotReplaced as e:
        rr.bad(model.func("glyph_reuse", "GlyphReuseCache.add_glyph"), e.call, f"{short(e.call, 70)}: the first shape registered for a normal form stays the donor for ever; a "
               f"shape stored again because it is no exact affine image of that donor never donates, so its copies are stored again as well", construct="GlyphReuseCache.add_glyph: setdefault instead of assignment")
        return
    KEY = "normalize(SVGPath(d=path), self._normalize_tolerance).d"
    TBL = roles["table"]
    AFF = f"affine_between(SVGPath(d={TBL}[{KEY}][1]), SVGPath(d=path), self._reuse_tolerance)"

    def _canon_reason(r):
        t, pol = r
        if t in (f"{KEY} not in {TBL}", f"{TBL}[{KEY}] is None") and pol:
            return ("<no donor for the normal form>", True)
        if t == f"{KEY} in {TBL}" and not pol:
            return ("<no donor for the normal form>", True)
        if t == f"{AFF} is None" and pol:
            return ("affine is None", True)
        if t == f"fixed_safe(*{AFF})":
            return ("fixed_safe(*affine)", pol)
        return r
    reasons = [_canon_reason(r) for r in roles["none_reasons"]]
    want = [("self._reuse_tolerance < 0", True), ("<no donor for the normal form>", True), ("affine is None", True), ("fixed_safe(*affine)", False)]
    if reasons == want:
        rr.ok("try_reuse gives up only when: reuse disabled / no donor with that normal form / no affine within tolerance / affine overflows Fixed")
    elif all(w in reasons for w in want) and len(reasons) > len(want):
        extra_r = [r for r in reasons if r not in want]
        rr.bad(tfi, tfi.node, f"try_reuse also gives up when {extra_r} (besides: disabled / no donor / no affine / overflow): congruent copies that meet this condition are stored "
               f"again", construct=f"try_reuse None-returns: extra {extra_r}")
    else:
        rr.bad_shape(tfi, tfi.node, f"try_reuse returns None for reasons {reasons}; expected exactly {want}", construct=f"try_reuse None-returns: {reasons}")
    # OT-SVG: a truthy reuse result always yields a <use>
    sf = model.func("svg", "_add_glyph")
    scfg = cfg_of(sf)
    uses = find_calls(sf, "_create_use_element")
    if len(uses) != 1:
        raise AnalysisError("_add_glyph: _create_use_element call not found")
    tests = [st for st in walk_body(sf) if isinstance(st, ast.If) and norm(st.test) == "reuse_result"]
    if len(tests) == 1:
        tn = scfg.node_for(tests[0])
        un = scfg.node_for(uses[0])
        # from the true edge, every path that completes the loop iteration normally passes the <use> creation
        succ = [t for t, lab in scfg.nodes[tn].succs if lab == "T"]
        bypass = False
        for s0 in succ:
            reach = scfg.reachable_from(s0, avoid={un})
            # nodes after the if-statement (the path bookkeeping) reachable without <use> creation?
            after = [c for c in calls_in(sf) if callee_tail(c) == "add" and "complete_paths" in norm(c.func)]
            if after and scfg.node_for(after[0]) in reach:
                bypass = True
        if not bypass:
            rr.ok("OT-SVG: every non-raising path with a reuse result creates a <use>")
        else:
            rr.bad(sf, tests[0], "a reuse result can be ignored without creating a <use>", construct="_add_glyph: reuse path bypasses _create_use_element")
    gg = model.func("svg", "_glyph_groups")
    gcfg = cfg_of(gg)
    t2 = find_calls(gg, "try_reuse")
    f3 = [(norm(e), pol) for e, pol in guard_facts(gcfg, gcfg.node_for(t2[0]))]
    ok3 = all(("notdef" in t) or ("isinstance(context.paint, PaintGlyph)" in t) for t, pol in f3)
    if ok3:
        rr.ok("OT-SVG: try_reuse is consulted for every PaintGlyph outside .notdef")
    else:
        rr.bad(gg, t2[0], f"OT-SVG reuse look-up is skipped under {f3}", construct=f"_glyph_groups: try_reuse under {f3}")
    # a donor that try_reuse found is not discarded before it is recorded
    adds = [c for c in calls_in(gg) if callee_tail(c) == "add_glyph" and len(c.args) == 3]
    if len(adds) == 1 and isinstance(adds[0].args[2], ast.Name):
        ds = gcfg.reaching(gcfg.node_for(adds[0]), adds[0].args[2].id)
        if ds and all(isinstance(d.value, ast.Call) and callee_tail(d.value) == "try_reuse" for d in ds):
            rr.ok("OT-SVG: the result of try_reuse reaches ReuseCache.add_glyph unmodified")
        else:
            rr.bad(gg, adds[0], f"the reuse result recorded for a glyph is not always what try_reuse returned ({[short(d.value) for d in ds]}): a found donor "
                   f"can be discarded and the shape stored again", construct=f"_glyph_groups: reuse_result redefined before add_glyph")
    wfu = model.func("write_font", "_migrate_paths_to_ufo_glyphs._update_paint_glyph")
    wcfg2 = cfg_of(wfu)
    trc = find_calls(wfu, "try_reuse")
    uses = [n for n in walk_body(wfu) if isinstance(n, ast.Name) and n.id == "reuse_result" and isinstance(n.ctx, ast.Load)]
    if trc and uses and all(len(ds) == 1 and isinstance(ds[0].value, ast.Call) and callee_tail(ds[0].value) == "try_reuse"
                            for ds in (wcfg2.reaching(wcfg2.node_for(u), "reuse_result") for u in uses)):
        rr.ok("COLR: reuse_result is bound once, by try_reuse")
    else:
        rr.bad(wfu, wfu.node, "reuse_result is redefined after try_reuse in the COLR path", construct="_update_paint_glyph: reuse_result redefined")
    pc = [c for c in calls_in(model.func("svg", "_picosvg_docs")) if norm(c.func) == "GlyphReuseCache"]
    for modname, fn in (("write_font", "_colr_ufo"), ("write_font", "_glyf_ufo"), ("svg", "_picosvg_docs")):
        f4 = model.func(modname, fn)
        cs = [c for c in calls_in(f4) if norm(c.func) == "GlyphReuseCache"]
        loops = [st for st in walk_body(f4) if isinstance(st, ast.For)]
        inside = any(any(x is c for x in ast.walk(lp)) for c in cs for lp in loops)
        if len(cs) == 1 and not inside and norm(cs[0].args[0]) == "config.reuse_tolerance":
            rr.ok(f"{fn}: one GlyphReuseCache(config.reuse_tolerance) shared by all glyphs of the font (cross-glyph reuse)")
        else:
            rr.bad(f4, f4.node, f"{fn}: the reuse cache is not a single font-wide cache built from config.reuse_tolerance", construct=f"{fn}: GlyphReuseCache construction")


@RULES.rule("C19", "R19c", "reuse is disabled only by the documented sentinel (= R06c)", floor=5)
def r19c(model: Model, rr: RuleResult):
    r06c_impl(model, rr)


@RULES.rule("C06", "R06e", "a gradient definition is shared only between paints that agree in every field of the reuse key (paint and residual transform)", floor=2)
def r06e(model: Model, rr: RuleResult):
    from ..dataflow import param_closure
    mod = model.mod("svg")
    fields = [f for f, _, _ in mod.cls("GradientReuseKey").fields]
    if fields[:2] != ["paint", "transform"]:
        raise AnalysisError(f"GradientReuseKey fields changed: {fields}")
    n = 0
    for mname in ("svg", "colr_to_svg"):
        m = model.mod(mname)
        for fi in m.functions.values():
            for c in calls_in(fi):
                if callee_tail(c) != "GradientReuseKey":
                    continue
                n += 1
                given = set(fields[: len(c.args)]) | {k.arg for k in c.keywords}
                cfg = cfg_of(fi)
                miss = [f for f in fields if f not in given]
                if miss:
                    rr.bad(fi, c, f"{short(c)} leaves out {miss} (which then defaults to the identity): two gradients with equal stops and circles but different residual "
                           f"transforms (a radial gradient on a non-uniformly scaled copy) share one definition, so one of them is painted with the other's gradientTransform",
                           construct=f"{mname}.{fi.qualname}: GradientReuseKey without {miss}")
                    continue
                targ = c.args[1] if len(c.args) > 1 else kwarg(c, "transform")
                if "transform" in fi.params and "transform" not in param_closure(cfg, cfg.node_for(c), targ):
                    rr.bad(fi, c, f"the key's transform {short(targ)} does not derive from the transform being applied", construct=f"{mname}.{fi.qualname}: GradientReuseKey transform")
                else:
                    rr.ok(f"{mname}.{fi.qualname}: {short(c)} keys on the paint and the residual transform")
    if n < 1:
        raise AnalysisError("no GradientReuseKey(...) construction found")
    gfi = model.func("svg", "_apply_gradient_paint")
    dfn = [c for c in calls_in(gfi) if callee_tail(c) == "_define_gradient"]
    # names used as key of the gradient cache: gradient_ids.get(K) / gradient_ids[K]
    keyvars = set()
    for x in walk_body(gfi):
        if isinstance(x, ast.Call) and callee_tail(x) == "get" and "gradient_ids" in norm(x.func) and x.args and isinstance(x.args[0], ast.Name):
            keyvars.add(x.args[0].id)
        if isinstance(x, ast.Subscript) and "gradient_ids" in norm(x.value) and isinstance(x.slice, ast.Name):
            keyvars.add(x.slice.id)

    def is_key_transform(c):
        if len(c.args) < 3:
            return False
        t = c.args[2]
        if isinstance(t, ast.Name) and t.id == "transform":
            return True
        return isinstance(t, ast.Attribute) and t.attr == "transform" and isinstance(t.value, ast.Name) and t.value.id in keyvars
    if dfn and all(is_key_transform(c) for c in dfn):
        rr.ok("the gradient is defined with the same transform that is in the key")
    else:
        rr.bad_shape(gfi, dfn[0] if dfn else None, "the gradient is defined with a transform other than the one in the reuse key", construct="_apply_gradient_paint: _define_gradient transform")


@RULES.rule("C19", "R19d", "OT-SVG grouping: every reuse hit joins the two glyphs at once; per-glyph state is not carried between loops", floor=2)
def r19d(model: Model, rr: RuleResult):
    gg = model.func("svg", "_glyph_groups")
    cfg = cfg_of(gg)
    from ..model import parent_map as _pm19
    pm = _pm19(gg.node)
    un = [c for c in calls_in(gg) if callee_tail(c) == "union" and "reuse_groups" in norm(c.func)]
    tr = find_calls(gg, "try_reuse")
    if not un or len(tr) != 1:
        rr.bad_shape(gg, gg.node, "_glyph_groups: union / try_reuse not found", construct="_glyph_groups: union")
        return

    def loops_of(n):
        out = []
        while n in pm:
            n = pm[n]
            if isinstance(n, ast.For):
                out.append(n)
        return out
    tl = loops_of(tr[0])
    good = [c for c in un if tl and loops_of(c)[:1] == tl[:1]]
    if good:
        rr.ok("reuse_groups.union(glyph, donor glyph) is called in the traversal loop, once per reuse hit")
    else:
        c = un[0]
        lp = loops_of(c)
        over = norm(lp[0].iter) if lp else "?"
        if lp and ".items()" in over:
            rr.bad(gg, c, f"the unions are made after the traversal from a mapping {over} that holds ONE donor glyph per glyph: a glyph that shares shapes with two different "
                   f"earlier glyphs is grouped with the last one only, the other donor's shape is stored again in another document", construct="_glyph_groups: unions from a one-donor-per-glyph mapping")
        else:
            rr.bad_shape(gg, c, "reuse_groups.union is not called per reuse hit in the traversal loop", construct="_glyph_groups: union placement")
    # no value computed per iteration of one loop is read in a LATER loop (it would be the last iteration's value)
    stale = []
    fors = [n for n in walk_body(gg) if isinstance(n, ast.For)]
    for n in ast.walk(gg.node):
        if isinstance(n, ast.Name) and isinstance(n.ctx, ast.Load):
            ul = loops_of(n)
            if not ul:
                continue
            try:
                ds = cfg.reaching(cfg.node_for(n), n.id)
            except Exception:
                continue
            if not ds or any(d.kind not in ("assign",) or d.stmt is None for d in ds):
                continue
            dl = [loops_of(d.stmt) for d in ds]
            if all(l_ and l_[-1] is not ul[-1] and not any(x is l_[-1] for x in ul) for l_ in dl):
                # bound only inside a loop that does not contain this read; a search loop that ends in `break` right after the binding is the accepted idiom
                def breaks_after(stmt):
                    par = pm.get(stmt)
                    for f_ in ("body", "orelse", "finalbody"):
                        blk = getattr(par, f_, None)
                        if isinstance(blk, list) and stmt in blk:
                            return any(isinstance(x, ast.Break) for x in blk[blk.index(stmt) + 1:])
                    return False
                ok_break = all(breaks_after(d.stmt) for d in ds)
                if not ok_break:
                    stale.append((n, ds[0]))
    if stale:
        n, d = stale[0]
        rr.bad(gg, n, f"`{n.id}` is read inside a loop but only bound inside an EARLIER loop ({short(d.stmt, 60)}): every iteration sees the value the earlier loop ended with "
               f"(with a coloured .notdef in the sources every layer is registered as not reusable)", construct=f"_glyph_groups: stale per-iteration value {n.id}")
    else:
        rr.ok("no per-iteration value of one loop is read in a later loop")


@RULES.rule("C06", "R06f", "a reused glyph's gradient is counter-transformed by (its own wrapper, then the inverse reuse transform) on every path", floor=1)
def r06f(model: Model, rr: RuleResult):
    """PaintGlyph(donor) is wrapped in the reuse transform R, so the fill must be mapped by inverse(R) AFTER the wrapper L it had: L then R^-1.  A shortcut for a
    special R (pure translation, identity) that applies R^-1 without L, or re-applies L afterwards, displaces the gradient by (L - I) x offset."""
    fi = model.func("write_font", "_migrate_paths_to_ufo_glyphs._update_paint_glyph")
    cfg = cfg_of(fi)
    uses = [c for c in calls_in(fi) if callee_tail(c) == "apply_transform" and c.args and isinstance(c.func, ast.Attribute) and "paint" in norm(c.func.value)]
    uses += [c for c in calls_in(fi) if callee_tail(c) == "transformed" and len(c.args) == 2 and isinstance(c.args[1], ast.Name) and "child_paint" in c.args[1].id and "reuse_result.transform" != norm(c.args[0])]
    n = 0
    for c in uses:
        a = c.args[0]
        if not isinstance(a, ast.Name):
            continue
        for d in cfg.reaching(cfg.node_for(c), a.id):
            if d.value is None:
                continue
            n += 1
            t = norm(d.value)
            has_child = any(isinstance(x, ast.Name) and "child_transform" in x.id for x in ast.walk(d.value))
            has_inv = "inverse()" in t
            if has_child and has_inv:
                # order: child first
                if isinstance(d.value, ast.BinOp) and isinstance(d.value.op, ast.MatMult) and "inverse()" in norm(d.value.left) and "child_transform" in norm(d.value.right) \
                        and "inverse()" not in norm(d.value.right):
                    rr.ok(f"gradient counter-transform = reuse.inverse() @ child_transform (A @ B maps by B first)  [{short(c, 50)}]")
                elif isinstance(d.value, ast.BinOp) and isinstance(d.value.op, ast.MatMult) and "child_transform" in norm(d.value.left) and "inverse()" in norm(d.value.right):
                    rr.bad(fi, d.stmt or c, f"the gradient of a reused glyph is mapped by `{short(d.value, 90)}`: A @ B maps by B first, so the inverse reuse transform is applied before the "
                           f"fill's own wrapper", construct="_update_paint_glyph: counter-transform order reversed")
                elif isinstance(d.value, ast.Call) and callee_tail(d.value) == "compose_ltr" and d.value.args and isinstance(d.value.args[0], (ast.Tuple, ast.List)) \
                        and len(d.value.args[0].elts) == 2 and "child_transform" in norm(d.value.args[0].elts[0]) and "inverse()" in norm(d.value.args[0].elts[1]):
                    rr.ok(f"gradient counter-transform = compose_ltr((child_transform, reuse.inverse()))  [{short(c, 50)}]")
                elif isinstance(d.value, ast.Call) and callee_tail(d.value) == "compose_ltr" and d.value.args and isinstance(d.value.args[0], (ast.Tuple, ast.List)) \
                        and len(d.value.args[0].elts) == 2 and "inverse()" in norm(d.value.args[0].elts[0]):
                    rr.bad(fi, d.stmt or c, f"the gradient of a reused glyph is mapped by `{short(d.value, 90)}`: inverse reuse transform first, its own wrapper second (the reverse of "
                           f"what undoing the reuse wrapper needs)", construct="_update_paint_glyph: counter-transform order reversed")
                else:
                    rr.bad_shape(fi, d.stmt or c, "gradient counter-transform is not compose_ltr((child_transform, reuse.inverse()))", construct="_update_paint_glyph: counter-transform")
            elif ("gettranslate" in t or "translate(" in t or "identity()" in t) and not has_child:
                rr.bad(fi, d.stmt or c, f"on one path the gradient of a reused glyph is mapped by `{short(d.value, 80)}`, which leaves out the wrapper transform the fill had (child_transform): "
                       f"un-translating before instead of after that wrapper displaces the gradient by (L - I) x offset whenever the wrapper is not the identity "
                       f"(objectBoundingBox gradients on non-square shapes)", construct="_update_paint_glyph: counter-transform shortcut without child_transform")
            else:
                rr.bad_shape(fi, d.stmt or c, "gradient counter-transform is not compose_ltr((child_transform, reuse.inverse()))", construct="_update_paint_glyph: counter-transform")
    if n == 0:
        raise AnalysisError("_update_paint_glyph: no transform applied to the reused glyph's gradient found")


@RULES.rule("C06", "R06g", "the transform handed out by try_reuse is the one affine_between certified at the reuse tolerance (no fallback estimate)", floor=1)
def r06g(model: Model, rr: RuleResult):
    """Equal normal forms only say the shapes agree up to an affine at the (coarser) normalisation grid; affine_between is what checks every point against
    reuse_tolerance.  A transform from any other source (bounding boxes, a guess re-checked by normalising again - which is affine invariant and always passes)
    reuses a donor for a shape that is NOT within tolerance."""
    fi = model.func("glyph_reuse", "GlyphReuseCache.try_reuse")
    cfg = cfg_of(fi)
    rets = [st for st in walk_body(fi) if isinstance(st, ast.Return) and isinstance(st.value, ast.Call) and callee_tail(st.value) == "ReuseResult"]
    if not rets:
        raise AnalysisError("try_reuse: return ReuseResult(...) not found")
    from ..dataflow import deref
    for st in rets:
        a = st.value.args[1] if len(st.value.args) >= 2 else kwarg(st.value, "transform")
        if a is None:
            raise AnalysisError("try_reuse: ReuseResult without a transform")
        srcs = []
        if isinstance(a, ast.Name):
            srcs = [d.value for d in cfg.reaching(cfg.node_for(st), a.id) if d.value is not None]
        else:
            srcs = [a]
        other = [v for v in srcs if not (isinstance(v, ast.Call) and callee_tail(v) == "affine_between")]
        if isinstance(a, ast.Name):
            # every binding of the name in the function counts (a candidate computed elsewhere and kept under a condition)
            other += [d.value for d in cfg.all_defs(a.id) if isinstance(d.value, ast.Call) and callee_tail(d.value) != "affine_between"]
        if srcs and not other:
            rr.ok("ReuseResult.transform comes from affine_between(donor, path, reuse_tolerance) on every path")
        elif other and any(isinstance(v, ast.Call) or (isinstance(v, ast.Name) and any(isinstance(e_, ast.Call) and callee_tail(e_) != "affine_between"
                                                                                            for e_ in expr_closure(cfg, cfg.node_for(st), v)[1])) for v in other):
            rr.bad(fi, st, f"try_reuse can return a transform obtained from `{short(other[0], 70)}` instead of affine_between: nothing compares the transformed donor with the shape at "
                   f"reuse_tolerance on that path, so a near miss outside the tolerance is painted with the donor's outline", construct="try_reuse: transform from a fallback, not affine_between")
        else:
            rr.bad_shape(fi, st, "ReuseResult.transform does not come from affine_between", construct="try_reuse: transform source")
