"""C07 — every emitted font is structurally valid for its consumers (the few structural necessary conditions);
C14 — bitmap glyphs carry the right image at the right place (dimensions, pairing, guards)."""
from __future__ import annotations

import ast
from typing import Dict, List, Optional

from ..cfg import cfg_of
from ..dataflow import expr_closure
from ..dims import DimChecker, keyword_dims, parse_dim
from ..guards import guard_facts
from ..model import (AnalysisError, Model, calls_in, callee_tail, find_calls, kwarg, names_in, norm, short, walk_body)
from ..report import RULES, RuleResult
from .c02 import r02d as _r02d_rule
from .c11 import r11c as _r11c_rule


@RULES.rule("C07", "R07a", "post format: 3 unless names are kept; names forced for picosvg reshuffling and asserted before it", floor=4)
def r07a(model: Model, rr: RuleResult):
    g = model.func("write_font", "_generate_color_font")
    cfg = cfg_of(g)
    p3 = [st for st in walk_body(g) if isinstance(st, ast.Assign) and norm(st.targets[0]).endswith(".formatType") and "post" in norm(st.targets[0])]
    ap = [c for c in calls_in(g) if callee_tail(c) == "apply_ttfont"]
    if len(p3) != 1 or len(ap) != 1:
        raise AnalysisError("_generate_color_font: post.formatType assignment / apply_ttfont not found")
    from ..guards import canon_facts
    facts = canon_facts(cfg, cfg.node_for(p3[0]))
    if norm(p3[0].value) == "3" and ("config.keep_glyph_names", False) in facts and ("ttfont is not None", True) in facts:
        rr.ok("post.formatType = 3 exactly when glyph names are not requested (binary outputs only)")
    else:
        rr.bad_shape(g, p3[0], f"post format 3 is set under {facts}", construct=f"post.formatType = {short(p3[0].value)} under {facts}")
    if cfg.dominates(cfg.node_for(ap[0]), cfg.node_for(p3[0])):
        rr.ok("glyph names are stripped only after apply_ttfont (which needs stable names) has run")
    else:
        rr.bad(g, p3[0], "glyph names may be stripped before apply_ttfont runs", construct="post.formatType before apply_ttfont")
    u = model.func("write_font", "_ufo")
    ucfg = cfg_of(u)
    k = [st for st in walk_body(u) if isinstance(st, ast.Assign) and "KEEP_GLYPH_NAMES" in norm(st.targets[0])]
    ok = False
    if k:
        from ..dataflow import alternatives, resolved, fold_module_constants
        from ..guards import canon_fact
        alts = []
        for kst in k:
            v = kst.value
            base = [canon_fact(e, pol) for e, pol in guard_facts(ucfg, ucfg.node_for(kst))]
            if isinstance(v, ast.Name):
                alts += [(a_, base + list(c_)) for a_, c_ in alternatives(ucfg, ucfg.node_for(kst), v.id, u)]
            else:
                r = resolved(ucfg, ucfg.node_for(kst), v)

                def emit(e, conds):
                    if isinstance(e, ast.IfExp):
                        emit(e.body, conds + [canon_fact(e.test, True)])
                        emit(e.orelse, conds + [canon_fact(e.test, False)])
                    else:
                        alts.append((norm(e), conds))
                emit(r, list(base))
        cp = u.params[0] if u.params else "config"
        vals = {a for a, _ in alts}
        forced = [c for a, c in alts if a == "True"]
        if vals == {"True", f"{cp}.keep_glyph_names"} and forced:
            import re as _re

            def exact(conds):
                t = " ".join(x for x, pol in conds)
                attrs = set(_re.findall(rf"\b{cp}\.(\w+)", t))
                return attrs == {"has_svgs", "has_picosvgs"} and " or " not in t
            ok = all(exact(c) for c in forced)
            widened = [c for c in forced if not exact(c)]
            if not ok and widened and any("has_svgs" in " ".join(x for x, _ in c) for c in widened):
                rr.bad(u, k[0], f"glyph names are forced to be kept under {[x for x, _ in widened[0]]}, not only for picosvg builds: for the other formats nothing but the final "
                       f"post-table fix-up strips them again, and that fix-up has its own condition", construct="_ufo: KEEP_GLYPH_NAMES forced beyond picosvg builds")
                ok = None
    if ok is None:
        pass
    elif ok:
        rr.ok("ufo2ft keeps glyph names when asked, and always for picosvg builds (the reshuffle matches glyphs by name)")
    else:
        rr.bad_shape(u, u.node, "KEEP_GLYPH_NAMES is not forced for picosvg builds / not taken from the option", construct="_ufo: KEEP_GLYPH_NAMES")
    e = model.func("svg", "_ensure_groups_grouped_in_glyph_order")
    ecfg = cfg_of(e)
    a = [st for st in walk_body(e) if isinstance(st, ast.Assert) and "formatType == 2" in norm(st.test)]
    ro = find_calls(e, "reorder_glyphs")
    if a and ro and ecfg.dominates(ecfg.node_for(a[0]), ecfg.node_for(ro[0])):
        rr.ok("the reshuffle asserts post format 2 (stable names) before reordering")
    else:
        rr.bad(e, e.node, "the OT-SVG reshuffle no longer asserts that glyph names are stable", construct="_ensure_groups_grouped_in_glyph_order: post assert")
    a2 = [st for st in walk_body(e) if isinstance(st, ast.Assert) and "old_glyph_order[0] == '.notdef'" in norm(st.test)]
    a3 = [st for st in walk_body(e) if isinstance(st, ast.Assert) and "len(glyph_order) == len(set(glyph_order))" in norm(st.test)]
    if a2 and a3:
        rr.ok("reshuffle asserts .notdef stays first and the new order has no duplicates")
    for modname in ("keep_glyph_names", "strip_glyph_names"):
        pass
    kfi = model.func("keep_glyph_names", "keep_glyph_names")
    t = " ".join(norm(st) for st in kfi.body)
    if "post.formatType = 2.0" in t:
        rr.ok("keep_glyph_names sets post format 2")
    else:
        rr.bad(kfi, kfi.node, "keep_glyph_names does not set post format 2", construct="keep_glyph_names: formatType")
    sfi = model.func("strip_glyph_names", "main")
    t = " ".join(norm(st) for st in sfi.body)
    if "post.formatType = 3.0" in t:
        rr.ok("strip_glyph_names sets post format 3")
    else:
        rr.bad(sfi, sfi.node, "strip_glyph_names does not set post format 3", construct="strip_glyph_names: formatType")


@RULES.rule("C07", "R07b", "fonts are fully loaded before glyphs are reordered (= R11c)", floor=3)
def r07b(model: Model, rr: RuleResult):
    _r11c_rule(model, rr)


@RULES.rule("C07", "R07c", "SVG document ranges follow the renumbered glyph ids (= R02d)", floor=7)
def r07c(model: Model, rr: RuleResult):
    _r02d_rule(model, rr)
    fi = model.func("svg", "_picosvg_docs")
    sk = [st for st in ast.walk(fi.node) if isinstance(st, ast.If) and norm(st.test) in ("len(root) == 0", "len(root) <= 0", "len(root) < 1", "not len(root)") and any(isinstance(b, ast.Continue) for b in st.body)]
    if not sk:
        # the same thing as a condition around the append
        from ..guards import canon_facts as _cf7
        dcfg = cfg_of(fi)
        app = [c for c in calls_in(fi) if callee_tail(c) == "append" and "doc_list" in norm(c.func.value)]
        want = _cf7(dcfg, dcfg.node_for(sk[0].body[0])) if sk else None
        for c in app:
            fs = _cf7(dcfg, dcfg.node_for(c))
            if any(("len(root)" in t) and ((("== 0" in t) and pol is False) or (("> 0" in t or "!= 0" in t) and pol is True)) for t, pol in fs):
                sk = [c]
    if sk:
        rr.ok("empty documents are skipped")
    else:
        rr.bad_shape(fi, fi.node, "empty SVG documents are emitted", construct="_picosvg_docs: empty document")
    gi = [st for st in ast.walk(fi.node) if isinstance(st, ast.Assign) and norm(st.targets[0]) == "reuse_cache.gradient_ids" and norm(st.value) == "{}"]
    loops = [st for st in walk_body(fi) if isinstance(st, ast.For) and norm(st.iter) == "reuse_groups"]
    if gi and loops and any(x is gi[0] for x in ast.walk(loops[0])):
        rr.ok("gradient ids are not shared across documents (cache reset per group): every url(#id) resolves inside its own document")
    else:
        rr.bad(fi, fi.node, "gradient id cache is not reset per document: a fill could reference a gradient defined in another document", construct="_picosvg_docs: gradient_ids reset")
    for fn in ("_define_linear_gradient", "_define_radial_gradient"):
        f2 = model.func("svg", fn)
        ids = [st for st in walk_body(f2) if isinstance(st, ast.Assign) and any(norm(t).endswith(".attrib['id']") for t in st.targets)]
        el_names = {norm(t)[:-len(".attrib['id']")] for st in ids for t in st.targets if norm(t).endswith(".attrib['id']")}
        sub = [st for st in walk_body(f2) if isinstance(st, ast.Assign) and isinstance(st.value, ast.Call) and norm(st.value.func) == "etree.SubElement" and norm(st.value.args[0]) == "svg_defs"
               and any(norm(t) in el_names for t in st.targets)]
        if ids and sub and norm(ids[0].value) == "f'g{len(svg_defs)}'":
            c = cfg_of(f2)
            if c.dominates(c.node_for(sub[0]), c.node_for(ids[0])):
                rr.ok(f"{fn}: id = g<number of defs after appending> (unique per document)")
                continue
        rr.bad(f2, f2.node, f"{fn}: gradient ids are not unique per document", construct=f"{fn}: id")


@RULES.rule("C07", "R07f", "SVG document records are emitted in increasing start-glyph order", floor=2)
def r07f(model: Model, rr: RuleResult):
    svg_doclist_order(model, rr)


def svg_doclist_order(model: Model, rr: RuleResult):
    # picosvg: monotone by construction -- glyphs are renumbered consecutively in the order of the group list that also drives emission (R02d),
    # with the un-moved prefix (.notdef first) before them
    gg = model.func("svg", "_glyph_groups")
    rets = [st for st in walk_body(gg) if isinstance(st, ast.Return)]
    if rets and norm(rets[0].value) == "initial_glyphs + reuse_groups.sorted()":
        rr.ok("picosvg: groups = (.notdef first) + sorted groups; gids are assigned in that order, documents emitted in that order")
    else:
        rr.bad(gg, gg.node, "group list is no longer (.notdef group) + sorted groups", construct="_glyph_groups: return")
    # untouched svg: one document per colour glyph; the iteration must be in glyph id order
    rf = model.func("svg", "_rawsvg_docs")
    loops = [st for st in walk_body(rf) if isinstance(st, ast.For)]
    mk = model.func("svg", "make_svg_table")
    resorted = any(isinstance(st, ast.Assign) and norm(st.targets[0]).endswith(".docList") and "sorted(" in norm(st.value) for st in walk_body(mk)) or \
        any(callee_tail(c) == "sort" and "doc_list" in norm(c.func) for c in calls_in(rf)) or any(callee_tail(c) == "sort" and "doc_list" in norm(c.func) for c in calls_in(mk))
    ok = False
    if loops:
        it = loops[0].iter
        if isinstance(it, ast.Call) and norm(it.func) == "sorted" and kwarg(it, "key") is not None and "glyph_id" in norm(kwarg(it, "key")):
            ok = True
    if ok or resorted:
        rr.ok("untouched svg: documents are emitted in glyph id order")
    else:
        rr.bad(rf, loops[0] if loops else rf.node, "untouched-SVG documents are emitted in input order, but a source that maps to an already existing glyph "
               "(a coloured .notdef listed after other glyphs) has a smaller glyph id than its predecessors: SVG document records are not sorted by start glyph",
               construct="_rawsvg_docs: documents in input order")


def migrate_condition_ok(cfg, node, fi) -> Optional[bool]:
    """_migrate_to_defs runs exactly when (the reused element belongs to another colour glyph) OR (it carries paint attributes): compared as truth tables,
    so named booleans, De Morgan rewrites and `if not can_stay_in_place` forms are all recognised."""
    from ..guards import call_condition, same_truth_table
    A = "color_glyph.ufo_glyph_name == _color_glyph_name("
    atoms, fn, n = call_condition(cfg, node, fi, mention=("_color_glyph_name(", "_attrib_apply_paint_uses("))
    if n == 0:
        return False
    a_atoms = [a for a in atoms if " == " in a and "color_glyph.ufo_glyph_name" in a and "_color_glyph_name(" in a]
    b_atoms = [a for a in atoms if a.startswith("_attrib_apply_paint_uses(") and a.endswith(")") and "&" not in a]
    if len(a_atoms) != 1 or len(b_atoms) != 1 or len(atoms) != 2:
        return False
    return same_truth_table(atoms, fn, atoms, lambda v: (not v[a_atoms[0]]) or v[b_atoms[0]])


@RULES.rule("C07", "R07d", "cross-glyph reuse goes through <defs> (no glyph element references content inside another glyph)", floor=2)
def r07d(model: Model, rr: RuleResult):
    fi = model.func("svg", "_add_glyph")
    cfg = cfg_of(fi)
    mig = find_calls(fi, "_migrate_to_defs")
    if len(mig) != 1:
        raise AnalysisError("_add_glyph: _migrate_to_defs call not found")
    ok = migrate_condition_ok(cfg, cfg.node_for(mig[0]), fi)
    from ..dataflow import resolved as _res7
    tests = [_res7(cfg, t, getattr(cfg.nodes[t].ast, "test", None)) for t, _ in cfg.controlling_tests(cfg.node_for(mig[0])) if getattr(cfg.nodes[t].ast, "test", None) is not None]
    prefix = [n for t in tests for n in ast.walk(t)
              if (isinstance(n, ast.Call) and callee_tail(n) in ("startswith", "endswith", "find") and "color_glyph.ufo_glyph_name" in norm(n))
              or (isinstance(n, ast.Compare) and any(isinstance(o, (ast.In, ast.NotIn)) for o in n.ops) and "color_glyph.ufo_glyph_name" in norm(n.left) and "glyph_name" in norm(n.comparators[0]))]
    if ok:
        rr.ok("_migrate_to_defs is taken whenever the reused element belongs to another colour glyph")
    elif prefix:
        rr.bad(fi, mig[0], f"whether the reused path belongs to this colour glyph is decided by a substring test (`{short(prefix[0], 80)}`), not by equality with the owner's name: glyph names are "
               f"prefixes of one another (u1F600 / u1F600_u1F3FB, e000 / e0001), so a path inside ANOTHER glyph's element passes as the glyph's own and is referenced in place",
               construct="_add_glyph: ownership of the reused path by name prefix")
    else:
        rr.bad_shape(fi, mig[0], "reuse across glyphs is not forced through <defs>: a glyph element would reference content inside another glyph element",
               construct="_add_glyph: _migrate_to_defs condition")
    m = model.func("svg", "_migrate_to_defs")
    t = " ".join(norm(st) for st in ast.walk(m.node) if isinstance(st, ast.Expr))
    if "svg_defs.append(reused_el)" in t and "reused_el.addnext(svg_use)" in t:
        rr.ok("_migrate_to_defs moves the shared path into <defs> and leaves a <use> in its place")
    else:
        rr.bad(m, m.node, "_migrate_to_defs does not move the path to <defs> leaving a <use> behind", construct="_migrate_to_defs body")
    nop = [st for st in walk_body(m) if isinstance(st, ast.If) and norm(st.test) == "reused_el in svg_defs"]
    if nop:
        rr.ok("already-migrated elements are left alone")
    cn = model.func("svg", "_color_glyph_name")
    pn = model.func("svg", "_paint_glyph_name")
    if "rindex('.')" in norm(cn.body[-1]) and "f'{color_glyph.ufo_glyph_name}.{nth}'" in norm(pn.body[-1]):
        rr.ok("layer names are '<glyph>.<n>' and the owner glyph is recovered by stripping the last '.<n>'")
    else:
        rr.bad(cn, cn.node, "layer-name <-> owner-glyph convention changed", construct="_color_glyph_name / _paint_glyph_name")


@RULES.rule("C07", "R07e", "CBDT strikes index runs of consecutive glyph ids, names and locations built from one sequence", floor=6)
def r07e(model: Model, rr: RuleResult):
    fi = model.func("bitmap_tables", "make_cbdt_table")
    cfg = cfg_of(fi)
    srt = [st for st in walk_body(fi) if isinstance(st, ast.Assign) and norm(st.targets[0]) == "color_glyphs" and isinstance(st.value, ast.Call) and norm(st.value.func) == "sorted"]
    wl = [st for st in walk_body(fi) if isinstance(st, ast.While) and norm(st.test) in ("color_glyphs", "start < len(color_glyphs)")]
    if srt and "glyph_id" in norm(kwarg(srt[0].value, "key")) and wl and cfg.dominates(cfg.node_for(srt[0]), cfg.node_for(wl[0])):
        rr.ok("glyphs are sorted by glyph id before being split into runs")
    else:
        rr.bad_shape(fi, fi.node, "glyphs are not sorted by glyph id before run splitting", construct="make_cbdt_table: sort")
    inner = [st for st in ast.walk(fi.node) if isinstance(st, ast.While) and "glyph_id" in norm(st.test)]
    from ..guards import canon_conjuncts
    want_run = sorted(["color_glyphs[end - 1].glyph_id + 1 == color_glyphs[end].glyph_id", "end < len(color_glyphs)"])
    if inner and (canon_conjuncts(inner[0].test) == want_run or
                  ("color_glyphs[end].glyph_id == color_glyphs[end - 1].glyph_id + 1" in norm(inner[0].test) and "len(color_glyphs) > end" in norm(inner[0].test))):
        rr.ok("a run is extended while the next glyph id is the previous + 1")
    else:
        rr.bad_shape(fi, fi.node, "run splitting does not compare consecutive glyph ids with + 1", construct=f"run predicate {short(inner[0].test) if inner else None}")
    t = " ".join(norm(st) for st in ast.walk(fi.node) if isinstance(st, ast.Assign))
    rest = [st for st in ast.walk(fi.node) if isinstance(st, ast.Assign) and norm(st.targets[0]) == "color_glyphs" and isinstance(st.value, ast.Subscript)
            and norm(st.value.value) == "color_glyphs" and isinstance(st.value.slice, ast.Slice) and st.value.slice.upper is None]
    if "color_glyph_run = color_glyphs[:end]" in t and rest:
        lo = norm(rest[0].value.slice.lower)
        if lo == "end":
            rr.ok("run = first `end` glyphs; the rest is processed next (no glyph lost or repeated)")
        else:
            rr.bad(fi, rest[0], f"the run is glyphs[:end] but processing resumes at glyphs[{lo}:]: a glyph is dropped from / repeated in the strikes", construct=f"make_cbdt_table: rest = color_glyphs[{lo}:]")
    elif "color_glyph_run = color_glyphs[start:end]" in t:
        # index-walking idiom: the next run must start exactly where this one ended
        nxt = [st for st in ast.walk(fi.node) if isinstance(st, ast.Assign) and norm(st.targets[0]) == "start" and "end" in norm(st.value)]
        if nxt and norm(nxt[0].value) == "end":
            rr.ok("run = glyphs[start:end]; the next run starts at end (no glyph lost or repeated)")
        else:
            rr.bad(fi, nxt[0] if nxt else fi.node, f"runs are glyphs[start:end] but the next run starts at {short(nxt[0].value) if nxt else '?'}: the first glyph after every gap "
                   f"belongs to no strike and has no bitmap", construct=f"make_cbdt_table: next run starts at {short(nxt[0].value) if nxt else '?'}")
    else:
        strike_calls = [c for c in calls_in(fi, nested=True) if callee_tail(c) == "_make_cbdt_strike"]
        loops = [st for st in ast.walk(fi.node) if isinstance(st, (ast.While, ast.For))]
        in_loop = [c for c in strike_calls if any(any(x is c for x in ast.walk(lp)) for lp in loops)]
        # takewhile over an iterator that an enclosing loop also advances: the element that ends the run has been consumed and is never seen again
        tw = [c for c in calls_in(fi, nested=True) if callee_tail(c) == "takewhile" and len(c.args) == 2 and isinstance(c.args[1], ast.Name)]
        shared = [c for c in tw if any(isinstance(lp, ast.For) and isinstance(lp.iter, ast.Name) and lp.iter.id == c.args[1].id and any(x is c for x in ast.walk(lp)) for lp in loops)
                  and any(isinstance(d.value, ast.Call) and norm(d.value.func) == "iter" for d in cfg.reaching(cfg.node_for(c), c.args[1].id))]
        if shared:
            rr.bad(fi, shared[0], f"runs are gathered with takewhile(...) from the iterator `{shared[0].args[1].id}` that the enclosing loop also advances: takewhile consumes the first glyph that "
                   f"fails the +1 test, i.e. the glyph that should START the next run, so after every gap one glyph gets no bitmap", construct="make_cbdt_table: takewhile drops the glyph after each gap")
        elif strike_calls and not in_loop:
            rr.bad(fi, strike_calls[0], "make_cbdt_table builds ONE strike for all colour glyphs: when their glyph ids have gaps (a coloured .notdef, blanks of a sequence between "
                   "colour glyphs) the strike's index range covers glyphs that have no bitmap", construct="make_cbdt_table: single strike, no run splitting")
        else:
            raise AnalysisError("make_cbdt_table: run extraction idiom not recognised")
    mk = find_calls(fi, "_make_cbdt_strike")
    if mk and [norm(a) for a in mk[0].args] == ["config", "ttfont", "data_offset", "color_glyph_run"]:
        rr.ok("each run becomes one strike starting at the running data offset")
    do = [st for st in ast.walk(fi.node) if isinstance(st, ast.Assign) and norm(st.targets[0]) == "data_offset" and "locations[-1][-1]" in norm(st.value)]
    if do:
        rr.ok("data offset advances to the end of the previous strike's last bitmap")
    else:
        rr.bad(fi, fi.node, "the data offset is not advanced past the previous strike", construct="make_cbdt_table: data_offset")
    s = model.func("bitmap_tables", "_make_cbdt_strike")
    scfg = cfg_of(s)
    a = [st for st in walk_body(s) if isinstance(st, ast.Assert) and "max_gid - min_gid + 1 == len(color_glyphs)" in norm(st.test)]
    mm = [st for st in walk_body(s) if isinstance(st, ast.Assign) and norm(st.value) == "(color_glyphs[0].glyph_id, color_glyphs[-1].glyph_id)"]
    if a and mm:
        rr.ok("strike asserts its glyph ids are consecutive before using first/last as start/end index")
    else:
        rr.bad(s, s.node, "strike start/end glyph index is used without the consecutiveness assertion", construct="_make_cbdt_strike: assert")
    t = " ".join(norm(st) for st in walk_body(s) if isinstance(st, ast.Assign))
    if "strike.bitmapSizeTable.startGlyphIndex = min_gid" in t and "strike.bitmapSizeTable.endGlyphIndex = max_gid" in t:
        rr.ok("startGlyphIndex/endGlyphIndex = first/last glyph id of the run")
    else:
        rr.bad(s, s.node, "strike glyph index range is not (min_gid, max_gid)", construct="_make_cbdt_strike: start/endGlyphIndex")
    names = [st for st in walk_body(s) if isinstance(st, ast.Assign) and norm(st.targets[0]) == "index_subtable.names"]
    locs = [c for c in calls_in(s) if callee_tail(c) == "_cbdt_bitmapdata_offsets"]
    nv_ = None
    if names:
        from ..dataflow import resolved as _res2, comprehension_over_base as _cob
        nv_ = _res2(scfg, scfg.node_for(names[0]), names[0].value)
        nv_ = _cob(scfg, scfg.node_for(names[0]), nv_) if isinstance(nv_, ast.ListComp) else None
    if nv_ is not None and nv_[0] == "color_glyphs" and norm(nv_[1]["elt"]) == "ttfont.getGlyphName(_e.glyph_id)" and locs and norm(locs[0].args[-1]) == "color_glyphs":
        rr.ok("names and locations enumerate the same glyph sequence in the same order")
    else:
        rr.bad_shape(s, s.node, "index-subtable names and locations are not built from the same sequence", construct="_make_cbdt_strike: names/locations")
    o = model.func("bitmap_tables", "_cbdt_bitmapdata_offsets")
    t = " ".join(norm(st) for st in ast.walk(o.node) if isinstance(st, (ast.Expr, ast.AugAssign, ast.Return)))
    # the same running sum as a library call: accumulate(<record size of each glyph, in order>, initial=<first offset>) paired with itself shifted by one
    alt = False
    ocfg = cfg_of(o)
    orets = [st for st in walk_body(o) if isinstance(st, ast.Return) and st.value is not None]
    if len(orets) == 1:
        from ..dataflow import deref as _d7, comprehension_over_base as _cob7
        rv = orets[0].value
        if isinstance(rv, ast.Call) and norm(rv.func) == "list" and len(rv.args) == 1:
            rv = rv.args[0]
        if isinstance(rv, ast.Call) and norm(rv.func) == "zip" and len(rv.args) == 2 and isinstance(rv.args[0], ast.Name) \
                and norm(rv.args[1]) == f"{rv.args[0].id}[1:]":
            acc = _d7(ocfg, ocfg.node_for(orets[0]), rv.args[0])
            if isinstance(acc, ast.Call) and norm(acc.func) in ("list", "tuple") and len(acc.args) == 1:
                acc = acc.args[0]
            if isinstance(acc, ast.Call) and callee_tail(acc) == "accumulate" and len(acc.args) == 1 and kwarg(acc, "initial") is not None \
                    and norm(kwarg(acc, "initial")) == o.params[0]:
                sizes = _d7(ocfg, ocfg.node_for(orets[0]), acc.args[0])
                rd7 = _cob7(ocfg, ocfg.node_for(orets[0]), sizes) if isinstance(sizes, (ast.ListComp, ast.GeneratorExp)) else None
                alt = rd7 is not None and rd7[0] == o.params[2] and norm(rd7[1]["elt"]) == f"_cbdt_record_size({o.params[1]}, _e.bitmap)"
    if alt or ("offsets.append(offset)" in t and "offset += _cbdt_record_size(image_format, color_glyph.bitmap)" in t and "return list(zip(offsets, offsets[1:]))" in t):
        rr.ok("locations are consecutive (start, end) pairs sized by each glyph's own record")
    else:
        rr.bad_shape(o, o.node, "bitmap data offsets are not consecutive per-glyph (start, end) pairs", construct="_cbdt_bitmapdata_offsets body")
    # maximum_color's re-sharding (_copy_cbdt) must cut runs by the TARGET's glyph ids: the table lives in the target font
    cc = model.func("glue_together", "_copy_cbdt")
    donor_gid = [n for n in walk_body(cc) if isinstance(n, ast.Attribute) and n.attr in ("getGlyphID", "getReverseGlyphMap", "getGlyphOrder", "getGlyphName")
                 and norm(n.value) == "donor"]
    target_gid = [c for c in calls_in(cc) if norm(c.func) == "target.getGlyphID"]
    if donor_gid:
        rr.bad(cc, donor_gid[0], f"_copy_cbdt consults the donor's glyph ids ({short(donor_gid[0])}): runs are cut where the DONOR has gaps, but the strikes are "
               f"compiled against the target's glyph order", construct=f"_copy_cbdt: {short(donor_gid[0])}")
    elif len(target_gid) >= 3:
        rr.ok("_copy_cbdt: run splitting and min/max use the target's glyph ids only")
    else:
        rr.unknown("_copy_cbdt: glyph id look-ups not in the enumerated shape")
    # re-sharding happens on every path: nothing returns before the run loop (a donor in the "same order" can still straddle a gap in the target)
    outer = [st for st in cc.body if isinstance(st, ast.While)]
    early = [st for st in walk_body(cc) if isinstance(st, ast.Return) and outer and st.lineno < outer[0].lineno]
    if outer and not early:
        rr.ok("_copy_cbdt: no return precedes the loop that cuts the runs")
    elif early:
        rr.bad(cc, early[0], "_copy_cbdt can return before re-sharding: the donor's strikes are kept as they are, although two glyphs that are neighbours in the donor can "
               "have a non-bitmap glyph between them in the target (one strike would then span a gap)", construct="_copy_cbdt: return before the run loop")
    wl = [st for st in ast.walk(cc.node) if isinstance(st, ast.While) and "+ 1" in norm(st.test)]
    if wl and "len(new_order) > end" in norm(wl[0].test):
        rr.ok("_copy_cbdt: a run is extended while the next target gid is the previous + 1")
    else:
        rr.bad_shape(cc, cc.node, "_copy_cbdt no longer splits runs at gid gaps", construct="_copy_cbdt: run predicate")
    r = model.func("bitmap_tables", "_cbdt_record_size")
    if "_CBDT_SMALL_METRIC_PNG_HEADER_SIZE + len(image_data)" in norm(r.body[-1]):
        hs = model.mod("bitmap_tables").const("_CBDT_SMALL_METRIC_PNG_HEADER_SIZE")
        if norm(hs) == "5 + 4":
            rr.ok("record size = SmallGlyphMetrics(5) + dataLen(4) + image bytes")
        else:
            rr.bad(r, r.node, f"format-17 header size is {norm(hs)}, expected 5 + 4", construct="_CBDT_SMALL_METRIC_PNG_HEADER_SIZE")


# ------------------------------------------------------------------------------------------------ C14
BT_SEEDS = {"config.ascender": "fu", "config.descender": "fu", "config.width": "fu", "config.upem": "fu/em", "config.bitmap_resolution": "px",
            "image_data.size[0]": "px", "image_data.size[1]": "px", "*.bitmap.size[0]": "px", "*.bitmap.size[1]": "px", "ppem": "px/em", "bitmap_pixel_height": "px",
            "metrics.line_ascent": "px", "metrics.line_height": "px", "metrics.x_offset": "px", "metrics.y_offset": "px", "line_metrics.ascender": "px"}
BT_RETS = {"_pixels_to_funits": ("px", "fu"), "_width_in_pixels": "px", "_ppem": "px/em"}
# declared parameter dimensions (positional) of the helpers, checked at every call site
BT_PARAMS = {"create": [None, None, "px/em"], "_ppem": [None, "px"], "_pixels_to_funits": [None, "px"]}


@RULES.rule("C14", "R14a", "dimensional consistency of bitmap metrics (px, fu, px/em)", floor=11)
def r14a(model: Model, rr: RuleResult):
    specs = [("_pixels_to_funits", ("px", "fu")), ("_width_in_pixels", "px"), ("_ppem", "px/em"), ("BitmapMetrics.create", None),
             ("make_sbix_table", None), ("_make_cbdt_strike", None)]
    for fn, ret in specs:
        fi = model.func("bitmap_tables", fn)
        chk = DimChecker(model, fi, dict(BT_SEEDS, **{"strike.ppem": "px/em"}), BT_RETS, ret=ret, params=BT_PARAMS,
                         sinks={"strike.ppem": "px/em", "bitmapSizeTable.ppemX": "px/em", "bitmapSizeTable.ppemY": "px/em",
                                "line_metrics.ascender": "px", "line_metrics.descender": "px"}).run()
        for c in calls_in(fi):
            if norm(c.func) == "BitmapMetrics":
                keyword_dims(chk, c, {"x_offset": "px", "y_offset": "px", "line_height": "px", "line_ascent": "px"})
            if norm(c.func) == "SbixGlyph":
                keyword_dims(chk, c, {"originOffsetX": "px", "originOffsetY": "px"})
        for ok in chk.checked:
            rr.ok(f"{fn}: {ok}")
        for e in chk.errors:
            rr.bad(fi, e.node, f"dimension error: {e.message} (px = pixels, fu = font units, em)", construct=f"{fn}: {short(e.node, 80)} :: {e.message}")
    # ppem = round(upem * pixel height / em height): the pieces
    p = model.func("bitmap_tables", "_pixels_to_funits")
    from ..dataflow import resolved_text
    pcfg = cfg_of(p)
    prets = [st for st in walk_body(p) if isinstance(st, ast.Return) and st.value is not None]
    got = [resolved_text(pcfg, pcfg.node_for(st), st.value, p) for st in prets]
    cp, hp = p.params[0], p.params[1]
    import re as _re14
    m_ = _re14.fullmatch(r"([A-Za-z_]\w*)\((?:\w+=)?(.+?), (?:\w+=)?(.+)\)", got[0]) if len(got) == 1 else None
    rec_fields = None
    if m_ and m_.group(1) in p.module.classes and (m_.group(2), m_.group(3)) == (hp, f"{cp}.ascender - {cp}.descender"):
        rec_fields = [f_ for f_ in p.module.classes[m_.group(1)].field_names()][:2]
    if got == [f"({hp}, {cp}.ascender - {cp}.descender)"] or rec_fields:
        rr.ok("_pixels_to_funits = (bitmap pixel height, ascender - descender)")
    elif len(got) == 1 and got[0].startswith(f"({hp}, ") and f"{cp}.ascender - {cp}.descender" in got[0]:
        rr.bad(p, prets[0], f"the em height used for bitmaps is {got[0].split(', ', 1)[1][:-1]}, not ascender - descender: ppem, bearings and the pixel advance are scaled by a "
               f"different height than the one BitmapMetrics and hmtx use (visible as soon as the extra term is non-zero)", construct=f"_pixels_to_funits: {got[0]}")
    else:
        rr.bad_shape(p, p.node, f"pixel/unit ratio is {got}, expected (bitmap height, ascender - descender)", construct="_pixels_to_funits body")
    pp = model.func("bitmap_tables", "_ppem")
    ptxt = norm(pp.body[-1])
    ok_pp = ptxt == "return round(config.upem * pixels / funits)"
    if not ok_pp:
        mm = _re14.fullmatch(r"return round\(config\.upem \* (\w+)(\.\w+|\[0\]) / (\w+)(\.\w+|\[1\])\)", ptxt)
        if mm and mm.group(1) == mm.group(3):
            src_ = [d.value for d in cfg_of(pp).reaching(cfg_of(pp).node_for(pp.body[-1]), mm.group(1)) if d.value is not None]
            from_helper = bool(src_) and all(isinstance(v, ast.Call) and callee_tail(v) == "_pixels_to_funits" for v in src_)
            a1, a2 = mm.group(2), mm.group(4)
            ok_pp = from_helper and ((a1, a2) == ("[0]", "[1]") or (rec_fields is not None and len(rec_fields) == 2 and (a1, a2) == ("." + rec_fields[0], "." + rec_fields[1])))
    if ok_pp:
        rr.ok("_ppem = round(upem x pixels / funits)")
    else:
        rr.bad(pp, pp.node, "ppem is not round(upem x bitmap height / em height)", construct=f"_ppem: {short(pp.body[-1])}")


@RULES.rule("C14", "R14b", "image / glyph pairing: name, metrics and bytes of one record come from the same glyph", floor=6)
def r14b(model: Model, rr: RuleResult):
    s = model.func("bitmap_tables", "make_sbix_table")
    lp = [st for st in walk_body(s) if isinstance(st, ast.For) and norm(st.iter) == "color_glyphs"]
    b = norm(lp[0].target) if lp else None
    if not lp:
        # the glyphs walked in step with something else: zip(..., color_glyphs, ...) / enumerate(color_glyphs)
        for st in walk_body(s):
            if isinstance(st, ast.For) and isinstance(st.iter, ast.Call) and norm(st.iter.func) in ("zip", "enumerate") and isinstance(st.target, ast.Tuple):
                pos = [i for i, a in enumerate(st.iter.args) if norm(a) == "color_glyphs"]
                if norm(st.iter.func) == "enumerate":
                    pos = [1] if pos == [0] else []
                if len(pos) == 1 and len(st.target.elts) == (2 if norm(st.iter.func) == "enumerate" else len(st.iter.args)) and isinstance(st.target.elts[pos[0]], ast.Name):
                    lp, b = [st], st.target.elts[pos[0]].id
                    break
    if not lp:
        raise AnalysisError("make_sbix_table: loop over color_glyphs not found")
    cfg = cfg_of(s)
    sg = [c for c in calls_in(lp[0]) if norm(c.func) == "SbixGlyph"]
    if len(sg) != 1:
        raise AnalysisError("make_sbix_table: SbixGlyph(...) not found")
    at = cfg.node_for(sg[0])
    checks = {"glyphName": f"{b}.glyph_id", "imageData": f"{b}.bitmap", "originOffsetX": f"{b}.bitmap"}
    for kw, must in checks.items():
        v = kwarg(sg[0], kw)
        names, exprs = expr_closure(cfg, at, v)
        if any(must in norm(e) for e in exprs) and not any(isinstance(n, ast.Subscript) and norm(n.value) == "color_glyphs" for e in exprs for n in ast.walk(e)):
            rr.ok(f"sbix: {kw} derives from {must} of the loop's own glyph")
        else:
            rr.bad(s, sg[0], f"sbix {kw} does not derive from {must} of the same glyph: image and glyph would be mismatched", construct=f"SbixGlyph({kw}={short(v)})")
    idd = cfg.reaching(at, "image_data")
    if idd and all(norm(d.value) == f"{b}.bitmap" for d in idd):
        rr.ok("sbix: the stored bytes are the glyph's PNG itself (no transformation)")
    else:
        rr.bad_shape(s, sg[0], "sbix image bytes are not the glyph's PNG unchanged", construct="make_sbix_table: image_data")
    st = [x for x in ast.walk(lp[0]) if isinstance(x, ast.Assign) and isinstance(x.targets[0], ast.Subscript) and norm(x.targets[0].value) == "strike.glyphs"]
    stored = None
    if len(st) == 1:
        stored = st[0].value
        if isinstance(stored, ast.Name):
            ds = cfg.reaching(cfg.node_for(st[0]), stored.id)
            stored = ds[0].value if len(ds) == 1 else None
    gn = kwarg(sg[0], "glyphName")
    if stored is sg[0] and gn is not None and norm(gn) == norm(st[0].targets[0].slice):
        rr.ok("sbix: record stored under its own glyph name")
    else:
        rr.bad_shape(s, s.node, "sbix record is not stored under its glyph's name", construct="strike.glyphs[...]")
    c = model.func("bitmap_tables", "_make_cbdt_strike")
    ccfg = cfg_of(c)
    from ..dataflow import comprehension_over_base
    data = [x for x in walk_body(c) if isinstance(x, ast.Assign) and norm(x.targets[0]) == "data" and isinstance(x.value, ast.DictComp)]
    rd = comprehension_over_base(ccfg, ccfg.node_for(data[0]), data[0].value) if data else None
    if rd is not None and rd[0] == "color_glyphs":
        k, v = norm(rd[1]["key"]), norm(rd[1]["value"])
        if k == "ttfont.getGlyphName(_e.glyph_id)" and v == "_cbdt_bitmap_data(config, BitmapMetrics.create(config, _e.bitmap, ppem), _e.bitmap)":
            rr.ok("CBDT: name, metrics and bitmap of each record come from the same glyph")
            rr.ok("CBDT: metrics computed from each glyph's own bitmap at the strike's ppem")
        elif k.startswith("ttfont.getGlyphName(") and v.startswith("_cbdt_bitmap_data(config, ") and ("color_glyphs[" in k + v or "metrics[" in v):
            rr.bad(c, data[0], "CBDT record pairs a glyph name with another glyph's metrics or image", construct=short(data[0].value, 140))
        else:
            rr.bad_shape(c, data[0], "CBDT record pairs a glyph name with another glyph's metrics or image", construct=short(data[0].value, 140))
    else:
        rr.bad_shape(c, c.node, "CBDT data mapping not found", construct="_make_cbdt_strike: data")
    bd = model.func("bitmap_tables", "_cbdt_bitmap_data")
    t = " ".join(norm(x) for x in bd.body)
    want = ["bitmap_data.metrics.width, bitmap_data.metrics.height = image_data.size", "bitmap_data.metrics.BearingX = metrics.x_offset",
            "bitmap_data.metrics.BearingY = metrics.y_offset", "bitmap_data.metrics.Advance = _width_in_pixels(config, image_data)", "bitmap_data.imageData = image_data"]
    miss = [w for w in want if w not in t]
    if not miss:
        rr.ok("CBDT record: width/height from the PNG, bearings from the metrics, advance in pixels, bytes unchanged")
    else:
        rr.bad(bd, bd.node, f"CBDT record wiring differs: {miss}", construct=f"_cbdt_bitmap_data: {miss}")
    # inputs: the PNG read is the one stored
    wf = model.func("write_font", "_inputs")
    rd = [c2 for c2 in calls_in(wf) if norm(c2.func) == "PNG.read_from"]
    if rd and norm(rd[0].args[0]) == "g.bitmap_file":
        rr.ok("the bitmap stored for a glyph is read from that glyph's bitmap_file")
    else:
        rr.bad(wf, wf.node, "bitmap is not read from the glyph's own bitmap_file", construct="_inputs: PNG.read_from")


@RULES.rule("C14", "R14c", "unrepresentable bitmaps / metrics are rejected before tables are built", floor=5)
def r14c(model: Model, rr: RuleResult):
    fi = model.func("bitmap_tables", "make_cbdt_table")
    cfg = cfg_of(fi)
    g = find_calls(fi, "raise_if_too_big_for_cbdt")
    mk = find_calls(fi, "_make_cbdt_strike")
    if g and mk and cfg.dominates(cfg.node_for(g[0]), cfg.node_for(mk[0])) and norm(g[0].args[0]) == "color_glyphs" and not guard_facts(cfg, cfg.node_for(g[0])):
        rr.ok("raise_if_too_big_for_cbdt(color_glyphs) runs unconditionally before any strike is built")
    else:
        rr.bad(fi, fi.node, "oversize bitmaps are not rejected before CBDT strikes are built", construct="make_cbdt_table: size guard")
    r = model.func("bitmap_tables", "raise_if_too_big_for_cbdt")
    if any("max(c.bitmap.size) not in _UINT8_RANGE" in norm(n) for n in ast.walk(r.node) if isinstance(n, ast.GeneratorExp)):
        rr.ok("too big = larger side outside uint8")
    else:
        rr.bad(r, r.node, "size guard does not test the larger side against uint8", construct="raise_if_too_big_for_cbdt predicate")
    # nothing that ends up in an 8-bit field is clamped on the way: the value is rejected (or nudged by at most a pixel where the property allows it), never replaced by the limit
    for fn_ in ("_width_in_pixels", "_ppem", "_cbdt_bitmap_data", "_pixels_to_funits"):
        f_ = model.func("bitmap_tables", fn_)
        clamp = [x for x in ast.walk(f_.node) if (isinstance(x, ast.Call) and norm(x.func) in ("min", "max") and any(norm(a) in ("255", "256", "127", "_UINT8_RANGE", "_INT8_RANGE") or "_UINT8_RANGE" in norm(a) for a in x.args))
                 or (isinstance(x, ast.Assign) and isinstance(x.value, ast.Constant) and x.value.value in (255, 127))]
        clamp = [x for x in clamp if not (isinstance(x, ast.Call) and any(isinstance(p_, ast.Call) and callee_tail(p_) == "warning" and any(y is x for y in ast.walk(p_)) for p_ in ast.walk(f_.node)))]
        if clamp:
            rr.bad(f_, clamp[0], f"{fn_} replaces a value that does not fit the 8-bit field by the field's limit (`{short(clamp[0], 60)}`): CBDT records then disagree with hmtx / the PNG, and the "
                   f"same helper feeds sbix, which could represent the true value", construct=f"{fn_}: value clamped to the field limit")
        else:
            rr.ok(f"{fn_}: no clamping to a field limit")
    rng = model.mod("bitmap_tables")
    if norm(rng.const("_INT8_RANGE")) == "range(-128, 127 + 1)" and norm(rng.const("_UINT8_RANGE")) == "range(0, 255 + 1)":
        rr.ok("_INT8_RANGE = [-128, 127], _UINT8_RANGE = [0, 255]")
    else:
        rr.bad(rng, rng.tree, "8-bit ranges changed", construct=f"_INT8_RANGE={norm(rng.const('_INT8_RANGE'))} _UINT8_RANGE={norm(rng.const('_UINT8_RANGE'))}")
    c = model.func("bitmap_tables", "BitmapMetrics.create")
    ccfg = cfg_of(c)
    ret = [st for st in walk_body(c) if isinstance(st, ast.Return)]
    asserts = [st for st in walk_body(c) if isinstance(st, ast.Assert)]
    need = {"config.bitmap_resolution in _UINT8_RANGE": False, "metrics.y_offset in _INT8_RANGE": False}
    for a in asserts:
        if norm(a.test) in need and ret and ccfg.dominates(ccfg.node_for(a), ccfg.node_for(ret[0])):
            need[norm(a.test)] = True
    for k, v in need.items():
        if v:
            rr.ok(f"BitmapMetrics.create asserts {k} before returning")
        else:
            rr.bad(c, c.node, f"BitmapMetrics.create no longer asserts {k}: an out-of-range value would wrap in the 8-bit field", construct=f"BitmapMetrics.create: assert {k}")
    nud = [x for x in calls_in(c) if callee_tail(x) == "_nudge_into_range"]
    if len(nud) == 2 and all(norm(x.args[0]) == "_INT8_RANGE" for x in nud):
        rr.ok("x/y offsets are nudged into the int8 range (by at most one pixel)")
    else:
        rr.bad(c, c.node, "offsets are not nudged with the int8 range", construct="BitmapMetrics.create: _nudge_into_range")
    n = model.func("bitmap_tables", "_nudge_into_range")
    d = n.node.args.defaults
    if d and norm(d[-1]) == "1":
        rr.ok("_nudge_into_range moves a value by at most 1 by default")
    else:
        rr.bad(n, n.node, "default nudge distance is not 1", construct="_nudge_into_range: max_move")


@RULES.rule("C14", "R14d", "one bitmap height per strike determines ppem in both back ends", floor=2)
def r14d(model: Model, rr: RuleResult):
    for fn in ("make_sbix_table", "_make_cbdt_strike"):
        fi = model.func("bitmap_tables", fn)
        cfg = cfg_of(fi)
        pp = find_calls(fi, "_ppem")
        ok = False
        if len(pp) == 1 and isinstance(pp[0].args[1], ast.Name):
            defs = cfg.reaching(cfg.node_for(pp[0]), pp[0].args[1].id)
            ok = bool(defs) and all(norm(d.value) == "only({c.bitmap.size[1] for c in color_glyphs})" for d in defs)
        if ok:
            rr.ok(f"{fn}: ppem from the single bitmap height of the strike's glyphs (only() asserts one height)")
        else:
            rr.bad(fi, fi.node, f"{fn}: ppem is not derived from the unique bitmap height of the strike", construct=f"{fn}: ppem source")


@RULES.rule("C14", "R14e", "the bitmap is centred in its advance using the bitmap's own width", floor=1)
def r14e(model: Model, rr: RuleResult):
    c = model.func("bitmap_tables", "BitmapMetrics.create")
    bm = [x for x in calls_in(c) if norm(x.func) == "BitmapMetrics"]
    if len(bm) != 1:
        raise AnalysisError("BitmapMetrics.create: BitmapMetrics(...) not found")
    from ..dataflow import resolved as _res, fold_tuples as _ft
    _ccfg = cfg_of(c)
    xo = kwarg(bm[0], "x_offset")
    if xo is not None:
        xo = _ft(_res(_ccfg, _ccfg.node_for(bm[0]), xo))
    subs = [n for n in ast.walk(xo) if isinstance(n, ast.BinOp) and isinstance(n.op, ast.Sub) and "_width_in_pixels" in norm(n.left)]
    if len(subs) != 1:
        raise AnalysisError("BitmapMetrics.create: x_offset is not of the form (advance in pixels - bitmap width) / 2")
    w = norm(subs[0].right)
    halves = any(isinstance(n, ast.BinOp) and isinstance(n.op, ast.Div) and norm(n.right) == "2" and n.left is subs[0] for n in ast.walk(xo))
    if w == f"{c.params[2]}.size[0]" and halves:
        rr.ok("x_offset = (advance in pixels - the bitmap's width) / 2, clamped at 0")
    elif w == "config.bitmap_resolution":
        rr.bad(c, subs[0], "the bitmap is centred as if it were bitmap_resolution pixels wide: a proportional bitmap that is wider than tall (192x128, advance 192 px) "
               "is shifted right by half the difference (32 px) instead of filling its advance", construct="BitmapMetrics.create: x_offset uses config.bitmap_resolution as the bitmap width")
    else:
        rr.bad(c, subs[0], f"x_offset subtracts {w} from the pixel advance, expected the bitmap's own width", construct=f"BitmapMetrics.create: x_offset uses {w}")


@RULES.rule("C14", "R14f", "the pixel advance is the larger of the configured width and the bitmap's own width, on every path (sibling of _advance_width)", floor=2)
def r14f(model: Model, rr: RuleResult):
    from ..dataflow import expr_closure
    fi = model.func("bitmap_tables", "_width_in_pixels")
    cfg = cfg_of(fi)
    cparam, iparam = fi.params[0], fi.params[1]
    rets = [st for st in walk_body(fi) if isinstance(st, ast.Return) and st.value is not None]
    if not rets:
        raise AnalysisError("_width_in_pixels: no return")
    for st in rets:
        _, exprs = expr_closure(cfg, cfg.node_for(st), st.value)
        ok = False
        for e in exprs:
            for n in ast.walk(e):
                if isinstance(n, ast.Call) and norm(n.func) == "max" and len(n.args) == 2:
                    sides = []
                    for a in n.args:
                        _, ae = expr_closure(cfg, cfg.node_for(st), a)
                        t = " ".join(norm(x) for x in ae)
                        sides.append((f"{cparam}.width" in t, f"{iparam}.size[0]" in t or f"{iparam}.size" in t))
                    if (sides[0][0] and sides[1][1]) or (sides[1][0] and sides[0][1]):
                        ok = True
        if ok:
            rr.ok(f"`{short(st, 60)}`: max(configured width, bitmap width) in one unit")
        else:
            rr.bad(fi, st, f"`{short(st, 60)}` does not take the larger of {cparam}.width and the bitmap's width: hmtx (color_glyph._advance_width) does, so the CBDT "
                   f"pixel advance and the scaled font advance disagree for a narrow bitmap in a fixed-width font", construct=f"_width_in_pixels: {short(st, 60)} without max(config.width, ...)")
    afi = model.func("color_glyph", "_advance_width")
    at = " ".join(norm(x) for x in afi.body)
    if "max(config.width," in at.replace("\n", " "):
        rr.ok("_advance_width: max(config.width, proportional width)")
    else:
        rr.bad(afi, afi.node, "_advance_width no longer takes the larger of the configured and the proportional width", construct="_advance_width: max(config.width, ...) missing")


@RULES.rule("C14", "R14g", "the vertical offset uses the bitmap's own height (not the configured resolution)", floor=1)
def r14g(model: Model, rr: RuleResult):
    c = model.func("bitmap_tables", "BitmapMetrics.create")
    bm = [x for x in calls_in(c) if norm(x.func) == "BitmapMetrics"]
    if len(bm) != 1:
        raise AnalysisError("BitmapMetrics.create: BitmapMetrics(...) not found")
    yo = kwarg(bm[0], "y_offset")
    if yo is None:
        raise AnalysisError("BitmapMetrics.create: y_offset keyword not found")
    from ..dataflow import resolved as _res, fold_tuples as _ft
    _ccfg = cfg_of(c)
    yo = _ft(_res(_ccfg, _ccfg.node_for(bm[0]), yo))
    _LH = norm(_ft(_res(_ccfg, _ccfg.node_for(bm[0]), ast.Name(id="line_height", ctx=ast.Load()))))
    img = c.params[2]
    subs = [n for n in ast.walk(yo) if isinstance(n, ast.BinOp) and isinstance(n.op, ast.Sub) and norm(n.left) in ("line_height", _LH)]
    if len(subs) != 1:
        raise AnalysisError("BitmapMetrics.create: y_offset is not of the form line_ascent - (line_height - bitmap height) / 2")
    h = norm(subs[0].right)
    if h == f"{img}.size[1]":
        rr.ok("y_offset = line_ascent - (line_height - the bitmap's height) / 2")
    elif "bitmap_resolution" in h:
        rr.bad(c, subs[0], "the bitmap is centred vertically as if it were config.bitmap_resolution pixels tall: a PNG of another height (maximum_color --bitmaps with its own "
               "--bitmap_resolution, bitmaps shared between configurations) is lifted or lowered by half the difference (64 px PNG, resolution 128: BearingY 83 instead of 51)",
               construct="BitmapMetrics.create: y_offset uses config.bitmap_resolution as the bitmap height")
    else:
        rr.bad(c, subs[0], f"y_offset subtracts {h} from the line height, expected the bitmap's own height", construct=f"BitmapMetrics.create: y_offset uses {h}")
