"""C08 — the build is a function of its inputs: output bytes are deterministic."""
from __future__ import annotations

import ast
from pathlib import Path
from typing import Dict, List, Optional, Set, Tuple

from ..cfg import cfg_of
from ..dataflow import expr_closure
from ..model import (AnalysisError, FuncInfo, Model, Module, calls_in, callee_tail, find_calls, kwarg, load_model, names_in, norm, short,
                     walk_body, walk_no_nested)
from ..order import OrderAnalysis
from ..report import RULES, RuleResult, VERIF

QA_MODULES = {"write_glyphgraph", "write_diffreport", "write_font2png", "write_font2png_html", "write_pngdiff"}

# Reviewed exceptions: (function fq, normalised construct prefix) -> reason. No wildcards.
ORDER_EXCEPTIONS: Dict[Tuple[str, str], str] = {
    ("reorder_glyphs.reorder_glyphs", "for tag in coverage_containers"):
        "each tag's effects are confined to its own table (font[tag]); the four passes commute",
    ("write_font._ensure_codepoints_will_have_glyphs", "for codepoint in need_blanks"):
        "only effect is ufo.newGlyph keyed by name; ufo.glyphOrder is assigned from sorted(glyph_names) right after (checked by R08a-blank)",
    ("extract_svgs.svg_glyphs", "for gid in gids"):
        "set of ints: iteration order does not depend on the hash seed; consumers key every result by gid",
    ("extract_svgs._remove_glyph_elements", "for gid in gids_to_remove"):
        "removes elements selected by id; removals commute",
    ("maximum_color._generate_additional_color_table", "nw.build("):
        "list({input_font, glue_target}) only orders ninja implicit dependencies, which is not observable in any output",
}


def font_path_modules(model: Model) -> List[str]:
    return sorted(m for m in model.modules if m not in QA_MODULES and m not in ("__init__", "_version"))


def _exception_for(fq: str, construct: str) -> Optional[str]:
    for (f, pre), why in ORDER_EXCEPTIONS.items():
        if f == fq and (construct.startswith(pre) or pre in construct):
            return why
    return None


def _blank_helpers(model) -> set:
    """functions the reference tree does not have that _ensure_codepoints_will_have_glyphs calls (the blank-glyph loop moved into a helper)"""
    from .. import report as _rep
    fi = model.func("write_font", "_ensure_codepoints_will_have_glyphs")
    out = set()
    for c in calls_in(fi, nested=True):
        callee = model.resolve_call(fi, c)
        if callee is not None and not isinstance(callee.node, ast.Lambda) and _rep.CURRENT_DRIFT.get(callee.fq, 0) is None:
            out.add(callee.fq)
    # the normal form inlines such a helper into its caller; the helper's own definition is still analysed: recognise it by what it does
    for f2 in model.mod("write_font").functions.values():
        if isinstance(f2.node, ast.Lambda) or _rep.CURRENT_DRIFT.get(f2.fq, 0) is not None:
            continue
        if any(isinstance(st, ast.Assign) and "glyphOrder" in norm(st.targets[0]) and "sorted(" in norm(st.value) for st in walk_body(f2)) \
                and any(callee_tail(c) == "newGlyph" for c in calls_in(f2, nested=True)):
            out.add(f2.fq)
    return out


@RULES.rule("C08", "R08a", "no order-sensitive consumption of set-like values or directory listings on the font path", floor=25)
def r08a(model: Model, rr: RuleResult):
    mods = font_path_modules(model)
    oa = OrderAnalysis(model, mods).run()
    for s in sorted(set(oa.sources)):
        rr.ok(f"unordered source: {s}")
    for s in sorted(set(oa.absorbed)):
        rr.ok(f"absorbed by an order-insensitive consumer: {s}")
    for s in sorted(set(oa.iterations)):
        rr.ok(f"iteration: {s}")
    for f in oa.findings:
        cons = f.source if isinstance(f.node, ast.For) else short(f.node, 140)
        why = _exception_for(f.fi.fq, cons) or _exception_for(f.fi.fq, f.source)
        if why is None and isinstance(f.node, ast.For) and f.fi.module.name == "reorder_glyphs" and isinstance(f.node.iter, ast.Name):
            # the reviewed exception above, recognised by what is iterated rather than by its name: a literal set of layout-table tags
            it = f.node.iter.id
            cfg = cfg_of(f.fi)
            vals = [d.value for d in cfg.reaching(cfg.node_for(f.node), it) if d.value is not None] or ([f.fi.module.assigns[it]] if it in f.fi.module.assigns else [])
            if vals and all(isinstance(v, ast.Set) and all(isinstance(e, ast.Constant) and e.value in ("GDEF", "GPOS", "GSUB", "MATH") for e in v.elts) for v in vals):
                why = ORDER_EXCEPTIONS[("reorder_glyphs.reorder_glyphs", "for tag in coverage_containers")]
        if why is None and (f.fi.fq == "write_font._ensure_codepoints_will_have_glyphs" or f.fi.fq in _blank_helpers(model)):
            # the reviewed exception above, recognised by what the loop does rather than by its spelling: it only creates glyphs keyed by name
            # (ufo.newGlyph, an attribute of the new glyph) and collects their names; the order is fixed afterwards by sorted() (R08a-blank below)
            loop = f.node if isinstance(f.node, ast.For) else None
            if loop is None:
                pm = {ch: par for par in ast.walk(f.fi.node) for ch in ast.iter_child_nodes(par)}
                x = f.node
                while x in pm and not isinstance(x, ast.For):
                    x = pm[x]
                loop = x if isinstance(x, ast.For) else None
            if loop is not None and all(callee_tail(c) in ("newGlyph", "glyph_name", "append", "add") for st in loop.body for c in ast.walk(st) if isinstance(c, ast.Call)) \
                    and any(callee_tail(c) == "newGlyph" for st in loop.body for c in ast.walk(st) if isinstance(c, ast.Call)) \
                    and not any(isinstance(n, (ast.Return, ast.Yield, ast.Break)) for st in loop.body for n in ast.walk(st)):
                why = ORDER_EXCEPTIONS[("write_font._ensure_codepoints_will_have_glyphs", "for codepoint in need_blanks")]
        if why:
            rr.exceptions_used.append(f"{f.fi.fq}: {cons}: {why}")
            continue
        rr.bad(f.fi, f.node, f"{f.what}: {f.source}. Set iteration order follows PYTHONHASHSEED / directory order, so the output "
               f"can differ between runs", construct=cons)
    rr.remarks.append(f"modules analysed: {len(mods)}; out of scope (QA tools): {sorted(QA_MODULES)}")
    # R08a-blank: the reviewed exception relies on glyphOrder being assigned from sorted(...)
    fi = model.func("write_font", "_ensure_codepoints_will_have_glyphs")
    scope = [fi] + [f2 for f2 in model.mod("write_font").functions.values() if f2.fq in _blank_helpers(model)]
    ok = any(isinstance(st, ast.Assign) and "glyphOrder" in norm(st.targets[0]) and "sorted(" in norm(st.value) for f2 in scope for st in walk_body(f2))
    if ok:
        rr.ok("blank glyphs are appended to glyphOrder in sorted() order")
    else:
        rr.bad(fi, fi.node, "blank glyphs are created while iterating a set and glyphOrder is not assigned from sorted(...)", construct="_ensure_codepoints_will_have_glyphs: glyphOrder")
    # DisjointSet: callers must use sorted(), never sets(), when order matters
    for m in mods:
        for fi2 in model.mod(m).functions.values():
            for c in calls_in(fi2):
                if callee_tail(c) == "sets" and isinstance(c.func, ast.Attribute) and m != "disjoint_set":
                    rr.bad(fi2, c, "DisjointSet.sets() (frozenset of frozensets) used outside disjoint_set.py; document grouping must use .sorted()", construct=short(c))


BANNED_PREFIXES = ("time.", "datetime.", "random.", "uuid.", "tempfile.", "secrets.")
BANNED_EXACT = {"id", "hash", "os.getpid", "os.urandom", "os.times", "os.getenv", "getpass.getuser", "socket.gethostname", "platform.node"}


def banned_calls(tree: ast.AST) -> List[ast.AST]:
    out = []
    for n in ast.walk(tree):
        if isinstance(n, ast.Call):
            f = norm(n.func)
            if f.startswith(BANNED_PREFIXES) or f in BANNED_EXACT:
                out.append(n)
        if isinstance(n, ast.Attribute) and norm(n) == "os.environ":
            out.append(n)
        # containers that stamp the current time unless told otherwise
        if isinstance(n, ast.Call) and norm(n.func) in ("gzip.compress", "gzip.GzipFile", "gzip.open", "GzipFile", "zipfile.ZipFile", "tarfile.open"):
            mt = [k for k in n.keywords if k.arg == "mtime"]
            if not (mt and isinstance(mt[0].value, ast.Constant)):
                out.append(n)
    return out


@RULES.rule("C08", "R08b", "no clock, randomness, pid, object identity or environment reads on the font path", floor=2)
def r08b(model: Model, rr: RuleResult):
    # positive fixture: the matcher must still match (a rule expecting zero hits must not rot into a vacuous pass)
    fx = VERIF / "fixtures" / "banned_positive.py"
    hits = banned_calls(ast.parse(fx.read_text()))
    if len(hits) < 8:
        raise AnalysisError(f"positive fixture {fx} matched only {len(hits)} banned constructs (expected >= 8): matcher is broken")
    rr.ok(f"positive fixture: {len(hits)} banned constructs recognised")
    n = 0
    for m in font_path_modules(model):
        mod = model.mod(m)
        for h in banned_calls(mod.tree):
            owner = None
            for fi in mod.functions.values():
                if any(x is h for x in ast.walk(fi.node)):
                    owner = fi
            rr.bad(owner or mod, h, f"{short(h)}: a source of run-to-run variation on the font path", construct=short(h))
        n += 1
    rr.ok(f"{n} font-path modules scanned, banned API list: {sorted(BANNED_EXACT)} + prefixes {BANNED_PREFIXES}")


TRACKED_PATH_ATTRS = {"svg_filename", "bitmap_filename", "svg_file", "bitmap_file"}
TRACKED_PATH_PARAMS = {"debug_hint", "svg_filename", "bitmap_filename"}
WORKER_MODULES = ["write_font", "color_glyph", "svg", "bitmap_tables", "paint", "colors", "glyph_reuse", "glyph", "features", "svg_path", "png"]
LOCATION_CALLS = {"abspath", "resolve", "build_dir", "getcwd", "cwd", "absolute", "realpath", "expanduser", "home"}
PARSE_CALLS = {"parse", "read_from", "open", "Path", "read_bytes", "read_text", "str", "bool", "loadjson", "parse_csv", "load_from"}


def _context(node: ast.AST, parent: Dict[ast.AST, ast.AST], fi: FuncInfo, model: Model) -> Tuple[str, str]:
    """Classify how a source-path value is used. Returns (verdict, description); verdict in ok/bad."""
    anc = node
    while anc in parent:
        anc = parent[anc]
        if isinstance(anc, ast.Raise):
            return "ok", "error message"
        if isinstance(anc, ast.Assert) and anc.msg is not None and any(x is node for x in ast.walk(anc.msg)):
            return "ok", "assert message"
    cur = node
    while True:
        p = parent.get(cur)
        if p is None:
            return "ok", "unused"
        if isinstance(p, (ast.Raise, ast.Assert)):
            return "ok", "error message"
        kwnode = None
        if isinstance(p, ast.keyword) and isinstance(parent.get(p), ast.Call):
            kwnode, p = p, parent.get(p)
        if isinstance(p, ast.Call):
            fn = norm(p.func)
            tail = callee_tail(p)
            if fn.startswith("logging."):
                return "ok", "log message"
            if cur is p.func or (isinstance(p.func, ast.Attribute) and p.func.value is cur):
                cur = p
                continue
            if tail in PARSE_CALLS:
                if tail == "str":
                    cur = p
                    continue
                return "ok", f"opened/parsed by {fn}"
            callee = model.resolve_call(fi, p)
            if callee is not None and not isinstance(callee.node, ast.Lambda):
                params = [x for x in callee.params if not (callee.cls and x in ("self", "cls"))]
                idx = [i for i, a in enumerate(p.args) if a is cur]
                pname = params[idx[0]] if idx and idx[0] < len(params) else None
                for kw in p.keywords:
                    if kw.value is cur or kw is kwnode:
                        pname = kw.arg
                if pname in TRACKED_PATH_PARAMS | TRACKED_PATH_ATTRS:
                    return "ok", f"passed to {callee.fq}({pname}=), tracked there"
                return "bad", f"passed to {callee.fq}({pname}=) which is not a tracked path parameter"
            if fn in ("ColorGlyph", "InputGlyph", "GlyphMapping", "sorted", "join", "','.join") or tail in ("join",):
                return "ok", f"stored in record / joined for a message by {fn}"
            if tail in ("sys.exit", "exit"):
                return "ok", "exit message"
            return "bad", f"passed to {fn}(...)"
        if isinstance(p, ast.Lambda):
            return "ok", "sort key / predicate"
        if isinstance(p, ast.JoinedStr) or isinstance(p, ast.FormattedValue):
            cur = p
            continue
        if isinstance(p, (ast.IfExp, ast.BoolOp, ast.UnaryOp, ast.Compare)):
            if isinstance(p, ast.IfExp) and cur is not p.test:
                cur = p
                continue
            if isinstance(p, ast.BoolOp):
                cur = p
                continue
            return "ok", "truthiness / comparison"
        if isinstance(p, (ast.If, ast.While)):
            return "ok", "truthiness test"
        if isinstance(p, ast.keyword) or isinstance(p, ast.Starred) or isinstance(p, ast.Tuple) or isinstance(p, ast.comprehension) or isinstance(p, ast.GeneratorExp):
            cur = p
            continue
        if isinstance(p, (ast.Assign, ast.AnnAssign)):
            tg = p.targets[0] if isinstance(p, ast.Assign) else p.target
            if isinstance(tg, ast.Name):
                return "ok", f"bound to local {tg.id}"
            return "bad", f"stored into {short(tg)}"
        if isinstance(p, ast.Return):
            return "ok", "returned"
        if isinstance(p, ast.Expr):
            return "ok", "discarded"
        if isinstance(p, ast.Subscript) or isinstance(p, ast.Attribute):
            cur = p
            continue
        return "bad", f"used in {type(p).__name__}"


@RULES.rule("C08", "R08d", "source paths and build locations never reach font data (only open/parse, sort keys, messages)", floor=15)
def r08d(model: Model, rr: RuleResult):
    for m in WORKER_MODULES:
        mod = model.mod(m)
        for fi in mod.functions.values():
            if isinstance(fi.node, ast.Lambda):
                continue
            parent = {}
            for st in fi.body:
                for p in ast.walk(st):
                    for c in ast.iter_child_nodes(p):
                        parent[c] = p
            tracked_params = set(fi.params) & TRACKED_PATH_PARAMS
            for n in walk_body(fi):
                hit = None
                if isinstance(n, ast.Attribute) and n.attr in TRACKED_PATH_ATTRS and isinstance(n.ctx, ast.Load):
                    hit = norm(n)
                elif isinstance(n, ast.Name) and n.id in tracked_params and isinstance(n.ctx, ast.Load):
                    hit = n.id
                if hit is None:
                    continue
                verdict, how = _context(n, parent, fi, model)
                if verdict == "ok":
                    rr.ok(f"{fi.fq}: {hit} -> {how}")
                else:
                    st = n
                    while st in parent and not isinstance(st, ast.stmt):
                        st = parent[st]
                    rr.bad(fi, st, f"source path {hit} is {how}: the font would depend on where the sources or the build directory live",
                           construct=f"{hit} in {short(st, 100)}")
            for c in calls_in(fi):
                if callee_tail(c) in LOCATION_CALLS and not (callee_tail(c) == "resolve" and "url" in norm(c.func)):
                    if callee_tail(c) == "resolve" and norm(c.func).endswith("resolve_url"):
                        continue
                    rr.bad(fi, c, f"{short(c)}: location-dependent value computed in a font-building module", construct=short(c))
    # ufo/info fields in _ufo come from config only
    fi = model.func("write_font", "_ufo")
    for st in walk_body(fi):
        if isinstance(st, ast.Assign) and any("ufo.info" in norm(t) or "ufo.lib" in norm(t) for t in st.targets):
            from ..dataflow import resolved, fold_module_constants
            ucfg = cfg_of(fi)
            rv = fold_module_constants(resolved(ucfg, ucfg.node_for(st), st.value), fi)
            cparam = fi.params[0] if fi.params else "config"
            nm = names_in(rv) - {cparam, "config", "ufo", "ufo2ft", "keep", "True", "False", "None"}
            # locals that are themselves alternatives over config-derived values (if/else assigned) are fine
            nm = {x for x in nm if not all(names_in(d.value) <= {cparam, "config", "ufo", "ufo2ft", "True", "False", "None"} for d in ucfg.reaching(ucfg.node_for(st), x) if d.value is not None) or not ucfg.reaching(ucfg.node_for(st), x)}
            if nm:
                rr.bad_shape(fi, st, f"font info field set from {sorted(nm)}", construct=short(st))
            else:
                rr.ok(f"_ufo: {short(st.targets[-1], 40)} <- config only")


@RULES.rule("C08", "R08e", "first-seen disambiguation of intermediate names is fed in sorted source order", floor=6)
def r08e(model: Model, rr: RuleResult):
    mod = model.mod("nanoemoji")
    dest_fns = set()
    for fi in mod.functions.values():
        if find_calls(fi, "_dest_for_src"):
            dest_fns.add(fi.name)
    if len(dest_fns) < 4:
        raise AnalysisError("dest functions built on _dest_for_src not found")
    allowed_iters = {"master.sources", "svg_files"}
    for fi in mod.functions.values():
        parent = {}
        for st in fi.body:
            for p in ast.walk(st):
                for c in ast.iter_child_nodes(p):
                    parent[c] = p
        for c in calls_in(fi, nested=True):
            if callee_tail(c) in dest_fns and isinstance(c.func, ast.Name) or (callee_tail(c) in ("infile_fn", "outfile_fn", "dest_func")):
                if fi.name in dest_fns:
                    continue
                # innermost enclosing loop / comprehension
                cur = c
                it = None
                while cur in parent:
                    cur = parent[cur]
                    if isinstance(cur, ast.For):
                        it = norm(cur.iter)
                        break
                    if isinstance(cur, (ast.GeneratorExp, ast.ListComp)):
                        it = norm(cur.generators[-1].iter)
                        break
                if it in allowed_iters:
                    rr.ok(f"{fi.qualname}: {short(c, 50)} called while iterating {it}")
                elif it is None and fi.name in ("part_file_dest",):
                    continue
                else:
                    rr.bad_shape(fi, c, f"{short(c, 60)} is called outside an iteration over the sorted source list (iterating {it}): the 1..N "
                           f"disambiguation of equal file names would depend on call order", construct=f"{fi.qualname}: {short(c, 60)} in loop over {it}")
    lfi = model.func("config", "load")
    mc = [c for c in calls_in(lfi) if norm(c.func) == "MasterConfig"]
    if len(mc) != 1:
        raise AnalysisError("config.load: MasterConfig(...) not found")
    srcs = mc[0].args[4] if len(mc[0].args) > 4 else kwarg(mc[0], "sources")
    cfg = cfg_of(lfi)
    names, exprs = expr_closure(cfg, cfg.node_for(mc[0]), srcs)
    direct = [d for d in cfg.reaching(cfg.node_for(mc[0]), norm(srcs))] if isinstance(srcs, ast.Name) else []
    def sorted_on_absolute(v) -> Optional[bool]:
        # tuple(sorted(<abspath(p) for p in srcs>))  or  sorted(srcs, key=abspath)
        for c in ast.walk(v):
            if isinstance(c, ast.Call) and norm(c.func) == "sorted" and c.args:
                a = c.args[0]
                key = kwarg(c, "key")
                if key is not None and ("abspath" in norm(key) or "resolve" in norm(key)):
                    return True
                if isinstance(a, (ast.GeneratorExp, ast.ListComp)) and ("abspath(" in norm(a.elt) or ".resolve()" in norm(a.elt)):
                    return True
                return False
        return None
    verdicts = [sorted_on_absolute(d.value) for d in direct if d.value is not None]
    if direct and all(v is None for v in verdicts):
        # the tuple is assembled by a loop: what the loop walks decides the order
        for lp in [x for x in walk_body(lfi) if isinstance(x, ast.For) and "srcs" in norm(x.iter)]:
            fed = any(isinstance(d.value, (ast.Dict, ast.List)) or d.value is not None for d in direct) and any(
                isinstance(y, ast.Name) and isinstance(srcs, ast.Name) and any(y.id in norm(d.value) for d in direct if d.value is not None) for y in ast.walk(lp))
            if fed:
                verdicts.append(sorted_on_absolute(lp.iter))
    if direct and verdicts and all(v is True for v in verdicts):
        rr.ok("config.load: master sources = tuple(sorted(absolute paths)) of the collected set")
    elif direct and any(v is False for v in verdicts):
        rr.bad(lfi, mc[0], "master sources are sorted by the way their paths were spelled (relative to the working / config directory) and made absolute "
               "afterwards: source order, hence glyph order, depends on where the build is started from", construct="config.load: sorted before abspath")
    else:
        rr.bad_shape(lfi, mc[0], "master sources are not sorted after being collected in a set / from glob", construct=short(mc[0], 120))
    sfi = model.func("config", "load")
    if any(isinstance(n, ast.Call) and norm(n.func) == "sorted" and "source_names" in norm(n) for n in walk_body(sfi)):
        rr.ok("config.load: source_names sorted")


@RULES.rule("C08", "R08p", "the reusable-parts file (hash ordered) does not feed the font", floor=1)
def r08p(model: Model, rr: RuleResult):
    fi = model.func("write_font", "main")
    uses = [n for n in walk_body(fi) if isinstance(n, ast.Name) and n.id == "reusable_parts" and isinstance(n.ctx, ast.Load)]
    if uses:
        rr.bad(fi, uses[0], "write_font.main reads reusable_parts: the hash-ordered parts file now influences the font", construct="write_font.main: use of reusable_parts")
    else:
        rr.ok("write_font.main binds reusable_parts and never reads it")
    for m in ("write_font", "svg", "color_glyph", "bitmap_tables"):
        if any("parts" in v for v in model.mod(m).imports.values() if v.startswith("nanoemoji.")) and m != "write_font":
            rr.bad(model.mod(m), model.mod(m).tree, f"{m} imports nanoemoji.parts", construct=f"{m}: import parts")


@RULES.rule("C08", "R08f", "glyph map rows keep the driver's (absolute-path sorted) source order; workers do not re-sort build-dir-relative file names", floor=2)
def r08f(model: Model, rr: RuleResult):
    """The driver sorts sources by absolute path and hands them to the glyph-map step as paths relative to the build directory (and through
    first-come 1/, 2/ sub-directories).  Sorting those spellings again makes glyph order depend on where the build directory is and on which
    configuration came first."""
    n = 0
    for mname in ("write_glyphmap", "write_fea", "write_glyphmap_for_glyph_svgs"):
        mod = model.mod(mname)
        for fi in mod.functions.values():
            cfg = cfg_of(fi)
            for c in calls_in(fi, nested=True):
                is_sorted = isinstance(c.func, ast.Name) and c.func.id == "sorted" and c.args
                is_sort = isinstance(c.func, ast.Attribute) and c.func.attr == "sort"
                if not (is_sorted or is_sort):
                    continue
                operand = c.args[0] if is_sorted else c.func.value
                try:
                    at = cfg.node_for(c)
                    names, exprs = expr_closure(cfg, at, operand)
                except Exception:
                    names, exprs = {x.id for x in ast.walk(operand) if isinstance(x, ast.Name)}, [operand]
                from_argv = bool(names & {"argv", "input_files", "filename", "filenames"}) or any("FLAGS." in norm(e) for e in exprs)
                if any(isinstance(x, ast.Call) and callee_tail(x) in ("parse_csv", "load_from", "load", "read_text", "TTFont", "open", "getGlyphOrder") for e in exprs for x in ast.walk(e)):
                    from_argv = False  # ordering by the *content* of an input file, not by how files are spelled
                key = kwarg(c, "key")
                keyt = norm(key) if key is not None else ""
                elt = " ".join(norm(e) for e in exprs)
                absolute = "abspath" in keyt or "resolve" in keyt or "abspath(" in elt or ".resolve()" in elt
                by_content = any(k in keyt for k in ("stem", "codepoints", "glyph_name", "int("))
                n += 1
                if from_argv and not absolute and not by_content:
                    rr.bad(fi, c, f"{short(c, 70)} orders file names as they are spelled on the command line (relative to the build directory, through first-come "
                           f"1/, 2/ sub-directories): the glyph order then changes with the location of the build dir and the order of configurations",
                           construct=f"{mname}.{fi.qualname}: sorted() over argv-relative paths")
                else:
                    rr.ok(f"{mname}.{fi.qualname}: {short(c, 60)} does not order by build-dir-relative spelling")
    gfi = model.func("write_glyphmap", "_glyphmappings")
    loops = [st for st in walk_body(gfi) if isinstance(st, ast.For)]
    first = loops[0] if loops else None
    if first is not None and norm(first.iter) == gfi.params[0]:
        rr.ok("_glyphmappings consumes input_files in the order given; dicts keep insertion order")
    elif first is not None:
        gcfg = cfg_of(gfi)
        names, exprs = expr_closure(gcfg, gcfg.node_for(first), first.iter)
        if any(isinstance(x, ast.Call) and norm(x.func) in ("sorted", "set", "frozenset", "reversed") for e in exprs for x in ast.walk(e)):
            rr.bad(gfi, first, f"_glyphmappings iterates {short(first.iter, 60)}, not the input list as given: rows (= glyph order) follow the spelling of the paths",
                   construct="_glyphmappings: input order not kept")
        else:
            rr.ok(f"_glyphmappings iterates {short(first.iter, 50)}")
    mfi = model.func("write_glyphmap", "main")
    if any(callee_tail(c) == "_glyphmappings" and c.args and isinstance(c.args[0], ast.Name) for c in calls_in(mfi)):
        rr.ok("main passes the expanded response file list on as it is")


MUTATORS = {"add", "append", "update", "setdefault", "pop", "clear", "extend", "insert", "remove", "popitem", "discard", "appendleft", "sort", "reverse", "__setitem__"}
HIDDEN_STATE_OK: dict = {}


def _sound_memo(fi, name: str) -> bool:
    """`name` is used in fi as a memo that cannot change results: every store is `name[key] = v` and every read `name.get(key)` / `name[key]` /
    `key in name` with a key that mentions every parameter (self/cls aside), and a value read from it is returned unmodified."""
    from ..dataflow import param_closure
    cfg = cfg_of(fi)
    params = [p for p in fi.params if p not in ("self", "cls")]
    keys = []
    reads = []
    for x in walk_body(fi, nested=False):
        if isinstance(x, ast.Subscript) and isinstance(x.value, ast.Name) and x.value.id == name:
            keys.append((x, x.slice))
            if isinstance(x.ctx, ast.Load):
                reads.append(x)
        elif isinstance(x, ast.Call) and isinstance(x.func, ast.Attribute) and isinstance(x.func.value, ast.Name) and x.func.value.id == name:
            if x.func.attr in ("get", "setdefault") and x.args:
                keys.append((x, x.args[0]))
                reads.append(x)
            else:
                return False
        elif isinstance(x, ast.Compare) and any(isinstance(c, ast.Name) and c.id == name for c in x.comparators):
            keys.append((x, x.left))
        elif isinstance(x, ast.Name) and x.id == name and isinstance(x.ctx, ast.Store):
            return False
    if not keys:
        return False
    for site, k in keys:
        st = site
        try:
            at = cfg.node_for(site)
        except Exception:
            return False
        if not set(params) <= param_closure(cfg, at, k):
            return False
    # hits: a value read from the memo flows to a return only as itself
    for st in walk_body(fi):
        if isinstance(st, ast.Return) and st.value is not None:
            uses = [n for n in ast.walk(st.value) if (isinstance(n, ast.Name) and any(isinstance(d.value, (ast.Call, ast.Subscript)) and d.value in reads for d in cfg.reaching(cfg.node_for(st), n.id))) or n in reads]
            if uses and not (len(uses) == 1 and uses[0] is st.value):
                return False
    return True


@RULES.rule("C08", "R08g", "no hidden state: no function changes a module-level container or rebinds a global (memo tables keyed on part of the input)", floor=20)
def r08g(model: Model, rr: RuleResult):
    """A module-level memo makes the result of a call depend on the calls before it: on the other glyphs, the other configuration, the
    other font built by the same process.  The pinned tree has none (functools.lru_cache on pure helpers aside), so any new one is reported;
    a cache that is correct must be keyed on everything the result depends on, which is what lru_cache does."""
    n = 0
    for mname, mod in sorted(model.modules.items()):
        containers = {}
        for st in mod.tree.body:
            tg = v = None
            if isinstance(st, ast.Assign) and len(st.targets) == 1 and isinstance(st.targets[0], ast.Name):
                tg, v = st.targets[0].id, st.value
            elif isinstance(st, ast.AnnAssign) and isinstance(st.target, ast.Name) and st.value is not None:
                tg, v = st.target.id, st.value
            if tg and (isinstance(v, (ast.Dict, ast.List, ast.Set)) or (isinstance(v, ast.Call) and callee_tail(v) in ("dict", "list", "set", "defaultdict", "OrderedDict", "Counter", "deque", "WeakValueDictionary"))):
                containers[tg] = st
        bad_here = 0
        for fi in mod.functions.values():
            if "." in fi.qualname and fi.qualname.rsplit(".", 1)[0] in mod.functions:
                continue
            shadow = set(fi.params)
            for x in walk_body(fi, nested=True):
                if isinstance(x, ast.Name) and isinstance(x.ctx, ast.Store):
                    shadow.add(x.id)
            for x in walk_body(fi, nested=True):
                nm = None
                if isinstance(x, ast.Global):
                    for g in x.names:
                        if (mname, fi.qualname, g) not in HIDDEN_STATE_OK:
                            rr.bad(fi, x, f"`global {g}` in {fi.qualname}: the function rebinds module state, so its result depends on earlier calls", construct=f"{fi.qualname}: global {g}")
                            bad_here += 1
                if isinstance(x, ast.Subscript) and isinstance(x.ctx, (ast.Store, ast.Del)) and isinstance(x.value, ast.Name):
                    nm = x.value.id
                if isinstance(x, ast.Call) and isinstance(x.func, ast.Attribute) and isinstance(x.func.value, ast.Name) and x.func.attr in MUTATORS:
                    nm = x.func.value.id
                if isinstance(x, ast.AugAssign) and isinstance(x.target, ast.Name):
                    nm = x.target.id if x.target.id in containers and x.target.id not in shadow else None
                if nm in containers and nm not in shadow and (mname, fi.qualname, nm) not in HIDDEN_STATE_OK:
                    if _sound_memo(fi, nm):
                        rr.ok(f"{mname}.{fi.qualname}: `{nm}` is a memo keyed on every parameter whose hits return the stored value itself")
                        continue
                    rr.bad(fi, x, f"{fi.qualname} writes to the module-level container `{nm}` ({mname}.py:{containers[nm].lineno}): what it returns next time depends on what "
                           f"was looked up before (another shape, glyph, configuration or font in the same process) unless the key holds every input the value depends on",
                           construct=f"{fi.qualname}: mutates module-level {nm}")
                    bad_here += 1
        n += 1
        if not bad_here:
            rr.ok(f"{mname}: {len(containers)} module-level container(s), none written by a function")
    if n < 20:
        raise AnalysisError(f"R08g: only {n} modules scanned")


# --------------------------------------------------------------------------------------------- R08j: compute-and-store memos
def _memo_sites(fi):
    """(M text, key expr, store stmt, lookup node) for every `M[K] = V` of the function that has a look-up of M under the same key text (`M.get(K)`, `K in M`,
    `M[K]` read) in the same function: the compute-and-store memo shape."""
    out = []
    nodes = list(walk_body(fi, nested=False))
    for st in nodes:
        if not (isinstance(st, ast.Assign) and len(st.targets) == 1 and isinstance(st.targets[0], ast.Subscript)):
            continue
        tgt = st.targets[0]
        if not isinstance(tgt.value, (ast.Name, ast.Attribute)):
            continue
        m, k = norm(tgt.value), norm(tgt.slice)
        look = None
        guards = set()
        for x in nodes:
            if isinstance(x, ast.Assert):
                guards |= {id(y) for y in ast.walk(x)}
            if isinstance(x, ast.If) and x.body and isinstance(x.body[0], ast.Raise):
                guards |= {id(y) for y in ast.walk(x.test)}
        for x in nodes:
            if id(x) in guards:
                continue  # a uniqueness check in front of a registry entry, not a memo look-up
            if isinstance(x, ast.Call) and isinstance(x.func, ast.Attribute) and x.func.attr == "get" and norm(x.func.value) == m and x.args and norm(x.args[0]) == k:
                look = x
            elif isinstance(x, ast.Compare) and len(x.ops) == 1 and isinstance(x.ops[0], (ast.In, ast.NotIn)) and norm(x.comparators[0]) == m and norm(x.left) == k:
                look = x
            elif isinstance(x, ast.Subscript) and isinstance(x.ctx, ast.Load) and norm(x.value) == m and norm(x.slice) == k and x is not tgt:
                look = look or x
        if look is not None:
            out.append((m, tgt.slice, st, look))
    return out


def _varies_while_cache_lives(model, fi, cache_param, dep_param, depth=4, suffix="") -> Optional[str]:
    """Does some caller hand the same cache to calls whose `dep_param` argument differs?  -> a description of the call site where that is visible, else None."""
    if depth == 0:
        return None
    from ..dataflow import expr_closure as _ec
    for g, call in model.call_sites(fi):
        if isinstance(g.node, ast.Lambda):
            continue
        args = {}
        ps = [p_ for p_ in fi.params if not (fi.cls and p_ in ("self", "cls"))]
        for p_, a in zip(ps, call.args):
            args[p_] = a
        for kw in call.keywords:
            if kw.arg:
                args[kw.arg] = kw.value
        am, ap = args.get(cache_param), args.get(dep_param)
        if am is None or ap is None or not isinstance(am, ast.Name):
            continue
        gcfg = cfg_of(g)
        at = gcfg.node_for(call)
        dnames, _ = _ec(gcfg, at, ap)
        loops = [l for l in ast.walk(g.node) if isinstance(l, (ast.For, ast.While)) and any(x is call for x in ast.walk(l))]
        if am.id in g.params:
            # the cache comes from further out: whatever this function computes afresh per call from its own varying inputs varies
            dep_ps = [p_ for p_ in g.params if p_ in dnames and p_ != am.id]
            for dp in dep_ps:
                r = _varies_while_cache_lives(model, g, am.id, dp, depth - 1, suffix)
                if r:
                    return r
            continue
        # the cache is made here: does the dependency change inside a loop that the cache's creation is outside of?
        mdefs = [d for d in gcfg.reaching(at, am.id)]
        for lp in loops:
            made_inside = any(d.stmt is not None and any(x is d.stmt for x in ast.walk(lp)) for d in mdefs) or \
                (bool(suffix) and any(isinstance(x, ast.Assign) and any(norm(t) == am.id + suffix for t in x.targets) for x in ast.walk(lp)))  # `cache.table = {}` per iteration
            if made_inside:
                continue
            targets = {n.id for n in ast.walk(lp.target) if isinstance(n, ast.Name)} if isinstance(lp, ast.For) else set()
            inner_defs = {n.id for n in ast.walk(lp) if isinstance(n, ast.Name) and isinstance(n.ctx, ast.Store)}
            if dnames & (targets | inner_defs):
                return f"{g.qualname} creates `{am.id}` outside its loop (line {lp.lineno}) and passes `{short(ap, 40)}`, which changes with every iteration, for `{dep_param}`"
    return None


@RULES.rule("C08", "R08j", "compute-and-store memo tables are keyed on everything the stored value is computed from", floor=6)
def r08j(model: Model, rr: RuleResult):
    """`hit = M.get(K) / if K in M` ... `M[K] = V` in one function: V may only be computed from parameters the key K is computed from, unless the other parameter
    cannot change while M lives.  A table kept on an object or module outlives the call, so every other parameter counts; a table handed in by the caller is
    followed to where it is created (up to four calls up) and the other parameter must be fixed there."""
    from ..dataflow import param_closure
    n = 0
    for mname, mod in sorted(model.modules.items()):
        for fi in mod.functions.values():
            if isinstance(fi.node, ast.Lambda):
                continue
            sites = _memo_sites(fi)
            if not sites:
                continue
            cfg = cfg_of(fi)
            for m, key, store, look in sites:
                n += 1
                at = cfg.node_for(store)
                kps = param_closure(cfg, at, key)
                base = m.split(".")[0].split("[")[0]
                # everything read between the look-up and the store (the work the hit skips), the stored value included
                # (by control flow, not by line numbers: inlined helper bodies keep the lines they had)
                ln = cfg.node_for(look)
                fwd = cfg.reachable_from(ln) | {ln}
                between = {n_ for n_ in fwd if n_ == at or at in cfg.reachable_from(n_)}
                region = []
                for n_ in between:
                    a_ = cfg.nodes[n_].ast
                    if a_ is None:
                        continue
                    tops = [a_.test] if isinstance(a_, (ast.If, ast.While)) else ([a_.iter] if isinstance(a_, ast.For) else ([i_.context_expr for i_ in a_.items] if isinstance(a_, ast.With) else [a_]))
                    for t_ in tops:
                        region += [x for x in ast.walk(t_) if isinstance(x, ast.Name) and isinstance(x.ctx, ast.Load)]
                vps = set()
                for x in region:
                    if x.id in fi.params:
                        try:
                            vps |= param_closure(cfg, at, x)
                        except Exception:
                            vps.add(x.id)
                extra = sorted(p_ for p_ in vps - kps if p_ not in ("self", "cls", base))
                label = f"{mname}.{fi.qualname}: {m}[{short(key, 40)}]"
                if not extra:
                    rr.ok(f"{label}: the value is computed from the key's inputs only")
                    continue
                long_lived = base in ("self", "cls") or (base not in fi.params and base in mod.assigns)
                reported = False
                for p_ in extra:
                    if long_lived:
                        why = f"the table lives on {'the object' if base in ('self', 'cls') else 'the module'} and is reused by later calls with another `{p_}`"
                    elif base in fi.params:
                        why = _varies_while_cache_lives(model, fi, base, p_, suffix=m[len(base):])
                    else:
                        why = None
                    if why:
                        rr.bad(fi, store, f"memo `{m}` is keyed on `{short(key, 50)}` but the value stored under it is also computed from `{p_}`: {why}; a hit returns what was computed "
                               f"for another `{p_}` (another glyph's transform / viewBox / configuration)", construct=f"{fi.qualname}: memo {m} keyed without {p_}")
                        reported = True
                        break
                if not reported:
                    rr.ok(f"{label}: other inputs ({', '.join(extra)}) are fixed while the table lives, as far as its creation sites show")
    rr.remarks.append(f"{n} compute-and-store memo site(s) examined")
