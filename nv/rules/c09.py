"""C09 — re-running converges to the clean build: is ninja told the truth? (E6, E9)
R09a/R09b are parametrised by driver module and shared with C12 (maximum_color)."""
from __future__ import annotations

import ast
from typing import Dict, List, Optional, Set, Tuple

from ..cfg import cfg_of
from ..dataflow import expr_closure
from ..guards import guard_facts
from ..model import (AnalysisError, FuncInfo, Model, calls_in, callee_tail, find_calls, kwarg, names_in, norm, short,
                     walk_body, walk_no_nested)
from ..ninja import Edge, Rule, extract, resolve_values, variable_keys
from ..report import RULES, RuleResult

BUILTIN_VARS = {"in", "out", "in_newline"}

# reviewed exceptions for R09b, keyed by (function, variable key): one line of reason each
R09B_EXCEPTIONS = {
    ("nanoemoji.write_variable_font_build", "config_file"):
        "every field write_variable_font reads from this file (axes, per-master style/position/output_ufo) is also serialised "
        "into a per-master UFO config that is a declared input of a UFO edge, itself an implicit input of this edge",
    ("maximum_color._write_config_for_mergeable", "color_format"): "not a path",
}


# edge-writing functions outside the font build (scope exclusion, not a suppression of a finding about the font)
QA_ONLY = {("nanoemoji", "write_svg_font_diff_build"): "--gen_svg_font_diffs render comparison through headless Chrome"}


def rules_by_name(rules: List[Rule]) -> Dict[Optional[str], List[Rule]]:
    out: Dict[Optional[str], List[Rule]] = {}
    for r in rules:
        out.setdefault(r.name, []).append(r)
    return out


def edge_rule_bindings(model: Model, edge: Edge, rules: List[Rule]):
    """Yield (rule or None, description, bound call) for each rule an edge site may use."""
    byname = rules_by_name(rules)
    out = []
    vals = []
    for fi, e, call in resolve_values(model, edge.fi, edge.rule_expr, edge.call, depth=1):
        # a conditional expression names one rule per arm
        todo = [e]
        while todo:
            x = todo.pop(0)
            if isinstance(x, ast.IfExp):
                todo[:0] = [x.body, x.orelse]
            else:
                vals.append((fi, x, call))
    for fi, e, call in vals:
        if isinstance(e, ast.Constant) and isinstance(e.value, str):
            rs = byname.get(e.value)
            out.append((rs[-1] if rs else None, e.value, call))
        elif isinstance(e, ast.Call):
            # function returning a configuration field: a dynamically named rule
            dyn = byname.get(None, [])
            out.append((dyn[-1] if dyn else None, f"<{short(e, 40)}>", call))
        elif isinstance(e, ast.Name) and e.id in fi.params and not call:
            out.append((None, f"<param {e.id}>", None))
        else:
            out.append((None, f"<{short(e, 40)}>", call))
    return out


def check_bound_variables(model: Model, modname: str, rr: RuleResult):
    rules, edges = extract(model, modname)
    if not rules or not edges:
        raise AnalysisError(f"{modname}: no ninja rules/edges found")
    seen_rules = set()
    for edge in edges:
        if (modname, edge.fi.qualname) in QA_ONLY:
            rr.remarks.append(f"{edge.site()}: QA-only edge ({QA_ONLY[(modname, edge.fi.qualname)]}); not part of the font build, not checked")
            continue
        for rule, rname, call in edge_rule_bindings(model, edge, rules):
            if rule is None:
                if rname.startswith("<param"):
                    rr.unknown(f"{edge.site()}: rule name is an unbound parameter")
                    continue
                rr.bad_shape(edge.fi, edge.call, f"edge uses rule {rname!r} that {modname} never defines: ninja fails to load the graph",
                       construct=f"{short(edge.call, 100)} [rule {rname}]")
                continue
            seen_rules.add(id(rule))
            keys, how = variable_keys(model, edge, call)
            if keys is None:
                rr.unknown(f"{edge.site()}: variables undecidable ({how})")
                continue
            need = rule.vars - BUILTIN_VARS
            missing = need - set(keys)
            extra = set(keys) - need
            where = f"{edge.fi.qualname} -> rule {rname}"
            if missing:
                rr.bad_shape(edge.fi, edge.call, f"rule '{rname}' expands ${', $'.join(sorted(missing))} but the edge binds only {sorted(keys)}: "
                       f"ninja substitutes the empty string silently", construct=f"{where}: unbound ${', $'.join(sorted(missing))}")
            if extra:
                rr.bad(edge.fi, edge.call, f"edge binds {sorted(extra)} which rule '{rname}' never expands: the value never reaches the command",
                       construct=f"{where}: unused variable {sorted(extra)}")
            if not missing and not extra:
                rr.ok(f"{where}: ${sorted(need)} bound ({how})" if need else f"{where}: no rule variables")
    for r in rules:
        if id(r) not in seen_rules:
            rr.remarks.append(f"rule {r.name or short(r.name_expr)} defined in {r.fi.qualname} has no edge site")
    return rules, edges


@RULES.rule("C09", "R09a", "every $variable of a rule is bound by each edge that uses it (nanoemoji.py)", floor=12)
def r09a(model: Model, rr: RuleResult):
    check_bound_variables(model, "nanoemoji", rr)


def _list_elements(model: Model, fi: FuncInfo, e: Optional[ast.AST], at: ast.AST) -> Tuple[List[ast.AST], bool]:
    """Element expressions of an inputs/implicit argument. Returns (elements, has_opaque_part)."""
    if e is None:
        return [], False
    if isinstance(e, (ast.List, ast.Tuple, ast.Set)):
        return list(e.elts), False
    if isinstance(e, ast.BinOp) and isinstance(e.op, ast.Add):
        a, oa = _list_elements(model, fi, e.left, at)
        b, ob = _list_elements(model, fi, e.right, at)
        return a + b, oa or ob
    if isinstance(e, ast.Call) and norm(e.func) in ("list", "sorted", "tuple", "set") and e.args:
        return _list_elements(model, fi, e.args[0], at)
    return [e], True


def check_declared_inputs(model: Model, modname: str, rr: RuleResult):
    """Every variable whose value is a path is also a declared (implicit) input of the edge."""
    rules, edges = extract(model, modname)
    for edge in edges:
        if (modname, edge.fi.qualname) in QA_ONLY:
            continue
        for rule, rname, call in edge_rule_bindings(model, edge, rules):
            keys, how = variable_keys(model, edge, call)
            if not keys:
                continue
            fi = edge.fi
            cfg = cfg_of(fi)
            at = cfg.node_for(edge.call)
            # order-only dependencies do not count: ninja does not rebuild an output when an order-only input changes
            declared_txt = " ".join(norm(x) for x in (edge.inputs, edge.implicit) if x is not None)
            # `implicit=list(variables.values())` / list(inputs) declare every variable
            all_declared = False
            partial_all = False
            excluded_keys = set()

            def _declares_all(e, var) -> bool:
                if e is None:
                    return False
                if isinstance(e, ast.Call) and norm(e.func) in ("list", "tuple", "sorted") and e.args and norm(e.args[0]) == f"{var}.values()":
                    return True
                if isinstance(e, ast.BinOp) and isinstance(e.op, ast.Add):
                    return _declares_all(e.left, var) or _declares_all(e.right, var)
                if isinstance(e, (ast.List, ast.Tuple)):
                    return any(isinstance(x, ast.Starred) and norm(x.value) == f"{var}.values()" for x in e.elts)
                if isinstance(e, ast.Name):
                    ds = cfg.reaching(at, e.id)
                    return bool(ds) and all(d.value is not None and _declares_all(d.value, var) for d in ds)
                return False
            if edge.variables is not None and isinstance(edge.variables, ast.Name):
                if _declares_all(edge.inputs, edge.variables.id) or _declares_all(edge.implicit, edge.variables.id):
                    all_declared = True
                else:
                    # `[v for v in variables.values() if v != variables["k"]]`: everything but key k
                    for e in (edge.inputs, edge.implicit):
                        if isinstance(e, ast.ListComp) and len(e.generators) == 1 and norm(e.generators[0].iter) == f"{edge.variables.id}.values()" \
                                and norm(e.elt) == norm(e.generators[0].target) and len(e.generators[0].ifs) == 1:
                            t = e.generators[0].ifs[0]
                            if isinstance(t, ast.Compare) and len(t.ops) == 1 and isinstance(t.ops[0], ast.NotEq):
                                other = t.comparators[0] if norm(t.left) == norm(e.elt) else t.left
                                if isinstance(other, ast.Name):
                                    ds = cfg.reaching(at, other.id)
                                    other = ds[0].value if len(ds) == 1 and ds[0].value is not None else other
                                if isinstance(other, ast.Subscript) and norm(other.value) == edge.variables.id and isinstance(other.slice, ast.Constant):
                                    excluded_keys = {other.slice.value}
                                    partial_all = True
            if edge.variables is not None and isinstance(edge.variables, ast.Call) and callee_tail(edge.variables) == "_asdict":
                base = norm(edge.variables.func.value)
                if f"list({base})" in declared_txt or f"tuple({base})" in declared_txt:
                    all_declared = True
            # implicit=<helper>(variables): read which keys the helper lists
            helper_keys = None
            for x in (edge.inputs, edge.implicit):
                if isinstance(x, ast.Call) and isinstance(edge.variables, ast.Name) and any(isinstance(a, ast.Name) and a.id == edge.variables.id for a in x.args):
                    callee = model.resolve_call(fi, x)
                    if callee is not None:
                        pname = callee.params[[norm(a) for a in x.args].index(edge.variables.id)]
                        got = set()
                        shape_ok = False
                        for st in walk_body(callee):
                            if isinstance(st, ast.Return) and st.value is not None:
                                v = st.value
                                if isinstance(v, ast.ListComp) and isinstance(v.elt, ast.Subscript) and norm(v.elt.value) == pname and isinstance(v.generators[0].iter, (ast.Tuple, ast.List)):
                                    got |= {e.value for e in v.generators[0].iter.elts if isinstance(e, ast.Constant)}
                                    shape_ok = True
                                elif isinstance(v, (ast.List, ast.Tuple)):
                                    for e in v.elts:
                                        if isinstance(e, ast.Subscript) and norm(e.value) == pname and isinstance(e.slice, ast.Constant):
                                            got.add(e.slice.value)
                                    shape_ok = True
                                elif isinstance(v, ast.Call) and norm(v.func) in ("list", "tuple", "sorted") and norm(v.args[0]) == f"{pname}.values()":
                                    got |= set(keys)
                                    shape_ok = True
                        if shape_ok:
                            helper_keys = got
            # the same shapes written in place: implicit=[variables[k] for k in ("a", "b")] / [variables["a"], variables["b"]]
            if helper_keys is None and isinstance(edge.variables, ast.Name):
                for x in (edge.inputs, edge.implicit):
                    vn = edge.variables.id
                    if isinstance(x, ast.ListComp) and isinstance(x.elt, ast.Subscript) and norm(x.elt.value) == vn and len(x.generators) == 1 and not x.generators[0].ifs \
                            and isinstance(x.generators[0].iter, (ast.Tuple, ast.List)) and norm(x.elt.slice) == norm(x.generators[0].target):
                        helper_keys = (helper_keys or set()) | {e.value for e in x.generators[0].iter.elts if isinstance(e, ast.Constant)}
                    elif isinstance(x, (ast.List, ast.Tuple)) and x.elts and all(isinstance(e, ast.Subscript) and norm(e.value) == vn and isinstance(e.slice, ast.Constant) for e in x.elts):
                        helper_keys = (helper_keys or set()) | {e.slice.value for e in x.elts}
            for k, val in keys.items():
                exc = R09B_EXCEPTIONS.get((f"{modname}.{fi.qualname}", k))
                is_path = k.endswith(("_file", "_font", "_dir")) or (val is not None and any(
                    t in norm(val) for t in ("rel_build(", "Path(", "_dest(", "_file(")))
                if not is_path:
                    rr.ok(f"{fi.qualname} -> {rname}: ${k} is not a path")
                    continue
                if partial_all and k not in excluded_keys:
                    rr.ok(f"{fi.qualname} -> {rname}: ${k} declared (all variable values but {sorted(excluded_keys)} are implicit inputs)")
                    continue
                if all_declared or (helper_keys is not None and k in helper_keys):
                    rr.ok(f"{fi.qualname} -> {rname}: ${k} declared (all variable values are implicit inputs)" if all_declared else
                          f"{fi.qualname} -> {rname}: ${k} declared (listed by the implicit-inputs helper)")
                    continue
                declared = False
                if val is not None:
                    vt = norm(val)
                    if vt in declared_txt:
                        declared = True
                    else:
                        # same variable name appears among the declared inputs
                        vn = names_in(val)
                        for x in (edge.inputs, edge.implicit):
                            if x is not None:
                                names, exprs = expr_closure(cfg, at, x)
                                if any(norm(e2) == vt for e2 in exprs) or (isinstance(val, ast.Name) and val.id in names):
                                    declared = True
                if declared:
                    rr.ok(f"{fi.qualname} -> {rname}: ${k} = {short(val, 50)} is a declared input")
                elif exc:
                    rr.exceptions_used.append(f"{modname}.{fi.qualname} ${k}: {exc}")
                    rr.ok(f"{fi.qualname} -> {rname}: ${k} not declared (reviewed exception)")
                else:
                    rr.bad(fi, edge.call, f"${k} = {short(val, 60)} names a file the step reads, but the edge does not list it as an input: "
                           f"a change to that file does not rebuild {short(edge.outputs, 40)}", construct=f"{fi.qualname} -> {rname}: ${k} undeclared input")
    # restat / generator would let an unchanged proxy (glyphmap, fea) hide a changed source
    for hfi in model.mod("ninja").functions.values():
        for c in calls_in(hfi):
            kws = [k.arg for k in c.keywords if k.arg in ("restat", "generator")]
            if kws:
                rr.bad(hfi, c, f"ninja helper passes {kws} to every rule it writes: unchanged proxies would hide changed sources",
                       construct=f"{hfi.qualname}: {kws}")
    for r in rules:
        bad = [k for k in r.extra if k in ("restat", "generator")]
        nwkw = [k.arg for k in r.call.keywords if k.arg in ("restat", "generator")]
        if bad or nwkw:
            rr.bad(r.fi, r.call, f"rule {r.name} sets {bad or nwkw}: an output whose content did not change would stop dependants from "
                   f"rebuilding although the files it lists did change", construct=f"rule {r.name}: {bad or nwkw}")
        else:
            rr.ok(f"rule {r.name or '<glyphmap generator>'}: no restat/generator")


@RULES.rule("C09", "R09b", "path-valued variables are declared inputs; no restat/generator rules (nanoemoji.py)", floor=15)
def r09b(model: Model, rr: RuleResult):
    check_declared_inputs(model, "nanoemoji", rr)
    # the proxies: glyphmap edge lists the per-source intermediates; fea edge lists the glyphmap; font edge lists both
    fi = model.func("nanoemoji", "write_glyphmap_build")
    b = find_calls(fi, "build")
    if len(b) != 1:
        raise AnalysisError("write_glyphmap_build: expected one nw.build")
    inputs = b[0].args[2] if len(b[0].args) > 2 else kwarg(b[0], "inputs")
    if inputs is not None and callee_tail(inputs) == "_input_files" if isinstance(inputs, ast.Call) else False:
        rr.ok("glyphmap edge inputs = _input_files(font_config, master)")
    else:
        rr.bad_shape(fi, b[0], "glyphmap edge no longer depends on the per-source intermediates (_input_files)", construct=short(b[0]))
    # _input_files covers every format family with the final intermediate of its chain
    ifi = model.func("nanoemoji", "_input_files")
    conds = {}
    for st in walk_body(ifi):
        if isinstance(st, ast.If):
            conds[norm(st.test)] = st
    for need, fn in (("font_config.has_picosvgs", "picosvg_dest"), ("font_config.has_untouchedsvgs", "rel_build"), ("font_config.has_bitmaps", None)):
        st = conds.get(need)
        if st is None:
            rr.bad(ifi, ifi.node, f"_input_files has no branch for {need}", construct=f"_input_files: {need}")
            continue
        # what the branch adds to the result: xs.extend(E), xs += E, xs.append(E) in a loop
        ext = [c.args[0] for c in calls_in(st) if callee_tail(c) in ("extend", "append") and c.args] + \
              [a_.value for a_ in ast.walk(st) if isinstance(a_, ast.AugAssign) and isinstance(a_.op, ast.Add)]
        empty_body = all(isinstance(b_, ast.Pass) for b_ in st.body)
        if not ext and empty_body:
            rr.bad(ifi, st, f"_input_files: branch {need} adds nothing", construct=short(st, 80))
        elif not ext:
            rr.bad_shape(ifi, st, f"_input_files: branch {need} adds nothing", construct=short(st, 80))
        elif fn and fn not in norm(ext[0]):
            rr.bad(ifi, st, f"_input_files: branch {need} does not list {fn}(...) of each source", construct=short(ext[0]))
        else:
            rr.ok(f"_input_files: {need} -> {short(ext[0], 70)}")


@RULES.rule("C09", "R09c", "configs and build.ninja are rewritten on every run before ninja", floor=3)
def r09c(model: Model, rr: RuleResult):
    fi = model.func("nanoemoji", "_run")
    cfg = cfg_of(fi)
    mrn = find_calls(fi, "maybe_run_ninja")
    if len(mrn) != 1:
        raise AnalysisError("_run: expected one maybe_run_ninja call")
    mn = cfg.node_for(mrn[0])
    wc = find_calls(fi, "_write_config_for_build")
    if len(wc) != 1:
        raise AnalysisError("_run: expected one _write_config_for_build call")
    wn = cfg.node_for(wc[0])
    facts = [(norm(e), pol) for e, pol in guard_facts(cfg, wn, skip_abort_guards=True)]
    loop_ok = False
    for st in walk_body(fi):
        if isinstance(st, ast.For) and any(c is wc[0] for c in calls_in(st)) and norm(st.iter) == "font_configs":
            loop_ok = cfg.dominates(cfg.node_for(st), mn)
    if loop_ok and not facts:
        rr.ok("_write_config_for_build runs for every font_config, unconditionally, before maybe_run_ninja")
    else:
        rr.bad(fi, wc[0], f"resolved configs are not rewritten on every run for every configuration (conditions {facts})", construct=short(wc[0]))
    # build.ninja opened for writing under gen_ninja() only
    opens = [w for w in walk_body(fi) if isinstance(w, ast.With) and any("open(" in norm(i.context_expr) and "build_file" in norm(i.context_expr)
                                                                         for i in w.items)]
    if len(opens) != 1:
        raise AnalysisError("_run: 'with open(build_file, \"w\")' not found")
    on = cfg.node_for(opens[0])
    f2 = [(norm(e), pol) for e, pol in guard_facts(cfg, on, skip_abort_guards=True)]
    mode = opens[0].items[0].context_expr
    # open(path, "w") or path.open("w") (mode positional or keyword)
    marg = None
    if isinstance(mode, ast.Call):
        marg = kwarg(mode, "mode")
        if marg is None:
            pos = 0 if isinstance(mode.func, ast.Attribute) and mode.func.attr == "open" and "build_file" in norm(mode.func.value) else 1
            marg = mode.args[pos] if len(mode.args) > pos else None
    mode_ok = marg is not None and norm(marg).strip("'\"") == "w"
    if f2 == [("gen_ninja()", True)] and mode_ok:
        rr.ok("build.ninja is truncated and regenerated whenever gen_ninja() (no caching of a previous graph)")
    else:
        rr.bad(fi, opens[0], f"build.ninja generation is conditional on {f2} / mode {short(mode)}: a stale graph may be reused", construct=short(opens[0].items[0]))
    if cfg.dominates(wn, mn) or loop_ok:
        rr.ok("maybe_run_ninja is the last step, after configs and graph are written")
    # _write_config_for_build writes through config.write
    wfi = model.func("nanoemoji", "_write_config_for_build")
    ww = [c for c in calls_in(wfi) if norm(c.func) == "config.write"]
    if len(ww) == 1:
        wcfg = cfg_of(wfi)
        # the file written is the very file the build edges consume (not a sibling that is swapped in conditionally)
        tgt = ww[0].args[0] if ww[0].args else None
        tdefs = wcfg.reaching(wcfg.node_for(ww[0]), tgt.id) if isinstance(tgt, ast.Name) else []
        tval = tdefs[0].value if len(tdefs) == 1 else (tgt if not isinstance(tgt, ast.Name) else None)
        def _is_cfg_path(e):
            if isinstance(e, ast.Call) and norm(e.func) == "_config_file" and len(e.args) == 1:
                return True
            if isinstance(e, ast.Name):
                ds = wcfg.all_defs(e.id)
                return len(ds) == 1 and ds[0].value is not None and _is_cfg_path(ds[0].value)
            return False
        # write-to-temporary-then-rename is fine when the rename happens on every path
        moved = False
        for c in calls_in(wfi):
            a = None
            if callee_tail(c) in ("replace", "rename") and isinstance(c.func, ast.Attribute) and isinstance(tgt, ast.Name) and norm(c.func.value) == tgt.id and len(c.args) == 1:
                a = c.args[0]
            elif norm(c.func) in ("os.replace", "os.rename", "shutil.move") and len(c.args) == 2 and isinstance(tgt, ast.Name) and norm(c.args[0]) == tgt.id:
                a = c.args[1]
            if a is not None and _is_cfg_path(a) and wcfg.postdominates(wcfg.node_for(c), wcfg.entry) and not guard_facts(wcfg, wcfg.node_for(c), skip_abort_guards=True):
                moved = True
        if _is_cfg_path(tval if tval is not None else tgt):
            rr.ok("config.write targets _config_file(font_config), the path every font edge lists as its config")
        elif moved:
            rr.ok("config.write targets a temporary file that is renamed onto _config_file(font_config) on every path")
        else:
            rr.bad(wfi, ww[0], f"config.write targets {short(tval) if tval is not None else short(tgt)}, not _config_file(font_config): whether the edges' config is replaced "
                   f"then depends on a later, conditional step", construct="_write_config_for_build: config.write target is not _config_file(font_config)")
        if wcfg.postdominates(wcfg.node_for(ww[0]), wcfg.entry) and not guard_facts(wcfg, wcfg.node_for(ww[0]), skip_abort_guards=True):
            rr.ok("_write_config_for_build writes the resolved config on every path (no 'already up to date' shortcut)")
        else:
            rr.bad(wfi, ww[0], "_write_config_for_build can return without writing the resolved config: a stale <output>.toml from an earlier invocation is kept, so "
                   "options given by flag (which such a comparison re-applies to the old file) never reach the worker", construct="_write_config_for_build: path that skips config.write")
    else:
        rr.bad(wfi, wfi.node, "_write_config_for_build no longer writes the config", construct="_write_config_for_build: no config.write")


# exceptions that signal "this representation does not fit / this attribute or key is not there", not a failed build step
CONTROL_FLOW_EXCEPTIONS = {"OverflowError", "AttributeError", "KeyError", "IndexError", "StopIteration", "LookupError", "ZeroDivisionError"}


def _handler_provides_alternative(h: ast.ExceptHandler) -> bool:
    """The handler body only binds names / returns a value (no pass, no bare logging, no continue that skips work)."""
    if not h.body:
        return False
    for st in h.body:
        if isinstance(st, (ast.Assign, ast.AnnAssign, ast.AugAssign)):
            continue
        if isinstance(st, ast.Return) and st.value is not None:
            continue
        return False
    return True


LOOKUP_CALLS = {"index", "int", "float", "next", "get", "pop", "remove", "getattr"}
LOOKUP_EXCEPTIONS = CONTROL_FLOW_EXCEPTIONS | {"ValueError"}


def _eafp_lookup(t: ast.Try, h: ast.ExceptHandler) -> bool:
    """`try: <one simple statement whose only call is a container / conversion look-up>  except <lookup error>: <bind or return the fallback>`:
    the exception is the look-up's "not there" answer, no build step runs inside the try, nothing a step reports can be hidden."""
    if len(t.body) != 1 or t.orelse or t.finalbody or not isinstance(t.body[0], (ast.Assign, ast.Return, ast.Expr)):
        return False
    calls = [c for c in ast.walk(t.body[0]) if isinstance(c, ast.Call)]
    if len(calls) > 1 or any(callee_tail(c) not in LOOKUP_CALLS for c in calls):
        return False
    if any(isinstance(n, (ast.Yield, ast.YieldFrom, ast.Await)) for n in ast.walk(t.body[0])):
        return False
    binds = False
    for st in h.body:
        if isinstance(st, (ast.Assign, ast.AnnAssign, ast.AugAssign)) or (isinstance(st, ast.Return) and st.value is not None):
            binds = True
        elif isinstance(st, ast.Expr) and isinstance(st.value, ast.Call) and isinstance(st.value.func, ast.Attribute) \
                and st.value.func.attr in ("append", "add", "setdefault", "extend", "insert") and isinstance(st.value.func.value, ast.Name):
            continue
        else:
            return False
    return binds


# reviewed handlers that deliberately recover: (function fq, exception type text) -> reason
HANDLER_EXCEPTIONS = {
    ("color_glyph._intersect", "pathops.PathOpsError"): "conservative: assumes the paths intersect (decomposes rather than risking winding errors)",
    ("write_font._migrate_paths_to_ufo_glyphs._update_paint_glyph", "OverflowError"): "falls back to wrapping the gradient in a PaintTransform with the same transform (R06b)",
    ("color_glyph._mutating_traverse", "TypeError"): "typing generics fail issubclass(): treated as 'not a Paint field'; PaintColrLayers handled explicitly right after",
    ("glyph._isascii", "UnicodeEncodeError"): "feature shim for python < 3.7: returns False",
    ("glyph.glyph_name", "TypeError"): "scalar codepoint wrapped into a list",
    ("parts._is_iterable_of", "TypeError"): "predicate: not iterable -> False",
    ("parts._is_iterable_of", "StopIteration"): "predicate: empty iterable -> True",
    ("glyph", "AttributeError"): "module-level feature shim for str.isascii",
    ("config", "ImportError"): "module-level import shim for importlib.resources",
    ("__init__", "ImportError"): "package version shim (no _version module in a source checkout)",
}


@RULES.rule("C09", "R09d", "failures propagate: ninja runs with check=True, worker mains do not swallow errors", floor=12)
def r09d(model: Model, rr: RuleResult):
    r09d_impl(model, rr)


def r09d_impl(model: Model, rr: RuleResult):
    fi = model.func("ninja", "maybe_run_ninja")
    runs = [c for c in calls_in(fi) if norm(c.func) in ("subprocess.run", "subprocess.check_call", "subprocess.call")]
    if not runs:
        raise AnalysisError("maybe_run_ninja: no subprocess call")
    cfg0 = cfg_of(fi)
    tools = []
    for r in runs:
        _, ex = expr_closure(cfg0, cfg0.node_for(r), r.args[0]) if r.args else (set(), [])
        consts = {n.value for e in ex for n in ast.walk(e) if isinstance(n, ast.Constant) and isinstance(n.value, str)}
        if consts & {"-t", "restat", "cleandead", "recompact", "clean"}:
            tools.append(r)
    for r in tools:
        rr.bad(fi, r, f"{short(r, 70)}: the driver runs a ninja tool that rewrites ninja's own bookkeeping (`-t restat` re-stamps every recorded output with its current "
               f"mtime, so the half-written leftover of a killed step is taken for a finished one) - after an interruption the next run no longer converges to the clean build",
               construct=f"maybe_run_ninja: ninja tool invocation {short(r, 50)}")
    builds = [r for r in runs if r not in tools]
    if not builds:
        raise AnalysisError("maybe_run_ninja: no ninja build invocation")
    for extra in builds[1:] if len(builds) > 1 else []:
        pass
    unchecked = [r for r in builds if not (norm(r.func) == "subprocess.check_call" or (norm(r.func) == "subprocess.run" and kwarg(r, "check") is not None and norm(kwarg(r, "check")) == "True"))]
    if len(builds) > 1:
        for r in unchecked:
            rr.bad(fi, r, f"one of the ways ninja is run ({short(r, 70)}) does not check its exit status: on that path a failed step leaves the driver exiting 0",
                   construct=f"maybe_run_ninja: unchecked {short(r, 50)}")
        if unchecked:
            return
    c = builds[0]
    ok = norm(c.func) == "subprocess.check_call" or (norm(c.func) == "subprocess.run" and kwarg(c, "check") is not None and norm(kwarg(c, "check")) == "True")
    if ok:
        rr.ok("maybe_run_ninja: subprocess.run(..., check=True)")
    else:
        rr.bad(fi, c, "ninja is run without check=True: a failed build step leaves the driver exiting 0", construct=short(c))
    # the ninja call happens whenever FLAGS.exec_ninja
    cfg = cfg_of(fi)
    f = [(norm(e), pol) for e, pol in guard_facts(cfg, cfg.node_for(c))]
    if f == [("FLAGS.exec_ninja", True)]:
        rr.ok("ninja runs whenever --exec_ninja")
    else:
        rr.bad(fi, c, f"ninja invocation is conditional on {f}", construct="maybe_run_ninja conditions")
    # pngquant wrapper returns the child's status except for 98/99
    pfi = model.func("pngquant", "main")
    pcfg = cfg_of(pfi)
    rets = [st for st in walk_body(pfi) if isinstance(st, ast.Return)]
    good = False
    if len(rets) == 1 and isinstance(rets[0].value, ast.Name):
        defs = pcfg.reaching(pcfg.node_for(rets[0]), rets[0].value.id)
        srcs = [norm(d.value) for d in defs]
        zero = [d for d in defs if norm(d.value) == "0"]
        rc = [d for d in defs if d.value is not None and "returncode" in norm(d.value)]
        if rc and len(zero) <= 1 and len(defs) == len(rc) + len(zero):
            good = True
            for d in zero:
                facts = guard_facts(pcfg, d.node)
                if not any(pol and isinstance(e, ast.Compare) and isinstance(e.ops[0], ast.In) and norm(e.comparators[0]) in ("(98, 99)", "(99, 98)", "{98, 99}") for e, pol in facts):
                    good = False
    if good:
        rr.ok("pngquant.main returns the child's exit status; only codes 98/99 become 0 (with the input copied)")
    else:
        rr.bad(pfi, rets[0] if rets else pfi.node, "pngquant.main does not return the child's exit status (other than the documented 98/99)", construct="pngquant.main return")
    main_guard = [st for st in model.mod("pngquant").tree.body if isinstance(st, ast.If) and "__main__" in norm(st.test)]
    if main_guard and any(callee_tail(c2) == "run" and norm(c2.args[0]) == "main" for c2 in calls_in(main_guard[0])):
        rr.ok("pngquant: app.run(main) turns the return value into the exit status")
    # every except handler either re-raises or is a reviewed recovery
    for mod in model.modules.values():
        for node in ast.walk(mod.tree):
            if isinstance(node, ast.Try):
                # enclosing function
                owner = None
                for fi2 in mod.functions.values():
                    if any(n is node for n in ast.walk(fi2.node)):
                        if owner is None or len(fi2.qualname) > len(owner.qualname):
                            owner = fi2
                fq = owner.fq if owner else mod.name
                for h in node.handlers:
                    ty = norm(h.type) if h.type is not None else "<bare>"
                    reraises = any(isinstance(n, ast.Raise) for n in ast.walk(h))
                    if reraises:
                        rr.ok(f"{fq}: except {ty} re-raises")
                        continue
                    types = [ty] if not isinstance(h.type, ast.Tuple) else [norm(e) for e in h.type.elts]
                    if all((fq, t) in HANDLER_EXCEPTIONS for t in types):
                        for t in types:
                            rr.exceptions_used.append(f"{fq} except {t}: {HANDLER_EXCEPTIONS[(fq, t)]}")
                        rr.ok(f"{fq}: except {ty} recovers (reviewed)")
                    elif all(t.split(".")[-1] in LOOKUP_EXCEPTIONS for t in types) and _eafp_lookup(node, h):
                        rr.ok(f"{fq}: except {ty} is the 'not found' answer of a look-up ({short(node.body[0], 50)})")
                    elif all(t.split(".")[-1] in CONTROL_FLOW_EXCEPTIONS for t in types) and _handler_provides_alternative(h):
                        # an arithmetic / lookup exception used as a test, with a fallback that yields a value for the same result: no failure is hidden
                        rr.ok(f"{fq}: except {ty} selects an alternative computation ({short(h.body[0], 50)})")
                    else:
                        rr.bad(owner or mod, h, f"except {ty} swallows the error without re-raising: a failing step would look successful",
                               construct=f"{fq}: except {ty}: {short(h.body[0], 60)}")
    # no sys.exit(0) / os._exit in workers
    for fi2 in model.all_functions():
        for c2 in calls_in(fi2):
            if norm(c2.func) in ("sys.exit", "exit", "os._exit"):
                a0 = c2.args[0] if c2.args else None
                if a0 is None or (isinstance(a0, ast.Constant) and a0.value in (0, None)):
                    rr.bad(fi2, c2, "explicit successful exit inside a build step", construct=short(c2))
                else:
                    rr.ok(f"{fi2.fq}: {short(c2, 60)} exits non-zero")


FONT_WRITERS = [
    ("write_font", "main", "_write"), ("glue_together", "main", "save"), ("keep_glyph_names", "main", "save"),
    ("strip_glyph_names", "main", "save"), ("copy", "main", "copyfile"), ("write_variable_font", "main", "save"),
]


def _only_logging_after(fi: FuncInfo, call: ast.Call) -> Optional[str]:
    cfg = cfg_of(fi)
    start = cfg.node_for(call)
    seen = set()
    todo = [t for t, lab in cfg.nodes[start].succs if lab != "exc"]
    while todo:
        n = todo.pop()
        if n in seen:
            continue
        seen.add(n)
        node = cfg.nodes[n]
        if node.kind in ("exit", "raise"):
            continue
        a = node.ast
        if node.kind == "stmt" and isinstance(a, ast.Expr) and isinstance(a.value, ast.Call) and norm(a.value.func).startswith("logging."):
            pass
        elif node.kind == "stmt" and isinstance(a, (ast.Pass,)):
            pass
        elif isinstance(a, ast.Return) and (a.value is None or isinstance(a.value, (ast.Constant, ast.Name))):
            pass  # handing back nothing / a plain value cannot fail
        else:
            return node.text()
        todo += [t for t, lab in node.succs if lab != "exc"]
    return None


@RULES.rule("C09", "R09e", "every font-writing main writes the font last (nothing that can fail follows)", floor=6)
def r09e(model: Model, rr: RuleResult):
    r09e_impl(model, rr)


def r09e_impl(model: Model, rr: RuleResult):
    for modname, fn, tail in FONT_WRITERS:
        fi = model.func(modname, fn)
        cs = find_calls(fi, tail)
        if len(cs) != 1:
            raise AnalysisError(f"{modname}.{fn}: expected exactly one {tail}(...) call, found {len(cs)}")
        after = _only_logging_after(fi, cs[0])
        if after is None:
            rr.ok(f"{modname}.{fn}: {short(cs[0], 60)} is followed only by logging")
        else:
            rr.bad(fi, cs[0], f"{modname}.{fn} does work after writing the font ({after}): a failure there leaves a fresh output font behind a non-zero exit",
                   construct=f"{modname}.{fn}: after {short(cs[0], 50)} comes {after}")
    wfi = model.func("write_font", "_write")
    for c in calls_in(wfi):
        if callee_tail(c) == "save":
            after = _only_logging_after(wfi, c)
            if after is None:
                rr.ok(f"write_font._write: {short(c, 50)} is the last action")
            else:
                rr.bad_shape(wfi, c, f"_write does work after saving ({after})", construct=f"_write: after {short(c, 40)} comes {after}")


FS_PROBES = {"exists", "is_file", "stat", "lstat", "getmtime", "getsize", "getctime", "samefile", "isfile", "cmp", "lexists"}
FS_PROBE_OK = {("nanoemoji", "_chrome_command"): "looks for the Chrome binary of the QA render-diff tooling"}


@RULES.rule("C09", "R09f", "no step decides what to (re)write from files an earlier invocation left behind", floor=20)
def r09f(model: Model, rr: RuleResult):
    """A condition that probes the file system (exists / is_file / stat / mtime / size / cmp) and steers control flow makes the result depend on
    the build directory's history: ninja already decides what is out of date, from declared inputs. Assertions about *inputs* are fine."""
    n = 0
    for mname, mod in sorted(model.modules.items()):
        for fi in mod.functions.values():
            if "." in fi.qualname and fi.qualname.rsplit(".", 1)[0] in mod.functions:
                continue  # nested function: scanned with its parent
            if (mname, fi.qualname) in FS_PROBE_OK or (mname, fi.qualname.split(".")[0]) in FS_PROBE_OK:
                continue
            n += 1
            tests = []
            for st in walk_body(fi, nested=True):
                if isinstance(st, (ast.If, ast.While, ast.IfExp)):
                    tests.append((st, st.test))
                elif isinstance(st, ast.comprehension):
                    tests += [(st, c) for c in st.ifs]
            cfg = None
            for st, t in tests:
                probes = [c for c in ast.walk(t) if isinstance(c, ast.Call) and callee_tail(c) in FS_PROBES]
                # a name in the test that was bound to a probe result
                if not probes and isinstance(st, (ast.If, ast.While)):
                    try:
                        cfg = cfg or cfg_of(fi)
                        at = cfg.node_for(st)
                        _, exprs = expr_closure(cfg, at, t)
                        probes = [c for e in exprs for c in ast.walk(e) if isinstance(c, ast.Call) and callee_tail(c) in FS_PROBES]
                    except Exception:
                        probes = []
                if probes:
                    rr.bad(fi, st, f"`{short(t, 90)}` probes the file system ({short(probes[0])}) and steers what this step does: the outcome depends on what an earlier "
                           f"invocation left in the build directory (a stale file of the same name, size or content is kept), so a re-run need not converge to the clean build",
                           construct=f"{fi.qualname}: control flow on {short(probes[0])}")
    per_mod = {}
    for mname, mod in sorted(model.modules.items()):
        per_mod[mname] = sum(1 for q in mod.functions if not ("." in q and q.rsplit(".", 1)[0] in mod.functions))
    for mname, k in per_mod.items():
        if k:
            rr.ok(f"{mname}: {k} functions scanned, no control flow on exists/is_file/stat/mtime/size/cmp (assertions on inputs aside)")
    for k, why in FS_PROBE_OK.items():
        rr.ok(f"reviewed exception {k[0]}.{k[1]}: {why}")
    if n < 200:
        raise AnalysisError(f"R09f: only {n} functions scanned")


BACKDATING = {"shutil.copy2", "shutil.copystat", "os.utime", "shutil.copytree"}


@RULES.rule("C09", "R09g", "no step back-dates what it writes (outputs get a fresh mtime: ninja compares it with the inputs')", floor=20)
def r09g(model: Model, rr: RuleResult):
    n = 0
    for mname, mod in sorted(model.modules.items()):
        hits = [c for c in ast.walk(mod.tree) if isinstance(c, ast.Call) and (norm(c.func) in BACKDATING or (callee_tail(c) in ("copy2", "copystat", "utime")))]
        for c in hits:
            owner = next((fi for fi in mod.functions.values() if any(x is c for x in ast.walk(fi.node))), None)
            rr.bad(owner or mod, c, f"{short(c, 60)} gives the output the *source's* modification time: after such a step the output can look older than a file that was "
                   f"built from it earlier, ninja then keeps that stale descendant, and a later invocation does not converge to the clean build", construct=f"{mname}: {short(c.func)} preserves mtime")
        n += 1
        if not hits:
            rr.ok(f"{mname}: no copy2 / copystat / utime")
    if n < 20:
        raise AnalysisError(f"R09g: only {n} modules scanned")
