"""C10 — what the driver resolves is exactly what the build steps see (E8 schema agreement).
R10a is shared with C20 (R20a)."""
from __future__ import annotations

import ast
from typing import Dict, List, Optional, Set, Tuple

from ..cfg import cfg_of
from ..dataflow import derives_from, expr_closure
from ..model import (AnalysisError, AnchorMissing, Model, arg, calls_in, callee_tail, find_calls, kwarg, norm,
                     short, walk_body, walk_no_nested)
from ..report import RULES, RuleResult

DERIVED_FIELDS = {"axes", "masters", "source_names"}
NESTED_KEYS = {"axis", "master"}


# ---------------------------------------------------------------------------------------------
def config_flags(model: Model) -> Dict[str, ast.Call]:
    """flags.DEFINE_*(name, default, ...) calls at module level of config.py."""
    mod = model.mod("config")
    out = {}
    for st in mod.tree.body:
        if isinstance(st, ast.Expr) and isinstance(st.value, ast.Call):
            c = st.value
            if norm(c.func).startswith("flags.DEFINE_") and c.args and isinstance(c.args[0], ast.Constant):
                out[c.args[0].value] = c
    return out


def write_dict(model: Model):
    """The dict literal config.write serialises, and the name of its config parameter."""
    fi = model.func("config", "write")
    cfg = cfg_of(fi)
    dumps = [c for c in calls_in(fi) if callee_tail(c) in ("dumps", "dump")]
    if len(dumps) != 1:
        raise AnalysisError(f"config.write: expected one toml.dumps call, found {len(dumps)}")
    a = dumps[0].args[0]
    d = a
    at = cfg.node_for(dumps[0])
    filters = []
    steps = 0
    while isinstance(d, ast.Name) and steps < 5:
        steps += 1
        defs = cfg.reaching(at, d.id)
        if len(defs) != 1 or defs[0].value is None:
            raise AnalysisError("config.write: serialised value is not a single dict literal")
        v = defs[0].value
        at = defs[0].node
        # `{k: v for k, v in X.items() if cond}`: a filter over the literal
        if isinstance(v, ast.DictComp) and len(v.generators) == 1 and isinstance(v.generators[0].iter, ast.Call) \
                and callee_tail(v.generators[0].iter) == "items" and isinstance(v.generators[0].iter.func.value, ast.Name):
            g = v.generators[0]
            tv = g.target.elts if isinstance(g.target, ast.Tuple) and len(g.target.elts) == 2 else None
            if tv is None or norm(v.key) != norm(tv[0]) or norm(v.value) != norm(tv[1]):
                raise AnalysisError(f"config.write: dict comprehension {short(v)} rewrites keys or values (idiom not enumerated)")
            for c in g.ifs:
                filters.append((c, norm(tv[1])))
            d = g.iter.func.value
            continue
        d = v
    if not isinstance(d, ast.Dict):
        raise AnalysisError("config.write: serialised value is not a single dict literal")
    params = fi.params
    if len(params) < 2:
        raise AnalysisError("config.write: expected (dest, config) parameters")
    write_dict.filters = filters
    return fi, d, params[1]


def popped(model: Model):
    """In config.load: {name: (call, assigned variable or None)} for _pop_flag(config, 'name')."""
    fi = model.func("config", "load")
    out = {}
    for st in walk_body(fi):
        if isinstance(st, ast.Assign) and len(st.targets) == 1 and isinstance(st.targets[0], ast.Name):
            for c in calls_in(st.value):
                if callee_tail(c) == "_pop_flag" and len(c.args) >= 2:
                    if not isinstance(c.args[1], ast.Constant):
                        raise AnalysisError(f"config.load: _pop_flag with non-constant name {short(c)}")
                    out.setdefault(c.args[1].value, []).append((c, st.targets[0].id, st))
    for c in find_calls(fi, "_pop_flag"):
        nm = c.args[1].value if len(c.args) >= 2 and isinstance(c.args[1], ast.Constant) else None
        if nm is not None and nm not in out:
            out.setdefault(nm, []).append((c, None, None))
    return fi, out


def _pop_flag_semantics(model: Model, rr: RuleResult):
    """Abstractly evaluate _pop_flag over file value x flag value in {unset(None), set-but-falsy, set-and-truthy}:
    the result must be the flag when set, else the file value when set, else the default."""
    fi = model.func("config", "_pop_flag")
    if len(fi.params) != 2:
        raise AnalysisError("_pop_flag: expected (config, name)")

    def classify(e):
        if isinstance(e, ast.Call) and callee_tail(e) == "pop" and len(e.args) == 2 and norm(e.args[1]) == "None":
            return "C"
        if isinstance(e, ast.Call) and callee_tail(e) == "get" and len(e.args) >= 1 and (len(e.args) == 1 or norm(e.args[1]) == "None") and norm(e.func.value) == fi.params[0]:
            return "C"
        if isinstance(e, ast.Call) and norm(e.func) == "getattr" and norm(e.args[0]) == "FLAGS":
            return "F"
        if isinstance(e, ast.Call) and norm(e.func) == "getattr" and "DEFAULT" in norm(e.args[0]).upper():
            return "D"
        return None

    class Unknown(Exception):
        pass

    def is_none(v, world):
        if v in ("C", "F"):
            return world[v] == "none"
        if v == "D":
            return False
        if isinstance(v, tuple) and v[0] == "const":
            return v[1] is None
        raise Unknown(str(v))

    def truthy(v, world):
        if v in ("C", "F"):
            return world[v] == "truthy"
        if v == "D":
            return True  # worst case for the property: a truthy default can mask a falsy file value
        if isinstance(v, tuple) and v[0] == "bool":
            return v[1]
        if isinstance(v, tuple) and v[0] == "const":
            return bool(v[1])
        raise Unknown(str(v))

    def ev(e, env, world):
        if isinstance(e, ast.Name):
            if e.id in env:
                return env[e.id]
            raise Unknown(e.id)
        k = classify(e)
        if k:
            return k
        if isinstance(e, ast.Call) and callee_tail(e) in ("pop", "get") and len(e.args) == 2 and isinstance(e.func, ast.Attribute) and norm(e.func.value) == fi.params[0]:
            # pop / get with an explicit fallback: the file value when the key is present, else the fallback
            return "C" if world["C"] != "none" else ev(e.args[1], env, world)
        if isinstance(e, ast.Constant):
            return ("const", e.value)
        if isinstance(e, ast.Compare) and len(e.ops) == 1 and isinstance(e.ops[0], (ast.Is, ast.IsNot)) and norm(e.comparators[0]) == "None":
            r = is_none(ev(e.left, env, world), world)
            return ("bool", r if isinstance(e.ops[0], ast.Is) else not r)
        if isinstance(e, ast.BoolOp):
            vals = e.values
            cur = ev(vals[0], env, world)
            for nxt in vals[1:]:
                t = truthy(cur, world)
                if isinstance(e.op, ast.Or):
                    if t:
                        return cur
                    cur = ev(nxt, env, world)
                else:
                    if not t:
                        return cur
                    cur = ev(nxt, env, world)
            return cur
        if isinstance(e, ast.UnaryOp) and isinstance(e.op, ast.Not):
            return ("bool", not truthy(ev(e.operand, env, world), world))
        if isinstance(e, ast.Call) and norm(e.func) == "isinstance" and len(e.args) == 2:
            v_ = ev(e.args[0], env, world)
            if v_ in ("C", "F"):
                return ("bool", world[v_] != "none" and world.get("isinstance", True))  # a set value may be of the tested type (the other outcome is explored separately)
            return ("bool", False)
        if isinstance(e, ast.Call) and isinstance(e.func, ast.Attribute) and e.func.attr in ("strip", "lstrip", "rstrip") and not e.args:
            return ev(e.func.value, env, world)  # '' stays falsy; a value that is only blanks is the one case where truthiness changes, and it is falsy afterwards
        if isinstance(e, ast.IfExp):
            return ev(e.body if truthy(ev(e.test, env, world), world) else e.orelse, env, world)
        raise Unknown(norm(e))

    def run(stmts, env, world):
        for st in stmts:
            if isinstance(st, ast.Assign) and len(st.targets) == 1 and isinstance(st.targets[0], ast.Name):
                env[st.targets[0].id] = ev(st.value, env, world)
            elif isinstance(st, ast.If):
                r = run(st.body if truthy(ev(st.test, env, world), world) else st.orelse, env, world)
                if r is not None:
                    return r
            elif isinstance(st, ast.Return):
                return ev(st.value, env, world)
            elif isinstance(st, ast.Expr) and isinstance(st.value, ast.Constant):
                continue
            else:
                raise Unknown(norm(st))
        return None

    names = {"C": "file value", "F": "flag value", "D": "default"}
    for c in ("none", "falsy", "truthy"):
        for f in ("none", "falsy", "truthy"):
            want = "F" if f != "none" else ("C" if c != "none" else "D")
            try:
                got = run(fi.body, {}, {"C": c, "F": f})
            except Unknown as u:
                raise AnalysisError(f"_pop_flag: cannot evaluate {u} abstractly (idiom outside the enumerated ones)")
            label = f"_pop_flag(file {c}, flag {f}) -> {names.get(got, got)}"
            if got != want:
                rr.bad(fi, fi.node, f"precedence flag > file > default broken: {label}, expected {names[want]} (a value that is set but falsy - 0, false, '' - "
                       f"must not be replaced)", construct=label)
            else:
                rr.ok(label)


def r10a(model: Model, rr: RuleResult):
    cfgmod = model.mod("config")
    fc = cfgmod.cls("FontConfig")
    fields = fc.field_names()
    scalar = [f for f in fields if f not in DERIVED_FIELDS]
    if len(scalar) < 20:
        raise AnalysisError(f"FontConfig has only {len(scalar)} scalar fields")

    # 1. flags
    flags_ = config_flags(model)
    for f in scalar:
        if f not in flags_:
            rr.bad(cfgmod, fc.node, f"FontConfig field '{f}' has no command-line flag in config.py "
                   f"(a flag for it cannot override the file value)", construct=f"field {f}: no flags.DEFINE_*")
        else:
            rr.ok(f"field {f} <-> flag --{f}")
    for name, call in flags_.items():
        if name not in fields:
            rr.bad(cfgmod, call, f"flag --{name} defined in config.py has no FontConfig field", construct=f"flag {name}")
            continue
        default = call.args[1] if len(call.args) > 1 else kwarg(call, "default")
        if default is None or norm(default) != "None":
            rr.bad(cfgmod, call, f"flag --{name} has non-None default {short(default)}: it would silently beat the "
                   f"configuration file value", construct=f"flag {name} default {short(default)}")
        else:
            rr.ok(f"flag --{name} default is the None sentinel")

    # 2. writer
    wfi, d, cfg_param = write_dict(model)
    keys = []
    for k, v in zip(d.keys, d.values):
        if not isinstance(k, ast.Constant):
            raise AnalysisError(f"config.write: non-constant key {short(k)}")
        keys.append(k.value)
        if k.value in NESTED_KEYS:
            continue
        reads = {n.attr for n in ast.walk(v) if isinstance(n, ast.Attribute) and isinstance(n.value, ast.Name)
                 and n.value.id == cfg_param}
        if reads != {k.value}:
            rr.bad(wfi, v, f"config.write stores {short(v)} under key '{k.value}': expected a value read from "
                   f"{cfg_param}.{k.value} only (cross-wired or constant field)",
                   construct=f"'{k.value}': {short(v)}")
        else:
            rr.ok(f"write key '{k.value}' <- {cfg_param}.{k.value}")
    for cond, vname in getattr(write_dict, "filters", []):
        t = norm(cond).replace(" ", "")
        if t in (f"{vname}isnotNone", f"notNoneis{vname}"):
            rr.ok("config.write leaves out None values only")
        else:
            rr.bad(wfi, cond, f"config.write drops every entry for which `{short(cond)}` is false: a legitimately falsy setting (width = 0, descender = 0, "
                   f"keep_glyph_names = false, version_minor = 0) never reaches the worker, which then applies the default instead",
                   construct=f"write: entries filtered by {short(cond)}")
    for f in scalar:
        if f not in keys:
            rr.bad(wfi, d, f"config.write does not serialise FontConfig field '{f}': the worker would see the default",
                   construct=f"write: missing key {f}")
    for k in keys:
        if k not in scalar and k not in NESTED_KEYS:
            rr.bad(wfi, d, f"config.write emits key '{k}' that is not a FontConfig field (load rejects unknown keys)",
                   construct=f"write: extra key {k}")
    if len(keys) != len(set(keys)):
        rr.bad(wfi, d, "config.write has duplicate keys", construct="write: duplicate keys")

    # 3. reader
    lfi, pops = popped(model)
    lcfg = cfg_of(lfi)
    for f in scalar:
        if f not in pops:
            rr.bad_shape(lfi, lfi.node, f"config.load never reads '{f}' via _pop_flag: file and flag values are ignored",
                   construct=f"load: missing _pop_flag(config, '{f}')")
        else:
            rr.ok(f"load pops '{f}'")
    for name in pops:
        if name not in scalar:
            rr.bad(lfi, pops[name][0][0], f"config.load pops '{name}' which is not a scalar FontConfig field",
                   construct=f"load: _pop_flag(config, '{name}')")

    # 4. constructor keywords
    ctor = None
    for st in walk_body(lfi):
        if isinstance(st, ast.Return) and st.value is not None:
            for c in ast.walk(st.value):
                if isinstance(c, ast.Call) and norm(c.func) == "FontConfig":
                    ctor = (c, st)
    if ctor is None:
        raise AnalysisError("config.load: no 'return FontConfig(...)' found")
    call, ret = ctor
    if call.args:
        raise AnalysisError("config.load: FontConfig(...) uses positional arguments (idiom not enumerated)")
    kws = {k.arg: k.value for k in call.keywords if k.arg}
    at = lcfg.node_for(ret)
    for f in fields:
        if f not in kws:
            rr.bad(lfi, call, f"FontConfig(...) in config.load omits '{f}': the default is used whatever the file/flag says",
                   construct=f"FontConfig(...): missing keyword {f}")
            continue
        if f in DERIVED_FIELDS:
            rr.ok(f"keyword {f} (derived) present")
            continue
        # the value must derive from _pop_flag(config, f) and from no other popped name
        _, exprs = expr_closure(lcfg, at, kws[f])
        names = set()
        for e in exprs:
            for c in ast.walk(e):
                if isinstance(c, ast.Call) and callee_tail(c) == "_pop_flag" and len(c.args) > 1 and isinstance(
                    c.args[1], ast.Constant
                ):
                    names.add(c.args[1].value)
        if names != {f}:
            rr.bad_shape(lfi, kws[f], f"keyword {f}={short(kws[f])} derives from _pop_flag of {sorted(names) or 'nothing'}, "
                   f"expected exactly '{f}'", construct=f"FontConfig({f}={short(kws[f])})")
        else:
            rr.ok(f"keyword {f} <- _pop_flag(config, '{f}')")
    for k in kws:
        if k not in fields:
            rr.bad(lfi, call, f"FontConfig(...) keyword '{k}' is not a field", construct=f"FontConfig(...): extra {k}")

    # 5. nested dictionaries: keys written == keys popped
    nested_w: Dict[str, Set[str]] = {}
    for k, v in zip(d.keys, d.values):
        if k.value in NESTED_KEYS:
            inner = None
            if isinstance(v, ast.DictComp) and isinstance(v.value, ast.Dict):
                inner = v.value
            if inner is None:
                raise AnalysisError(f"config.write: '{k.value}' is not a dict comprehension of dict literals")
            nested_w[k.value] = {kk.value for kk in inner.keys if isinstance(kk, ast.Constant)}
    nested_r: Dict[str, Set[str]] = {}
    for st in walk_body(lfi):
        if isinstance(st, ast.For) and isinstance(st.iter, ast.Call):
            # for tag, sub in config.pop("axis").items()
            src = None
            for c in ast.walk(st.iter):
                if isinstance(c, ast.Call) and callee_tail(c) == "pop" and c.args and isinstance(c.args[0], ast.Constant):
                    src = c.args[0].value
            if src in NESTED_KEYS and isinstance(st.target, ast.Tuple) and len(st.target.elts) == 2:
                sub = st.target.elts[1].id
                got = set()
                for c in ast.walk(st):
                    if isinstance(c, ast.Call) and callee_tail(c) == "pop" and isinstance(c.func, ast.Attribute) and norm(
                        c.func.value) == sub and c.args and isinstance(c.args[0], ast.Constant):
                        got.add(c.args[0].value)
                nested_r[src] = got
                # leftovers must raise
                raises = any(isinstance(i, ast.If) and norm(i.test) == sub and any(isinstance(b, ast.Raise) for b in i.body)
                             for i in ast.walk(st))
                if not raises:
                    rr.bad(lfi, st, f"unknown keys in [{src}.*] are not rejected", construct=f"for ... in config.pop('{src}'): no leftover check")
                else:
                    rr.ok(f"leftover keys of [{src}.*] raise")
    for k in NESTED_KEYS:
        if k not in nested_w or k not in nested_r:
            raise AnalysisError(f"nested '{k}' section: writer or reader loop not found")
        if nested_w[k] != nested_r[k]:
            rr.bad_shape(lfi, lfi.node, f"[{k}.*] keys written {sorted(nested_w[k])} != keys read {sorted(nested_r[k])}",
                   construct=f"nested {k}: write {sorted(nested_w[k])} vs load {sorted(nested_r[k])}")
        else:
            rr.ok(f"[{k}.*] keys agree: {sorted(nested_w[k])}")
    # leftovers at top level raise
    top_raise = any(isinstance(i, ast.If) and norm(i.test) == lfi.params and False for i in [])
    cfgvar = None
    for st in walk_body(lfi):
        if isinstance(st, ast.Assign) and isinstance(st.value, ast.Call) and callee_tail(st.value) == "_resolve_config":
            if isinstance(st.targets[0], ast.Tuple):
                cfgvar = st.targets[0].elts[1].id
    if cfgvar is None:
        raise AnalysisError("config.load: cannot find the variable holding the parsed TOML")
    ok = any(isinstance(i, ast.If) and norm(i.test) == cfgvar and any(isinstance(b, ast.Raise) for b in i.body)
             for i in walk_body(lfi))
    if ok:
        rr.ok("unknown top-level keys raise")
    else:
        rr.bad(lfi, lfi.node, "unknown top-level configuration keys are not rejected", construct="load: no 'if config: raise'")

    _pop_flag_semantics(model, rr)


@RULES.rule("C10", "R10a", "configuration schema agreement (fields, flags, write keys, popped names, constructor)", floor=100)
def _r10a(model, rr):
    r10a(model, rr)


@RULES.rule("C20", "R20a", "configuration schema agreement (= R10a)", floor=100)
def _r20a(model, rr):
    r10a(model, rr)


# ---------------------------------------------------------------------------------------------
CSV_DIALECT_KEYS = ("dialect", "delimiter", "quotechar", "escapechar", "doublequote", "skipinitialspace", "quoting", "strict")


@RULES.rule("C10", "R10b", "csv writer/reader dialect agreement", floor=1)
def r10b(model: Model, rr: RuleResult):
    mod = model.mod("glyphmap")
    writers, readers = [], []
    for fi in mod.functions.values():
        for c in calls_in(fi):
            if norm(c.func) == "csv.writer":
                writers.append((fi, c))
            if norm(c.func) == "csv.reader":
                readers.append((fi, c))
    if len(readers) == 1 and not writers:
        wfi = mod.func("GlyphMapping.csv_line")
        rr.bad(wfi, wfi.node, "glyphmap rows are no longer written with csv.writer while they are parsed with csv.reader: hand-rolled quoting does not follow "
               "the reader's dialect (embedded quotes, leading quote characters)", construct="csv_line: no csv.writer, reader is csv.reader")
        return
    if len(writers) != 1 or len(readers) != 1:
        raise AnalysisError(f"glyphmap: expected one csv.writer and one csv.reader, found {len(writers)}/{len(readers)}")
    (wfi, w), (rfi, r) = writers[0], readers[0]
    wk = {k.arg: norm(k.value) for k in w.keywords}
    rk = {k.arg: norm(k.value) for k in r.keywords}
    if len(w.args) > 1:
        wk["dialect"] = norm(w.args[1])
    if len(r.args) > 1:
        rk["dialect"] = norm(r.args[1])
    diffs = []
    for k in CSV_DIALECT_KEYS:
        if wk.get(k) != rk.get(k):
            diffs.append((k, wk.get(k), rk.get(k)))
    for k, a, b in diffs:
        rr.bad(rfi, r, f"csv dialect differs between writer ({k}={a}) and reader ({k}={b}): values do not round-trip "
               f"(e.g. a path with leading white space)", construct=f"csv dialect {k}: writer={a} reader={b}")
    if not diffs:
        rr.ok(f"csv.writer/csv.reader agree on {CSV_DIALECT_KEYS}")


@RULES.rule("C10", "R10c", "glyphmap row shape: column order, hex codepoints", floor=5)
def r10c(model: Model, rr: RuleResult):
    mod = model.mod("glyphmap")
    gm = mod.cls("GlyphMapping")
    F = gm.field_names()
    wfi = mod.func("GlyphMapping.csv_line")
    rfi = mod.func("load_from")
    # writer: the list literal given to writerow (through a variable)
    wcfg = cfg_of(wfi)
    wr = find_calls(wfi, "writerow")
    if len(wr) != 1:
        raise AnalysisError("csv_line: expected one writerow call")
    rowexpr = wr[0].args[0]
    row = rowexpr
    rowname = None
    if isinstance(rowexpr, ast.Name):
        rowname = rowexpr.id
        defs = [d for d in wcfg.all_defs(rowname) if isinstance(d.value, ast.List)]
        if len(defs) != 1:
            raise AnalysisError("csv_line: row is not built from one list literal")
        row = defs[0].value
    W: List[str] = []
    for e in row.elts:
        attrs = [n.attr for n in ast.walk(e) if isinstance(n, ast.Attribute) and isinstance(n.value, ast.Name) and n.value.id == "self"]
        if len(set(attrs)) != 1:
            raise AnalysisError(f"csv_line: column {short(e)} does not read exactly one field")
        W.append(attrs[0])
    # the tail: row.extend(<genexp of format>) reading self.codepoints
    tail_fmt = None
    for c in calls_in(wfi):
        if callee_tail(c) == "extend" and rowname and norm(c.func.value) == rowname:
            if "codepoints" not in norm(c.args[0]):
                raise AnalysisError("csv_line: row.extend does not read codepoints")
            for n in ast.walk(c.args[0]):
                if isinstance(n, ast.FormattedValue) and n.format_spec is not None:
                    tail_fmt = norm(n.format_spec).strip("f'\"")
                if isinstance(n, ast.BinOp) and isinstance(n.op, ast.Mod) and isinstance(n.left, ast.Constant):
                    tail_fmt = n.left.value
            W.append("codepoints")
    if "codepoints" not in W:
        raise AnalysisError("csv_line: codepoints column(s) not found")
    # reader: destructuring of row
    rcfg = cfg_of(rfi)
    T: List[str] = []
    star = None
    for st in walk_body(rfi):
        if isinstance(st, ast.Assign) and isinstance(st.targets[0], ast.Tuple) and isinstance(st.value, ast.Name):
            elts = st.targets[0].elts
            if any(isinstance(e, ast.Starred) for e in elts):
                for e in elts:
                    if isinstance(e, ast.Starred):
                        star = e.value.id
                        T.append(star)
                    else:
                        T.append(e.id)
    if not T:
        raise AnalysisError("load_from: row destructuring with a starred tail not found")
    ctor = [c for c in calls_in(rfi) if norm(c.func) == "GlyphMapping"]
    if len(ctor) != 1:
        raise AnalysisError("load_from: expected one GlyphMapping(...) call")
    c = ctor[0]
    at = rcfg.node_for(c)
    argmap: Dict[str, ast.AST] = {}
    for i, a in enumerate(c.args):
        argmap[F[i]] = a
    for k in c.keywords:
        argmap[k.arg] = k.value
    if len(W) != len(T):
        rr.bad(rfi, c, f"writer emits columns {W} but reader destructures {T}", construct=f"columns {W} vs {T}")
        return
    for wfield, tname in zip(W, T):
        a = argmap.get(wfield)
        if a is None:
            rr.bad(rfi, c, f"GlyphMapping(...) receives no value for '{wfield}'", construct=f"GlyphMapping: missing {wfield}")
            continue
        names, _ = expr_closure(rcfg, at, a)
        others = (set(T) - {tname}) & names
        if tname not in names or others:
            rr.bad(rfi, a, f"column written from self.{wfield} is read back into '{tname}', but GlyphMapping.{wfield} "
                   f"is built from {sorted((set(T) & names)) or 'none of the columns'}",
                   construct=f"GlyphMapping({wfield}={short(a)}) vs column {tname}")
        else:
            rr.ok(f"column {wfield}: written from self.{wfield}, read via {tname} into GlyphMapping.{wfield}")
    # hex agreement
    base = None
    for cc in calls_in(rfi):
        if norm(cc.func) == "int" and len(cc.args) == 2:
            base = norm(cc.args[1])
    if tail_fmt is None or base is None:
        raise AnalysisError("codepoint format / int base not found")
    hex_w = tail_fmt.rstrip("'\"").endswith(("x", "X"))
    if hex_w and base == "16":
        rr.ok(f"codepoints written with format '{tail_fmt}' and read with base {base}")
    elif (not hex_w) and tail_fmt.rstrip("'\"").endswith("d") and base == "10":
        rr.ok(f"codepoints written with format '{tail_fmt}' and read with base {base}")
    else:
        rr.bad(rfi, c, f"codepoints written with format '{tail_fmt}' but parsed with int(cp, {base})",
               construct=f"codepoint radix: format {tail_fmt} vs base {base}")


@RULES.rule("C10", "R10d", "parts JSON: keys written == keys read, leftovers raise", floor=4)
def r10d(model: Model, rr: RuleResult):
    mod = model.mod("parts")
    wfi = mod.func("ReusableParts.to_json")
    rfi = mod.func("ReusableParts.from_json")
    top = None
    for st in walk_body(wfi):
        if isinstance(st, ast.Assign) and isinstance(st.value, ast.Dict):
            top = st.value
    if top is None:
        raise AnalysisError("to_json: dict literal not found")
    K1 = {k.value for k in top.keys if isinstance(k, ast.Constant)}
    K2 = None
    for k, v in zip(top.keys, top.values):
        if isinstance(v, ast.ListComp) and isinstance(v.elt, ast.Dict):
            K2 = {kk.value for kk in v.elt.keys if isinstance(kk, ast.Constant)}
            k2name = k.value
    if K2 is None:
        raise AnalysisError("to_json: nested shape-set dict not found")
    pops: Dict[str, Set[str]] = {}
    for c in calls_in(rfi):
        if callee_tail(c) == "pop" and isinstance(c.func, ast.Attribute) and c.args and isinstance(c.args[0], ast.Constant):
            pops.setdefault(norm(c.func.value), set()).add(c.args[0].value)
    if len(pops) != 2:
        raise AnalysisError(f"from_json: expected pops on two mappings, found {sorted(pops)}")
    # the mapping popped with K2's container key is the top-level one
    topvar = [v for v, ks in pops.items() if k2name in ks]
    if len(topvar) != 1:
        raise AnalysisError("from_json: top-level mapping not identified")
    P1 = pops[topvar[0]]
    subvar = [v for v in pops if v != topvar[0]][0]
    P2 = pops[subvar]
    for (W, R, what) in ((K1, P1, "top-level"), (K2, P2, "shape-set")):
        if W != R:
            rr.bad(rfi, rfi.node, f"parts JSON {what} keys written {sorted(W)} != keys read {sorted(R)}",
                   construct=f"parts {what}: to_json {sorted(W)} vs from_json {sorted(R)}")
        else:
            rr.ok(f"parts {what} keys agree: {sorted(W)}")
    for var in (topvar[0], subvar):
        ok = any(isinstance(i, ast.If) and norm(i.test) == var and any(isinstance(b, ast.Raise) for b in i.body)
                 for i in walk_body(rfi))
        if ok:
            rr.ok(f"leftover keys in {var} raise")
        else:
            rr.bad(rfi, rfi.node, f"unconsumed keys in {var} are not rejected", construct=f"from_json: no 'if {var}: raise'")


@RULES.rule("C10", "R10f", "axes and masters cross the config hand-off in their declared order", floor=2)
def r10f(model: Model, rr: RuleResult):
    wfi, d, cfg_param = write_dict(model)
    lfi = model.func("config", "load")
    lcfg = cfg_of(lfi)
    for key, field, lst in (("axis", "axes", "axes"), ("master", "masters", "masters")):
        v = next((vv for k, vv in zip(d.keys, d.values) if isinstance(k, ast.Constant) and k.value == key), None)
        if not isinstance(v, ast.DictComp) or len(v.generators) != 1:
            raise AnalysisError(f"config.write: '{key}' is not a single-generator dict comprehension")
        it = v.generators[0].iter
        # does load keep the file order? (list appended in a loop over the table's items, converted with tuple(), never sorted)
        ctor_kw = None
        for c in calls_in(lfi, nested=True):
            if norm(c.func) == "FontConfig":
                ctor_kw = kwarg(c, field)
        if ctor_kw is None:
            raise AnalysisError(f"config.load: FontConfig(... {field}=...) not found")
        load_sorts = any(isinstance(n, ast.Call) and norm(n.func) in ("sorted", "set", "frozenset") for n in ast.walk(ctor_kw))
        if load_sorts:
            rr.ok(f"load canonicalises {field}: the order written is irrelevant")
            continue
        if norm(it) == f"{cfg_param}.{field}" and not v.generators[0].ifs:
            rr.ok(f"write iterates {cfg_param}.{field} as it is; load keeps the file order ({short(ctor_kw)})")
        else:
            rr.bad(wfi, it, f"config.write iterates {short(it)} for '{key}' while config.load keeps the order of the file: the worker sees "
                   f"FontConfig.{field} in a different order than the driver resolved (e.g. wght declared before wdth comes back as wdth, wght)",
                   construct=f"write '{key}': for ... in {short(it)}")


@RULES.rule("C10", "R10g", "response files are split by the inverse of the quoting ninja applied (POSIX shlex on POSIX hosts)", floor=2)
def r10g(model: Model, rr: RuleResult):
    """ninja quotes `$in` for the host shell; util.shell_quote uses shlex.quote off Windows, so the reader has to run shlex.split in POSIX mode there.
    In non-POSIX mode shlex keeps the quotes as part of the token: a source called `a b.svg` reaches the worker as `'a b.svg'`."""
    mod = model.mod("util")
    calls = [c for n in ast.walk(mod.tree) if isinstance(n, ast.FunctionDef) and n.name == "shell_split" for c in ast.walk(n)
             if isinstance(c, ast.Call) and norm(c.func) == "shlex.split"]
    if not calls:
        raise AnalysisError("util.shell_split: shlex.split call not found")
    for c in calls:
        px = kwarg(c, "posix")
        t = norm(px).replace(" ", "") if px is not None else None
        if px is None or t in ("True", "os.name=='posix'", "'posix'==os.name", "notsys.platform.startswith('win')", "os.name!='nt'"):
            rr.ok(f"shlex.split(..., posix={t if t else 'True (default)'}) on the non-Windows branch")
        elif "sys.platform" in t and "'posix'" in t:
            rr.bad(mod, c, f"posix={short(px)}: sys.platform is 'linux', 'darwin', 'win32', ... and never 'posix', so shlex.split always runs in non-POSIX mode and keeps the quotes "
                   f"ninja put around a path: a source whose name needs quoting reaches the worker under a different name than the driver resolved", construct="shell_split: posix= is constantly False")
        elif t == "False":
            rr.bad(mod, c, "shlex.split(..., posix=False) keeps the quotes of quoted paths", construct="shell_split: posix=False")
        else:
            raise AnalysisError(f"util.shell_split: posix={short(px)} outside the enumerated idioms")
    q = [c for n in ast.walk(mod.tree) if isinstance(n, ast.FunctionDef) and n.name == "shell_quote" for c in ast.walk(n) if isinstance(c, ast.Call) and norm(c.func) == "shlex.quote"]
    if q:
        rr.ok("shell_quote uses shlex.quote off Windows (the writer's side of the same dialect)")
    else:
        rr.bad(mod, mod.tree, "shell_quote no longer uses shlex.quote off Windows", construct="shell_quote")
    ex = model.func("util", "expand_ninja_response_files")
    if any(callee_tail(c) == "shell_split" for c in calls_in(ex, nested=True)):
        rr.ok("expand_ninja_response_files splits response-file content with shell_split")
    else:
        rr.bad(ex, ex.node, "response files are no longer split with shell_split", construct="expand_ninja_response_files")


@RULES.rule("C10", "R10h", "every glyph-map row is produced by the csv writer (no hand-joined fast path opposite csv.reader)", floor=1)
def r10h(model: Model, rr: RuleResult):
    fi = model.func("glyphmap", "GlyphMapping.csv_line")
    rets = [st for st in walk_body(fi) if isinstance(st, ast.Return) and st.value is not None]
    if not rets:
        raise AnalysisError("GlyphMapping.csv_line: no return")
    cfg = cfg_of(fi)
    for st in rets:
        _, exprs = expr_closure(cfg, cfg.node_for(st), st.value)
        joins = [c for e in exprs for c in ast.walk(e) if isinstance(c, ast.Call) and callee_tail(c) == "join" and isinstance(c.func, ast.Attribute) and isinstance(c.func.value, ast.Constant)
                 and "," in str(c.func.value.value)]
        if joins:
            rr.bad(fi, st, f"`{short(st, 70)}` builds the row with {short(joins[0], 40)} instead of the csv writer: fields that need quoting for the reader (a leading double quote, "
                   f"an embedded quote or newline) come back changed, so a worker opens a different file name than the driver wrote", construct=f"csv_line: hand-joined row {short(joins[0], 40)}")
        else:
            rr.ok(f"csv_line: `{short(st, 60)}` comes from the csv writer's buffer")


@RULES.rule("C10", "R10i", "codepoints are read from a file name by the one documented pattern; no character-set stripping of prefixes", floor=2)
def r10i(model: Model, rr: RuleResult):
    fi = model.func("codepoints", "from_filename")
    from ..dataflow import fold_module_constants
    pats = []
    for c in calls_in(fi):
        if callee_tail(c) in ("search", "match", "fullmatch", "compile", "finditer", "findall") and c.args:
            a = fold_module_constants(c.args[0], fi)
            if isinstance(a, ast.Constant) and isinstance(a.value, str):
                pats.append((c, a.value))
    mod = model.mod("codepoints")
    for k, v in mod.assigns.items():
        if isinstance(v, ast.Call) and callee_tail(v) == "compile" and v.args and isinstance(v.args[0], ast.Constant) and isinstance(v.args[0].value, str):
            pats.append((v, v.args[0].value))
    REF = r"(?:^emoji_u)?(?:[-_]?([0-9a-fA-F]{1,}))+"
    if any(p == REF for _, p in pats):
        rr.ok("from_filename: optional emoji_u prefix, then hex groups separated by - or _")
    elif pats:
        rr.bad_shape(fi, pats[0][0], f"from_filename matches {pats[0][1]!r}, not the documented pattern", construct="from_filename: pattern")
    else:
        rr.bad_shape(fi, fi.node, "from_filename: pattern not found", construct="from_filename: pattern")
    # any other pattern of the module that also accepts a name made of hex digits competes with the documented reading of that name
    import re as _re
    samples = ["ae", "a9", "EF", "1f600", "emoji_u1f600", "1f1e6-1f1ea", "0023_20e3", "ab"]
    for node, ptxt in pats:
        if ptxt == REF:
            continue
        try:
            rx = _re.compile(ptxt)
        except _re.error:
            continue
        hit = [x for x in samples if rx.fullmatch(x) or (rx.match(x) and rx.match(x).end() == len(x))]
        if hit:
            rr.bad(fi, node, f"codepoints.py also reads file names with the pattern {ptxt!r}, which accepts {hit} - names that the documented pattern decodes as hex codepoints "
                   f"(ae.svg is U+00AE): such a source is mapped to other codepoints than its name says", construct=f"codepoints: competing pattern {ptxt}")
    strips = [c for f2 in mod.functions.values() for c in calls_in(f2) if callee_tail(c) in ("lstrip", "rstrip", "strip") and c.args
              and isinstance(c.args[0], ast.Constant) and isinstance(c.args[0].value, str) and len(set(c.args[0].value)) > 1]
    if strips:
        c = strips[0]
        rr.bad(fi, c, f"{short(c)} removes any run of the CHARACTERS {sorted(set(c.args[0].value))}, not the prefix {c.args[0].value!r}: a file name whose first hex digit is one of "
               f"them (emoji_ue50a.svg, ea.svg) loses it and is decoded as another codepoint", construct=f"codepoints: {short(c)}")
    else:
        rr.ok("no str.strip/lstrip/rstrip with a multi-character set in codepoints.py")
