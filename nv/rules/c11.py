"""C11 — reordering glyphs leaves every table's meaning intact.
R11a: the repo's _REORDER_RULES table equals the specification table derived from otData.py."""
from __future__ import annotations

import ast
from typing import Dict, List, Optional, Tuple

from .. import otspec
from ..cfg import cfg_of
from ..guards import guard_facts
from ..model import (AnalysisError, Model, calls_in, callee_tail, find_calls, kwarg, norm, short, walk_body)
from ..report import RULES, RuleResult

COVERAGE_NAMES_BASE = "Coverage"

# Frozen after reading each otData description (DESIGN Appendix B). (record, fmt) -> {coverage field: parallel array or None}
# The reason string quotes what ties the array to the coverage.
PARALLEL: Dict[Tuple[str, Optional[int]], Dict[str, Tuple[Optional[str], str]]] = {
    ("SinglePos", 1): {"Coverage": (None, "one ValueRecord for all covered glyphs")},
    ("SinglePos", 2): {"Coverage": ("Value", "ValueCount values 'applied to glyphs', one per covered glyph")},
    ("PairPos", 1): {"Coverage": ("PairSet", "PairSet array 'ordered by Coverage Index'")},
    ("PairPos", 2): {"Coverage": (None, "class-indexed records")},
    ("CursivePos", 1): {"Coverage": ("EntryExitRecord", "'in Coverage Index order'")},
    ("MarkBasePos", 1): {"MarkCoverage": ("MarkArray.MarkRecord", "MarkRecords 'in Coverage order'"),
                         "BaseCoverage": ("BaseArray.BaseRecord", "BaseRecords 'in order of BaseCoverage Index'")},
    ("MarkLigPos", 1): {"MarkCoverage": ("MarkArray.MarkRecord", "MarkRecords 'in Coverage order'"),
                        "LigatureCoverage": ("LigatureArray.LigatureAttach", "'ordered by LigatureCoverage Index'")},
    ("MarkMarkPos", 1): {"Mark1Coverage": ("Mark1Array.MarkRecord", "MarkRecords 'in Coverage order'"),
                         "Mark2Coverage": ("Mark2Array.Mark2Record", "'in Coverage order'")},
    ("ContextPos", 1): {"Coverage": ("PosRuleSet", "'ordered by Coverage Index'")},
    ("ContextPos", 2): {"Coverage": (None, "class-indexed sets")},
    ("ContextPos", 3): {"Coverage": (None, "array of coverages, one per position")},
    ("ChainContextPos", 1): {"Coverage": ("ChainPosRuleSet", "'ordered by Coverage Index'")},
    ("ChainContextPos", 2): {"Coverage": (None, "class-indexed sets")},
    ("ChainContextPos", 3): {"BacktrackCoverage": (None, "one coverage per position"),
                             "InputCoverage": (None, "one coverage per position"),
                             "LookAheadCoverage": (None, "one coverage per position")},
    ("ContextSubst", 1): {"Coverage": ("SubRuleSet", "'ordered by Coverage Index'")},
    ("ContextSubst", 2): {"Coverage": (None, "class-indexed sets")},
    ("ContextSubst", 3): {"Coverage": (None, "array of coverages, one per position")},
    ("ChainContextSubst", 1): {"Coverage": ("ChainSubRuleSet", "'ordered by Coverage Index'")},
    ("ChainContextSubst", 2): {"Coverage": (None, "class-indexed sets")},
    ("ChainContextSubst", 3): {"BacktrackCoverage": (None, "one coverage per position"),
                               "InputCoverage": (None, "one coverage per position"),
                               "LookAheadCoverage": (None, "one coverage per position")},
    ("ReverseChainSingleSubst", 1): {"Coverage": ("Substitute", "Substitute GlyphIDs 'ordered by Coverage index'"),
                                     "BacktrackCoverage": (None, "one coverage per position"),
                                     "LookAheadCoverage": (None, "one coverage per position")},
    ("AttachList", None): {"Coverage": ("AttachPoint", "'in Coverage Index order'")},
    ("LigCaretList", None): {"Coverage": ("LigGlyph", "'in Coverage Index order'")},
    ("MarkGlyphSetsDef", None): {"Coverage": (None, "array of coverages, one per mark set")},
    ("MathGlyphInfo", None): {"ExtendedShapeCoverage": (None, "set membership only")},
    ("MathItalicsCorrectionInfo", None): {"Coverage": ("ItalicsCorrection", "'for each covered glyph'")},
    ("MathTopAccentAttachment", None): {"TopAccentCoverage": ("TopAccentAttachment", "'for each covered glyph'")},
    ("MathKernInfo", None): {"MathKernCoverage": ("MathKernInfoRecords", "MathKernCount = number of covered glyphs")},
    ("MathVariants", None): {"VertGlyphCoverage": ("VertGlyphConstruction", "VertGlyphCount tied to the coverage"),
                             "HorizGlyphCoverage": ("HorizGlyphConstruction", "HorizGlyphCount tied to the coverage")},
}
# glyph-sorted inner lists: (record, fmt) -> (list attr, key attr)
SORTED_LISTS = {("PairSet", None): ("PairValueRecord", "SecondGlyph", "'ordered by GlyphID of the second glyph'")}
# out of scope with reason
OUT_OF_SCOPE = {("VARC", None): "top-level table outside GDEF/GPOS/GSUB/MATH; not visited by reorder_glyphs"}


def _equivalents() -> Dict[str, str]:
    """alias -> base class name, from otTables._equivalents (parsed)."""
    src = (otspec._tables_dir() / "otTables.py").read_text()
    tree = ast.parse(src)
    out = {}
    for st in tree.body:
        if isinstance(st, ast.Assign) and any(isinstance(t, ast.Name) and t.id == "_equivalents" for t in st.targets):
            for k, v in zip(st.value.keys, st.value.values):
                for e in v.elts:
                    out[e.value] = k.value
    if "MarkCoverage" not in out:
        raise AnalysisError("_equivalents not parsed from otTables.py")
    return out


def spec_coverage_records() -> Dict[Tuple[str, Optional[int]], List[str]]:
    eq = _equivalents()
    recs = otspec.ot_records()
    out = {}
    for name, fields in recs.items():
        cov = []
        for f in fields:
            if f.type in ("Offset", "LOffset") and (f.name == "Coverage" or eq.get(f.name) == "Coverage"):
                if f.name not in cov:
                    cov.append(f.name)
        if cov:
            out[otspec.split_record_name(name)] = cov
    return out


def _resolve_dotted(rec: Tuple[str, Optional[int]], dotted: str) -> Optional[otspec.Field]:
    """Follow a dotted attribute path through otData record types; returns the final field."""
    eq = _equivalents()
    cur = otspec.record(*rec)
    field = None
    parts = dotted.split(".")
    for i, p in enumerate(parts):
        if cur is None:
            return None
        byname = {}
        for f in cur:
            byname.setdefault(f.name, f)
            # for repeated+scalar duplicates prefer the repeated one
            if f.repeat:
                byname[f.name] = f
        field = byname.get(p)
        if field is None:
            return None
        if i < len(parts) - 1:
            tname = eq.get(field.name, field.name) if field.type in ("Offset", "LOffset", "struct") else field.type
            cur = otspec.record(tname, None) or otspec.record(tname, 1)
    return field


def _eval_rule_list(mod, v: ast.AST, depth: int = 4, env=None) -> ast.AST:
    """The rule list an entry of the table denotes, when it is not written as a literal: a module constant, `list(X)`, a concatenation, or a call of a
    module-level factory whose body is `return <list>` (arguments substituted).  Anything else is returned unchanged."""
    import copy
    env = env or {}
    if depth <= 0:
        return v
    if isinstance(v, ast.Name):
        if v.id in env:
            return _eval_rule_list(mod, env[v.id], depth - 1)
        if v.id in mod.assigns:
            return _eval_rule_list(mod, mod.assigns[v.id], depth - 1)
        return v
    if isinstance(v, ast.Tuple):
        return ast.List(elts=[_subst(e, env) for e in v.elts], ctx=ast.Load())
    if isinstance(v, ast.List):
        elts = []
        for e in v.elts:
            if isinstance(e, ast.Starred):
                inner = _eval_rule_list(mod, e.value, depth - 1, env)
                if not isinstance(inner, ast.List):
                    return v
                elts += inner.elts
            else:
                e2 = _subst(e, env)
                if isinstance(e2, ast.Name) and e2.id in mod.assigns and isinstance(mod.assigns[e2.id], ast.Call):
                    e2 = mod.assigns[e2.id]
                # an element may itself be a call of a factory returning one rule
                if isinstance(e2, ast.Call) and isinstance(e2.func, ast.Name) and e2.func.id in mod.functions:
                    r = _inline_factory(mod, e2, depth - 1)
                    if r is not None and not isinstance(r, ast.List):
                        e2 = r
                elts.append(e2)
        return ast.List(elts=elts, ctx=ast.Load())
    if isinstance(v, ast.BinOp) and isinstance(v.op, ast.Add):
        a, b = _eval_rule_list(mod, v.left, depth - 1, env), _eval_rule_list(mod, v.right, depth - 1, env)
        if isinstance(a, ast.List) and isinstance(b, ast.List):
            return ast.List(elts=a.elts + b.elts, ctx=ast.Load())
        return v
    if isinstance(v, ast.Call) and isinstance(v.func, ast.Name) and v.func.id in ("list", "tuple") and len(v.args) == 1:
        return _eval_rule_list(mod, v.args[0], depth - 1, env)
    if isinstance(v, ast.Call) and isinstance(v.func, ast.Name) and v.func.id in mod.functions:
        r = _inline_factory(mod, v, depth - 1)
        if r is not None:
            return _eval_rule_list(mod, r, depth - 1)
    return v


def _subst(e: ast.AST, env) -> ast.AST:
    import copy
    if not env:
        return e

    class S(ast.NodeTransformer):
        def visit_Name(self, n):
            return copy.deepcopy(env[n.id]) if n.id in env and isinstance(n.ctx, ast.Load) else n
    return S().visit(copy.deepcopy(e))


def _inline_factory(mod, call: ast.Call, depth: int):
    f = mod.functions[call.func.id]
    body = [st for st in f.body if not (isinstance(st, ast.Expr) and isinstance(st.value, ast.Constant))]
    if len(body) != 1 or not isinstance(body[0], ast.Return) or body[0].value is None:
        return None
    a = f.node.args
    params = [x.arg for x in a.posonlyargs + a.args]
    defaults = dict(zip(params[len(params) - len(a.defaults):], a.defaults))
    env = dict(defaults)
    for p_, arg_ in zip(params, call.args):
        env[p_] = arg_
    for kw in call.keywords:
        if kw.arg:
            env[kw.arg] = kw.value
    if any(p_ not in env for p_ in params):
        return None
    return _subst(body[0].value, env)


def eval_reorder_rules(model: Model):
    mod = model.mod("reorder_glyphs")
    table = mod.const("_REORDER_RULES")
    if not isinstance(table, ast.Dict):
        raise AnalysisError("_REORDER_RULES is not a dict literal")
    cov_default = None
    rc = mod.cls("ReorderCoverage")
    rl = mod.cls("ReorderList")
    consts = {}
    for k, v in mod.assigns.items():
        if isinstance(v, ast.Constant):
            consts[k] = v.value
    rc_fields = [(n, (consts.get(norm(d)) if isinstance(d, ast.Name) else (d.value if isinstance(d, ast.Constant) else None)))
                 for n, a, d in rc.fields]
    rl_fields = [n for n, a, d in rl.fields]
    out = {}
    for k, v in zip(table.keys, table.values):
        if not (isinstance(k, ast.Tuple) and len(k.elts) == 2):
            raise AnalysisError(f"_REORDER_RULES key {short(k)} not a (type, format) tuple")
        tname = norm(k.elts[0]).split(".")[-1]
        fmt = k.elts[1].value if isinstance(k.elts[1], ast.Constant) else None
        rules = []
        v = _eval_rule_list(mod, v)
        if not isinstance(v, ast.List):
            raise AnalysisError(f"_REORDER_RULES[{short(k)}] is not a list literal")
        for c in v.elts:
            if not isinstance(c, ast.Call):
                raise AnalysisError(f"_REORDER_RULES[{short(k)}]: {short(c)} is not a constructor call")
            cname = norm(c.func)
            if cname == "ReorderCoverage":
                vals = {n: d for n, d in rc_fields}
                for i, a in enumerate(c.args):
                    vals[rc_fields[i][0]] = a.value
                for kw in c.keywords:
                    vals[kw.arg] = kw.value.value if isinstance(kw.value, ast.Constant) else consts.get(norm(kw.value))
                rules.append(("cov", vals.get("coverage_attr"), vals.get("parallel_list_attr"), c))
            elif cname == "ReorderList":
                vals = {}
                for i, a in enumerate(c.args):
                    vals[rl_fields[i]] = a.value
                for kw in c.keywords:
                    vals[kw.arg] = kw.value.value
                rules.append(("list", vals.get("list_attr"), vals.get("key"), c))
            else:
                raise AnalysisError(f"unknown reorder rule class {cname}")
        out[(tname, fmt)] = rules
    return mod, table, out


@RULES.rule("C11", "R11a", "_REORDER_RULES equals the specification table derived from fontTools otData", floor=40)
def r11a(model: Model, rr: RuleResult):
    mod, table, rules = eval_reorder_rules(model)
    spec = spec_coverage_records()
    prepost = otspec.ot_classes_with_pre_post()
    handled_by_ft = {k for k in spec if all(prepost.get(k[0], (False, False)))}
    # 0. the frozen table must still describe fontTools' data: unknown coverage-bearing record -> fontTools drifted
    for key, covs in spec.items():
        if key in handled_by_ft or key in OUT_OF_SCOPE:
            continue
        if key not in PARALLEL:
            raise AnalysisError(f"otData has a coverage-bearing record {key} {covs} that the frozen oracle table does not "
                                f"know: fontTools drifted, the oracle needs a reviewed entry")
        if set(covs) != set(PARALLEL[key]):
            raise AnalysisError(f"otData record {key} has coverage fields {covs}, oracle lists {sorted(PARALLEL[key])}")
        for cov, (par, why) in PARALLEL[key].items():
            if par is not None:
                f = _resolve_dotted(key, par)
                if f is None or not f.repeat:
                    raise AnalysisError(f"oracle entry {key}.{par} does not resolve to an array through otData")
    rr.remarks.append(f"oracle: {len(spec)} coverage-bearing otData records; {len(handled_by_ft)} handled by fontTools "
                      f"postRead/preWrite ({sorted(k[0] for k in handled_by_ft)}); out of scope {sorted(OUT_OF_SCOPE)}")
    # 1. every coverage-bearing record has rules with the right pairing
    for key in sorted(PARALLEL, key=str):
        if key not in spec:
            continue
        got = rules.get(key)
        if got is None:
            rr.bad(mod, table, f"no reorder rule for {key[0]} format {key[1]}: its coverage(s) {sorted(PARALLEL[key])} and "
                   f"parallel arrays would not follow the new glyph order", construct=f"_REORDER_RULES: missing {key}")
            continue
        covrules = {r[1]: r for r in got if r[0] == "cov"}
        for cov, (par, why) in PARALLEL[key].items():
            r = covrules.get(cov)
            if r is None:
                rr.bad(mod, table, f"{key}: coverage '{cov}' has no ReorderCoverage rule", construct=f"_REORDER_RULES[{key}]: missing coverage {cov}")
                continue
            if r[2] != par:
                rr.bad(mod, r[3], f"{key}: coverage '{cov}' must be permuted together with {par!r} ({why}); rule pairs it with {r[2]!r}",
                       construct=f"_REORDER_RULES[{key}]: {cov} paired with {r[2]} (spec: {par})")
            else:
                rr.ok(f"{key} {cov} || {par} ({why})")
        for cov in covrules:
            if cov not in PARALLEL[key]:
                rr.bad(mod, covrules[cov][3], f"{key}: rule names coverage attribute '{cov}' which this record does not have",
                       construct=f"_REORDER_RULES[{key}]: unknown coverage {cov}")
    # 2. rules for records outside the oracle must at least resolve through otData
    for key, got in rules.items():
        for r in got:
            if r[0] == "cov":
                if key in PARALLEL:
                    continue
                f = _resolve_dotted(key, r[1])
                if f is None:
                    rr.bad(mod, r[3], f"rule for {key}: coverage attribute {r[1]!r} does not exist in otData", construct=f"_REORDER_RULES[{key}] {r[1]}")
                else:
                    rr.unknown(f"rule for {key} not in oracle (resolves in otData)")
            else:
                want = SORTED_LISTS.get(key)
                f = _resolve_dotted(key, r[1])
                if f is None or not f.repeat:
                    rr.bad(mod, r[3], f"ReorderList for {key}: list attribute {r[1]!r} is not an array in otData", construct=f"_REORDER_RULES[{key}] list {r[1]}")
                    continue
                sub = otspec.record(f.name, None) or otspec.record(f.type, None)
                keyfield = {x.name: x for x in (sub or [])}.get(r[2])
                if keyfield is None or keyfield.type != "GlyphID":
                    rr.bad(mod, r[3], f"ReorderList for {key}: key {r[2]!r} is not a GlyphID field of {f.name}", construct=f"_REORDER_RULES[{key}] key {r[2]}")
                elif want and (r[1], r[2]) != want[:2]:
                    rr.bad(mod, r[3], f"ReorderList for {key}: expected list {want[0]} keyed by {want[1]}", construct=f"_REORDER_RULES[{key}] list")
                else:
                    rr.ok(f"{key} list {r[1]} sorted by {r[2]}")
    for key, (lst, k, why) in SORTED_LISTS.items():
        if not any(r[0] == "list" for r in rules.get(key, [])):
            rr.bad(mod, table, f"no ReorderList rule for {key}: {lst} is {why}", construct=f"_REORDER_RULES: missing list rule {key}")


@RULES.rule("C11", "R11b", "traversal visits all four containers, every subtable, after setGlyphOrder", floor=4)
def r11b(model: Model, rr: RuleResult):
    fi = model.func("reorder_glyphs", "reorder_glyphs")
    cfg = cfg_of(fi)
    sgo = find_calls(fi, "setGlyphOrder")
    if len(sgo) != 1:
        raise AnalysisError("reorder_glyphs: expected exactly one setGlyphOrder call")
    sgo_n = cfg.node_for(sgo[0])
    # container set
    tags = None
    loop = None
    for st in walk_body(fi):
        if isinstance(st, ast.For):
            it = st.iter
            vals = None
            while isinstance(it, ast.Call) and norm(it.func) in ("sorted", "list", "tuple", "set", "frozenset") and it.args:
                it = it.args[0]
            if isinstance(it, ast.Name):
                for d in cfg.reaching(cfg.node_for(st), it.id):
                    if d.value is not None and isinstance(d.value, (ast.Set, ast.Tuple, ast.List)):
                        vals = d.value
            elif isinstance(it, (ast.Set, ast.Tuple, ast.List)):
                vals = it
            elif isinstance(it, ast.Call) and norm(it.func) == "sorted" and isinstance(it.args[0], (ast.Set, ast.Tuple, ast.List)):
                vals = it.args[0]
            if vals is not None and all(isinstance(e, ast.Constant) and isinstance(e.value, str) for e in vals.elts):
                tags = {e.value for e in vals.elts}
                loop = st
    if tags is None:
        # the set of tables is a parameter: its default must name all four containers and no caller may narrow it
        from ..dataflow import param_closure as _pc11, fold_module_constants as _fm11
        for st in walk_body(fi):
            if not isinstance(st, ast.For):
                continue
            ps = _pc11(cfg, cfg.node_for(st), st.iter)
            a_ = fi.node.args
            names_ = [x.arg for x in a_.args]
            for p_ in ps:
                if p_ not in names_ or names_.index(p_) < len(names_) - len(a_.defaults):
                    continue
                dflt = _fm11(a_.defaults[names_.index(p_) - (len(names_) - len(a_.defaults))], fi)
                if isinstance(dflt, (ast.Tuple, ast.List, ast.Set)) and all(isinstance(e, ast.Constant) and isinstance(e.value, str) for e in dflt.elts):
                    tags = {e.value for e in dflt.elts}
                    loop = st
                    for g, call in model.call_sites(fi):
                        from ..model import arg as _a11
                        given = _a11(call, names_.index(p_), p_)
                        if given is None:
                            continue
                        gv = _fm11(given, g)
                        if isinstance(gv, (ast.Tuple, ast.List, ast.Set)) and all(isinstance(e, ast.Constant) for e in gv.elts) and {e.value for e in gv.elts} < tags:
                            rr.bad(g, call, f"{g.qualname} reorders the glyphs but restricts the coverage fix-up to {sorted(e.value for e in gv.elts)}: the glyph-id-ordered structures of "
                                   f"{sorted(tags - {e.value for e in gv.elts})} (GDEF mark glyph sets, attach list, ligature carets; MATH coverages) keep the OLD order and are written unsorted",
                                   construct=f"{g.qualname}: reorder_glyphs(..., {p_}={short(given, 40)})")
                        elif not (isinstance(gv, (ast.Tuple, ast.List, ast.Set)) and {getattr(e, 'value', None) for e in gv.elts} >= tags):
                            rr.bad_shape(g, call, f"reorder_glyphs is called with {p_}={short(given, 40)}: cannot tell that all four containers are covered", construct=f"{g.qualname}: {p_}")
    if tags is None:
        raise AnalysisError("reorder_glyphs: loop over the coverage container tags not found")
    want = {"GDEF", "GPOS", "GSUB", "MATH"}
    if want - tags:
        rr.bad(fi, loop, f"container(s) {sorted(want - tags)} are not traversed: their coverage tables keep the old order",
               construct=f"for tag in {sorted(tags)}")
    else:
        rr.ok(f"containers traversed: {sorted(tags)}")
    trav = [c for c in calls_in(loop) if callee_tail(c) in ("bfs_base_table", "dfs_base_table")]
    if not trav:
        rr.bad(fi, loop, "no base-table traversal inside the container loop", construct="container loop without bfs_base_table")
    else:
        rr.ok(f"traversal by {callee_tail(trav[0])}")
    ln = cfg.node_for(loop)
    if cfg.dominates(sgo_n, ln):
        rr.ok("setGlyphOrder dominates the traversal (coverage is re-sorted against the new order)")
    else:
        rr.bad(fi, loop, "coverage traversal is not dominated by setGlyphOrder: getGlyphID would use the old order",
               construct="traversal before setGlyphOrder")
    # rules applied for every visited value: lookup keyed by (type(value), Format) and applied unconditionally
    applies = [c for c in calls_in(loop) if callee_tail(c) == "apply"]
    if len(applies) != 1:
        raise AnalysisError("reorder_glyphs: expected one rule.apply(...) call in the loop")
    gets = [c for c in calls_in(loop) if callee_tail(c) == "get" and "_REORDER_RULES" in norm(c.func)]
    if not gets:
        raise AnalysisError("reorder_glyphs: _REORDER_RULES.get(...) lookup not found")
    # _traverse_ot_data enqueues every iterSubTables entry
    tfi = model.func("util", "_traverse_ot_data")
    tcfg = cfg_of(tfi)
    it_loops = [st for st in walk_body(tfi) if isinstance(st, ast.For) and "iterSubTables" in norm(st.iter)]
    if len(it_loops) != 1:
        raise AnalysisError("_traverse_ot_data: loop over iterSubTables() not found")
    lp = it_loops[0]
    appends = [c for c in calls_in(lp) if callee_tail(c) == "append"]
    cond = [st for st in ast.walk(lp) if isinstance(st, (ast.If, ast.Continue, ast.Break)) ]
    if len(appends) == 1 and not cond:
        rr.ok("_traverse_ot_data enqueues every iterSubTables() entry unconditionally")
    else:
        rr.bad(tfi, lp, "_traverse_ot_data filters or drops subtables: some coverage tables are never visited",
               construct=short(lp, 140))
    # the new entries are handed to the frontier function
    if find_calls(tfi, "add_to_frontier_fn"):
        rr.ok("new entries are added to the frontier")
    else:
        rr.bad(tfi, tfi.node, "new entries never reach the frontier", construct="_traverse_ot_data: no add_to_frontier_fn call")


@RULES.rule("C11", "R11c", "font is fully loaded before the glyph order changes (callee and callers)", floor=3)
def r11c(model: Model, rr: RuleResult):
    fi = model.func("reorder_glyphs", "reorder_glyphs")
    cfg = cfg_of(fi)
    sgo = find_calls(fi, "setGlyphOrder")
    if len(sgo) != 1:
        raise AnalysisError("reorder_glyphs: expected exactly one setGlyphOrder call")
    req = find_calls(fi, "require_fully_loaded")
    sgo_n = cfg.node_for(sgo[0])
    if any(cfg.dominates(cfg.node_for(r), sgo_n) and norm(r.args[0]) == norm(sgo[0].func.value) for r in req):
        rr.ok("require_fully_loaded(font) dominates font.setGlyphOrder")
    else:
        rr.bad(fi, sgo[0], "setGlyphOrder is reachable without require_fully_loaded on the same font: lazily loaded tables "
               "would be decompiled against the new order", construct=short(sgo[0]))
    # callers
    gfi = model.func("write_font", "_generate_color_font")
    gcfg = cfg_of(gfi)
    ap = [c for c in calls_in(gfi) if callee_tail(c) == "apply_ttfont"]
    if len(ap) != 1:
        raise AnalysisError("_generate_color_font: expected one apply_ttfont call")
    a = ap[0].args[-1]
    if not isinstance(a, ast.Name):
        raise AnalysisError("apply_ttfont: last argument is not a name")
    defs = gcfg.reaching(gcfg.node_for(ap[0]), a.id)
    if defs and all(d.value is not None and isinstance(d.value, ast.Call) and callee_tail(d.value) == "load_fully" for d in defs):
        rr.ok("_generate_color_font: ttfont passed to apply_ttfont comes from util.load_fully")
    else:
        rr.bad(gfi, ap[0], "the TTFont handed to apply_ttfont (which may reorder glyphs) is not the result of load_fully on every path",
               construct=short(ap[0]))
    mfi = model.func("glue_together", "main")
    mcfg = cfg_of(mfi)
    cs = find_calls(mfi, "_copy_svg")
    if len(cs) != 1:
        raise AnalysisError("glue_together.main: expected one _copy_svg call")
    a = cs[0].args[0]
    defs = mcfg.reaching(mcfg.node_for(cs[0]), a.id) if isinstance(a, ast.Name) else []
    if defs and all(d.value is not None and isinstance(d.value, ast.Call) and callee_tail(d.value) == "load_fully" for d in defs):
        rr.ok("glue_together.main: target passed to _copy_svg comes from load_fully")
    else:
        rr.bad(mfi, cs[0], "target font given to _copy_svg (reorders glyphs) is not fully loaded on every path", construct=short(cs[0]))


@RULES.rule("C11", "R11d", "argument validation raises before any mutation", floor=2)
def r11d(model: Model, rr: RuleResult):
    fi = model.func("reorder_glyphs", "reorder_glyphs")
    cfg = cfg_of(fi)
    sgo = find_calls(fi, "setGlyphOrder")
    if len(sgo) != 1:
        raise AnalysisError("reorder_glyphs: expected exactly one setGlyphOrder call")
    sgo_n = cfg.node_for(sgo[0])
    newp = fi.params[1]
    have_len = have_set = False
    for st in walk_body(fi):
        if isinstance(st, ast.If) and any(isinstance(b, ast.Raise) for b in st.body):
            t = norm(st.test)
            n = cfg.node_for(st)
            guards = cfg.dominated_by_edge(n, "F", sgo_n)
            if "len(" in t and newp in t and guards:
                have_len = True
            if "set(" in t and newp in t and guards:
                have_set = True
    if have_len:
        rr.ok("length mismatch raises before setGlyphOrder")
    else:
        rr.bad_shape(fi, fi.node, "no length check on the new glyph order guards setGlyphOrder", construct="reorder_glyphs: len check")
    if have_set:
        rr.ok("set mismatch raises before setGlyphOrder")
    else:
        rr.bad_shape(fi, fi.node, "no set-equality check on the new glyph order guards setGlyphOrder", construct="reorder_glyphs: set check")


def _perm_direction(fi, listname: str, order: str):
    """How `listname` is permuted by the argsort `order` (order[k] = old index of the element that belongs at k):
    'gather' new[k] = old[order[k]]  |  'scatter' new[order[k]] = old[k]  |  None when the idiom is not recognised."""
    found = []
    # a scratch list that is written back with `listname[:] = scratch` stands for the list itself
    aliases = {listname}
    for st in ast.walk(fi.node):
        if isinstance(st, ast.Assign) and isinstance(st.targets[0], ast.Subscript) and norm(st.targets[0].value) == listname and isinstance(st.targets[0].slice, ast.Slice) \
                and isinstance(st.value, ast.Name):
            aliases.add(st.value.id)
    for st in ast.walk(fi.node):
        # X[:] = [X[i] for i in order]  /  X[:] = [E[i] for i in order]
        if isinstance(st, ast.Assign) and isinstance(st.targets[0], ast.Subscript) and norm(st.targets[0].value) == listname and isinstance(st.targets[0].slice, ast.Slice) \
                and isinstance(st.value, ast.ListComp) and norm(st.value.generators[0].iter) == order and isinstance(st.value.elt, ast.Subscript) \
                and norm(st.value.elt.slice) == norm(st.value.generators[0].target):
            found.append("gather")
        # for a, b in enumerate(order): X[a] = E[b]   (gather)   /   X[b] = E[a]   (scatter)
        if isinstance(st, ast.For) and isinstance(st.iter, ast.Call) and norm(st.iter.func) == "enumerate" and st.iter.args and norm(st.iter.args[0]) == order \
                and isinstance(st.target, ast.Tuple) and len(st.target.elts) == 2:
            k, v = norm(st.target.elts[0]), norm(st.target.elts[1])
            for b in st.body:
                if isinstance(b, ast.Assign) and isinstance(b.targets[0], ast.Subscript) and norm(b.targets[0].value) in aliases and isinstance(b.value, ast.Subscript):
                    ti, vi = norm(b.targets[0].slice), norm(b.value.slice)
                    if (ti, vi) == (k, v):
                        found.append("gather")
                    elif (ti, vi) == (v, k):
                        found.append("scatter")
    return found


@RULES.rule("C11", "R11e", "coverage glyphs and their parallel array are permuted together, in place, on the table's own objects", floor=4)
def r11e(model: Model, rr: RuleResult):
    fi = model.func("reorder_glyphs", "_sort_by_gid")
    cfg = cfg_of(fi)
    g, pl = fi.params[1], fi.params[2]
    # idiom A: pair, sort by the glyph's id, unpair
    srt = [c for c in calls_in(fi) if norm(c.func) == "sorted"]
    pair = [c for c in srt if c.args and "zip(" in norm(c.args[0]) and g in norm(c.args[0]) and pl in norm(c.args[0])]
    argsort = [st for st in walk_body(fi) if isinstance(st, ast.Assign) and isinstance(st.value, ast.Call) and norm(st.value.func) == "sorted" and st.value.args
               and norm(st.value.args[0]).startswith("range(len(")]
    if pair:
        key = kwarg(pair[0], "key")
        k = norm(key) if key is not None else ""

        def keyed_on_glyph(key) -> bool:
            """the sort key is get_glyph_id(<first component of the pair>), as a lambda or as a named inner function"""
            gid = fi.params[0]
            if isinstance(key, ast.Lambda) and len(key.args.args) == 1:
                pn, body, pre = key.args.args[0].arg, key.body, []
            elif isinstance(key, ast.Name):
                fns = [x for x in ast.walk(fi.node) if isinstance(x, ast.FunctionDef) and x.name == key.id and x is not fi.node]
                if len(fns) != 1 or len(fns[0].args.args) != 1:
                    return False
                stmts = [x for x in fns[0].body if not (isinstance(x, ast.Expr) and isinstance(x.value, ast.Constant))]
                if not stmts or not isinstance(stmts[-1], ast.Return) or stmts[-1].value is None:
                    return False
                pn, body, pre = fns[0].args.args[0].arg, stmts[-1].value, stmts[:-1]
            else:
                return False
            if not (isinstance(body, ast.Call) and norm(body.func) == gid and len(body.args) == 1 and not body.keywords):
                return False
            a = body.args[0]
            if norm(a) == f"{pn}[0]":
                return True
            if isinstance(a, ast.Name) and len(pre) == 1 and isinstance(pre[0], ast.Assign) and isinstance(pre[0].targets[0], (ast.Tuple, ast.List)) \
                    and norm(pre[0].value) == pn and pre[0].targets[0].elts and norm(pre[0].targets[0].elts[0]) == a.id:
                return True
            return False
        if keyed_on_glyph(key) or ("get_glyph_id" in k and "[0]" in k):
            rr.ok("glyphs and parallel entries are zipped, sorted by the glyph's id, and unzipped: one permutation for both")
        else:
            rr.bad(fi, pair[0], f"paired (glyph, entry) tuples are sorted by {k or 'their natural order'}, not by the glyph's id", construct=f"_sort_by_gid: sort key {k}")
        unz = [st for st in walk_body(fi) if isinstance(st, ast.Assign) and "zip(*" in norm(st.value)]
        if unz and isinstance(unz[0].targets[0], ast.Tuple) and len(unz[0].targets[0].elts) == 2:
            a, b = [norm(x) for x in unz[0].targets[0].elts]
            un_at = cfg.node_for(unz[0])
            sa = [st for st in walk_body(fi) if isinstance(st, ast.Assign) and norm(st.targets[0]) == f"{g}[:]" and cfg.path_exists(un_at, cfg.node_for(st))]
            sb = [st for st in ast.walk(fi.node) if isinstance(st, ast.Assign) and norm(st.targets[0]) == f"{pl}[:]"]
            if b == f"{pl}[:]":
                sb, b = [unz[0]], norm(unz[0].value)  # unpacked straight into the slice: written in place by the unzip itself
            ok = sb and norm(sb[0].value) == b and sa and a in {norm(d.value) if d.value is not None else a for d in cfg.reaching(cfg.node_for(sa[0]), norm(sa[0].value))} | {norm(sa[0].value)}
            if ok:
                rr.ok(f"both lists are updated in place ({g}[:] = ..., {pl}[:] = ...) from the same unzipped pairing")
            else:
                rr.bad(fi, fi.node, "the unzipped halves are not written back in place to their own lists", construct="_sort_by_gid: write-back")
        else:
            raise AnalysisError("_sort_by_gid: unzip step not in the enumerated shape")
    elif argsort:
        order = norm(argsort[0].targets[0])
        dg = _perm_direction(fi, g, order)
        dp = _perm_direction(fi, pl, order)
        if not dg or not dp:
            raise AnalysisError("_sort_by_gid: argsort idiom recognised but how the lists are permuted is not")
        if set(dg) == set(dp) and len(set(dg)) == 1:
            if dg[0] == "gather":
                rr.ok("argsort idiom: glyphs and parallel entries are both gathered by the same index order")
            else:
                rr.bad(fi, fi.node, "both lists are scattered by an argsort (inverse permutation): coverage is not in glyph id order", construct="_sort_by_gid: scatter by argsort")
        else:
            rr.bad(fi, fi.node, f"glyphs are permuted by {dg} but the parallel array by {dp} (the inverse permutation): for any 3-cycle the coverage-indexed "
                   f"records are attached to the wrong glyphs", construct=f"_sort_by_gid: glyphs {dg} vs parallel {dp}")
    else:
        # idiom C: sort the glyphs alone, then look every entry up by position:  pl[:] = [pl[A.index(x)] for x in B]
        sg = [st for st in walk_body(fi) if isinstance(st, ast.Assign) and isinstance(st.targets[0], ast.Name) and isinstance(st.value, ast.Call) and norm(st.value.func) == "sorted"
              and st.value.args and norm(st.value.args[0]) == g]
        look = [st for st in ast.walk(fi.node) if isinstance(st, ast.Assign) and norm(st.targets[0]) == f"{pl}[:]" and isinstance(st.value, ast.ListComp)
                and len(st.value.generators) == 1 and isinstance(st.value.elt, ast.Subscript) and norm(st.value.elt.value) == pl
                and isinstance(st.value.elt.slice, ast.Call) and callee_tail(st.value.elt.slice) == "index"]
        if not (sg and look):
            raise AnalysisError("_sort_by_gid: neither the pair-sort, the argsort nor the index-lookup idiom")
        sname = sg[0].targets[0].id
        lc = look[0].value
        searched, over = norm(lc.elt.slice.func.value), norm(lc.generators[0].iter)
        if (searched, over) == (g, sname):
            wg = [st for st in walk_body(fi) if isinstance(st, ast.Assign) and norm(st.targets[0]) == f"{g}[:]"]
            if wg and cfg.path_exists(cfg.node_for(wg[0]), cfg.node_for(look[0])):
                rr.bad(fi, look[0], f"the entries are looked up in {g} after {g}[:] was already overwritten with the sorted order: the parallel array is left unpermuted",
                       construct="_sort_by_gid: lookup after the glyph list was overwritten")
            else:
                rr.ok(f"index idiom: new entry i is the old entry of the glyph now at i ({pl}[{g}.index(x)] for x in {sname})")
        elif (searched, over) == (sname, g):
            rr.bad(fi, look[0], f"the parallel array is rebuilt as [{pl}[{sname}.index(x)] for x in {g}]: that applies the INVERSE of the sorting permutation (entry i becomes the old entry at the "
                   f"sorted rank of old glyph i); for any 3-cycle the coverage-indexed records are attached to the wrong glyphs", construct="_sort_by_gid: parallel array permuted by the inverse permutation")
        else:
            raise AnalysisError("_sort_by_gid: index-lookup idiom over unexpected lists")
    # the caller passes the table's own list objects (in-place update is what makes the change visible to the font)
    afi = model.func("reorder_glyphs", "ReorderCoverage.apply")
    acfg = cfg_of(afi)
    calls = find_calls(afi, "_sort_by_gid")
    if len(calls) != 2:
        raise AnalysisError("ReorderCoverage.apply: expected two _sort_by_gid calls")
    main = [c for c in calls if norm(c.args[2]) != "None"]
    if len(main) != 1:
        raise AnalysisError("ReorderCoverage.apply: parallel-list call not found")
    c = main[0]
    if norm(c.args[0]) == "font.getGlyphID" and norm(c.args[1]) == "coverage.glyphs":
        rr.ok("sorted by the font's (new) glyph ids, on coverage.glyphs itself")
    else:
        rr.bad(afi, c, "_sort_by_gid is not applied to coverage.glyphs with font.getGlyphID", construct=short(c))
    defs = acfg.reaching(acfg.node_for(c), norm(c.args[2]))
    okd = bool(defs)
    from ..dataflow import values_through_new_helper
    for d in defs:
        for v in (values_through_new_helper(model, afi, d.value) if d.value is not None else [None]):
            if isinstance(v, ast.Constant) and v.value is None:
                continue
            if isinstance(v, ast.Call) and norm(v.func) == "_get_dotted_attr" and [norm(a) for a in v.args] == ["value", "self.parallel_list_attr"]:
                continue
            okd = False
    setters = [x for x in calls_in(afi) if norm(x.func) == "setattr"]
    if okd and not setters:
        rr.ok("the parallel list handed to _sort_by_gid is the table's own list object (resolved through the dotted path); it is updated in place")
    elif setters:
        rr.bad(afi, setters[0], "the sorted parallel list is written back with setattr(value, <attr>): for dotted paths such as 'MarkArray.MarkRecord' that creates a "
               "junk attribute and leaves the real nested array in its old order", construct=short(setters[0]))
    else:
        rr.bad_shape(afi, c, "a copy of the parallel list is sorted: the table's own array keeps its old order while its coverage is re-sorted",
               construct=f"_sort_by_gid(..., {short(c.args[2])}) <- {[short(d.value) for d in defs]}")
    lfi = model.func("reorder_glyphs", "ReorderList.apply")
    t = " ".join(norm(st) for st in lfi.body)
    if "lst = _get_dotted_attr(value, self.list_attr)" in t and "lst.sort(key=lambda v: font.getGlyphID(getattr(v, self.key)))" in t:
        rr.ok("ReorderList sorts the table's own list in place by the key glyph's id")
    else:
        rr.bad_shape(lfi, lfi.node, "ReorderList no longer sorts the table's own list in place by glyph id", construct="ReorderList.apply")


@RULES.rule("C11", "R11f", "every element is visited: no loop of the reordering pass can stop early", floor=4)
def r11f(model: Model, rr: RuleResult):
    targets = [("reorder_glyphs", "reorder_glyphs"), ("reorder_glyphs", "ReorderCoverage.apply"), ("util", "_traverse_ot_data")]
    n = 0
    for mod, qn in targets:
        fi = model.func(mod, qn)
        loops = [st for st in walk_body(fi) if isinstance(st, (ast.For, ast.While))]
        for lp in loops:
            n += 1
            exits = []
            todo = list(lp.body)
            while todo:
                x = todo.pop()
                if isinstance(x, (ast.FunctionDef, ast.AsyncFunctionDef, ast.Lambda, ast.ClassDef)):
                    continue
                if isinstance(x, ast.Return) or (isinstance(x, ast.Break)):
                    exits.append(x)
                if isinstance(x, (ast.For, ast.While)) and x is not lp:
                    # a break inside a nested loop leaves that loop only; returns still leave the function
                    todo.extend(y for st in x.body + x.orelse for y in ast.walk(st) if isinstance(y, ast.Return))
                    continue
                todo.extend(ast.iter_child_nodes(x))
            if exits:
                rr.bad(fi, exits[0], f"`{short(exits[0])}` inside `{short(lp, 60)}` ends the pass at the first element that meets its condition: every later "
                       f"coverage / subtable / table keeps the old glyph order", construct=f"{qn}: {type(exits[0]).__name__.lower()} inside loop `{short(lp, 50)}`")
            else:
                rr.ok(f"{qn}: `{short(lp, 60)}` has no early exit")
    if n < 4:
        raise AnalysisError(f"R11f: only {n} loops found in the reordering pass")
    # the walker yields every table it dequeues and enqueues every child: nothing is filtered (forward offsets cannot cycle; `in` on a list of tables
    # would compare by *content*, so a twin subtable would be skipped)
    tfi = model.func("util", "_traverse_ot_data")
    tcfg = cfg_of(tfi)
    ys = [x for x in walk_body(tfi) if isinstance(x, (ast.Yield, ast.YieldFrom))]
    if len(ys) != 1:
        raise AnalysisError("_traverse_ot_data: expected one yield")
    ystmt = next(st for st in walk_body(tfi) if isinstance(st, ast.Expr) and st.value is ys[0])
    wtests = {id(w.test) for w in walk_body(tfi) if isinstance(w, ast.While)} | {id(w.iter) for w in walk_body(tfi) if isinstance(w, ast.For)}
    loop_texts = {norm(w.test) for w in walk_body(tfi) if isinstance(w, ast.While)} | {"deque()", "frontier"}
    from ..dataflow import expr_closure as _ec
    for w in walk_body(tfi):
        if isinstance(w, ast.While):
            loop_texts |= {norm(x) for x in _ec(tcfg, tcfg.node_for(w), w.test)[1]}
    yfacts = [(norm(e), pol) for e, pol in guard_facts(tcfg, tcfg.node_for(ystmt)) if id(e) not in wtests and norm(e) not in loop_texts]
    conts = [x for x in walk_body(tfi) if isinstance(x, ast.Continue)]
    app = [c for c in calls_in(tfi) if callee_tail(c) == "append" and norm(c.func.value) == "new_entries"]
    afacts = [(norm(e), pol) for c in app for e, pol in guard_facts(tcfg, tcfg.node_for(c)) if id(e) not in wtests and norm(e) not in loop_texts]
    if not yfacts and not conts and app and not afacts:
        rr.ok("_traverse_ot_data yields every dequeued table and enqueues every sub-table unconditionally")
    else:
        (rr.bad if (conts or yfacts or afacts) else rr.bad_shape)(tfi, conts[0] if conts else ystmt, f"_traverse_ot_data skips tables ({[f for f, _ in yfacts + afacts] or 'continue'}): a sub-table that compares equal to one already seen "
               f"(BaseTable.__eq__ compares content) is never handed to the reorder rules and keeps the old glyph order", construct="_traverse_ot_data: conditional yield/enqueue")


SET_GLYPH_ORDER_OK = {
    ("reorder_glyphs", "reorder_glyphs"): "the reordering pass itself: followed by the walk over GDEF/GPOS/GSUB/MATH",
    ("glue_together", "_copy_colr"): "appends new glyphs at the end: no existing glyph changes its id (R12e checks the operand)",
}


@RULES.rule("C11", "R11g", "a compiled font's glyph order is changed only by reorder_glyphs (which re-sorts the layout tables) or by appending", floor=2)
def r11g(model: Model, rr: RuleResult):
    """TTFont.setGlyphOrder renumbers glyphs but leaves every coverage-sorted structure in the old order.  A caller that applies the new order itself
    makes reorder_glyphs see an already-reordered font (and a harmless 'nothing to do' shortcut there would then skip the whole pass)."""
    seen = 0
    for mname, mod in sorted(model.modules.items()):
        for fi in mod.functions.values():
            if "." in fi.qualname and fi.qualname.rsplit(".", 1)[0] in mod.functions:
                continue
            for c in calls_in(fi, nested=True):
                if callee_tail(c) != "setGlyphOrder":
                    continue
                seen += 1
                why = SET_GLYPH_ORDER_OK.get((mname, fi.qualname))
                a_ = norm(c.args[0]) if c.args else ""
                if why is None and a_.startswith(f"{norm(c.func.value)}.getGlyphOrder() + "):
                    rr.ok(f"{mname}.{fi.qualname}: {short(c, 70)} appends to the existing order (no existing glyph id moves)")
                elif why is None:
                    rr.bad(fi, c, f"{short(c, 60)} in {mname}.{fi.qualname}: the glyph order of a compiled font is changed outside reorder_glyphs; GSUB/GPOS/GDEF/MATH coverages and "
                           f"their parallel arrays keep the old order (or reorder_glyphs, called afterwards, finds nothing left to move)", construct=f"{mname}.{fi.qualname}: setGlyphOrder")
                elif (mname, fi.qualname) == ("glue_together", "_copy_colr"):
                    a = norm(c.args[0]) if c.args else ""
                    recv = norm(c.func.value)
                    if a.startswith(f"{recv}.getGlyphOrder() + "):
                        rr.ok(f"{mname}.{fi.qualname}: {short(c, 70)} appends to the existing order")
                    else:
                        rr.bad(fi, c, f"{short(c, 70)} is not `old order + new glyphs`: existing glyph ids would move without the layout tables being re-sorted", construct="_copy_colr: setGlyphOrder operand")
                else:
                    rr.ok(f"{mname}.{fi.qualname}: {why}")
    if seen < 2:
        raise AnalysisError(f"R11g: only {seen} setGlyphOrder call(s) found")
    # inside reorder_glyphs the table walk follows setGlyphOrder on every path
    fi = model.func("reorder_glyphs", "reorder_glyphs")
    cfg = cfg_of(fi)
    sgo = [c for c in calls_in(fi) if callee_tail(c) == "setGlyphOrder"]
    loops = [st for st in walk_body(fi) if isinstance(st, ast.For) and any(callee_tail(c) == "apply" for c in calls_in(st, nested=True))]
    if len(sgo) == 1 and len(loops) >= 1 and cfg.dominates(cfg.node_for(sgo[0]), cfg.node_for(loops[0])) and cfg.postdominates(cfg.node_for(loops[0]), cfg.node_for(sgo[0])):
        rr.ok("reorder_glyphs: setGlyphOrder is always followed by the walk that applies the reorder rules")
    else:
        rr.bad_shape(fi, fi.node, "reorder_glyphs can set the new glyph order without walking the layout tables", construct="reorder_glyphs: setGlyphOrder not followed by the rule loop")


@RULES.rule("C11", "R11h", "load_fully really loads: a font is (re)opened with lazy=False before the layout tables are walked", floor=2)
def r11h(model: Model, rr: RuleResult):
    fi = model.func("util", "load_fully")
    rl = model.func("util", "_reload")
    from ..model import arg as _arg11
    opens = [c for c in calls_in(fi) if callee_tail(c) == "TTFont"]
    reloads = [c for c in calls_in(fi) if callee_tail(c) == "_reload"]
    if not reloads or not opens:
        rr.bad_shape(fi, fi.node, "load_fully does not open a path / reload a lazily opened font", construct="load_fully: TTFont / _reload")
        return
    for c in opens:
        lz = kwarg(c, "lazy")
        if lz is not None and norm(lz) == "False":
            rr.ok("load_fully(Path): TTFont(..., lazy=False)")
        else:
            rr.bad(fi, c, "a font given by path is opened lazily: tables keep undecoded readers that the reorder pass does not see", construct=f"load_fully: {short(c)}")
    default = None
    a_ = rl.node.args
    pos = [x.arg for x in a_.args]
    if "lazy" in pos and len(a_.defaults) >= len(pos) - pos.index("lazy"):
        default = a_.defaults[pos.index("lazy") - (len(pos) - len(a_.defaults))]
    cfg_ = cfg_of(fi)
    for c in reloads:
        # the reload must be what happens to EVERY lazily opened font: an alternative that finishes loading in place does not reach Ligature / LazyList records
        alt = [x for x in calls_in(fi) if callee_tail(x) == "ensureDecompiled"]
        extra = [(norm(t), pol) for t, pol in guard_facts(cfg_, cfg_.node_for(c)) if "lazy" not in norm(t) and "isinstance" not in norm(t)]
        if alt and extra:
            rr.bad(fi, alt[0], f"a lazily opened font is only reloaded when {extra}; otherwise load_fully calls {short(alt[0], 50)}, which (fontTools <= 4.x) does not descend into lazily "
                   f"built record lists: their glyph ids are resolved against the NEW glyph order at save time", construct="load_fully: ensureDecompiled instead of reload")
    for c in reloads:
        lz = _arg11(c, 1, "lazy")
        eff = lz if lz is not None else default
        if eff is not None and norm(eff) == "False":
            rr.ok("a lazily opened TTFont is reloaded with lazy=False")
        else:
            rr.bad(fi, c, f"{short(c)} reloads the font with lazy={norm(eff) if eff is not None else '?'}: COLR v1 sub-tables and long record arrays stay undecoded, the reorder pass "
                   f"skips them and they are decoded against the NEW glyph order at save time", construct=f"load_fully: {short(c)} lazy")
