"""C12 — maximum_color adds colour tables without altering the font (structural clauses)."""
from __future__ import annotations

import ast
import re
from typing import Dict, List, Optional, Set

from ..cfg import cfg_of
from ..dataflow import expr_closure
from ..guards import guard_facts
from ..model import (AnalysisError, Model, calls_in, callee_tail, find_calls, kwarg, names_in, norm, short, walk_body)
from ..ninja import extract
from ..report import RULES, RuleResult
from .c09 import check_bound_variables, check_declared_inputs


@RULES.rule("C12", "R12b", "rule variables bound / path variables declared (maximum_color.py)", floor=14)
def r12b(model: Model, rr: RuleResult):
    check_bound_variables(model, "maximum_color", rr)
    check_declared_inputs(model, "maximum_color", rr)
    # WriteFontInputs field names are exactly the $names of the write_font rule
    rules, _ = extract(model, "maximum_color")
    wf = [r for r in rules if r.name == "write_font"]
    if len(wf) != 1:
        raise AnalysisError("maximum_color: write_font rule not found")
    fields = set(model.mod("maximum_color").cls("WriteFontInputs").field_names())
    need = wf[0].vars - {"in", "out"}
    if fields == need:
        rr.ok(f"WriteFontInputs fields == write_font rule variables {sorted(need)}")
    else:
        rr.bad(wf[0].fi, wf[0].call, f"WriteFontInputs fields {sorted(fields)} != $variables of the write_font rule {sorted(need)}",
               construct=f"WriteFontInputs {sorted(fields)} vs rule {sorted(need)}")


@RULES.rule("C12", "R12a", "stages are threaded: keep_glyph_names first, each stage consumes the previous output, flags reach edges", floor=8)
def r12a(model: Model, rr: RuleResult):
    fi = model.func("maximum_color", "_run")
    cfg = cfg_of(fi)
    defs = [d for d in cfg.all_defs("wip_file")]
    if len(defs) < 3:
        raise AnalysisError("maximum_color._run: wip_file threading not found")
    # order the definitions by dominance: first = _keep_glyph_names
    first = [d for d in defs if not cfg.reaching(d.node, "wip_file")]
    if len(first) != 1 or not (isinstance(first[0].value, ast.Call) and callee_tail(first[0].value) == "_keep_glyph_names"):
        rr.bad(fi, fi.node, "the first stage is not _keep_glyph_names(nw, input_file): glyph names are not frozen before colour tables are built",
               construct="_run: first wip_file definition")
    else:
        a = first[0].value.args
        if len(a) > 1 and norm(a[1]) == "input_file":
            rr.ok("stage 1: wip_file = _keep_glyph_names(nw, input_file)")
        else:
            rr.bad(fi, first[0].value, "_keep_glyph_names is not applied to the input font", construct=short(first[0].value))
    for d in defs:
        if d in first:
            continue
        v = d.value
        if not isinstance(v, ast.Call):
            rr.bad(fi, d.stmt, "wip_file re-bound from something that is not a stage call", construct=short(d.stmt))
            continue
        argn = [norm(x) for x in v.args]
        if "wip_file" in argn:
            rr.ok(f"stage {callee_tail(v)} consumes the previous stage's output (wip_file) and re-binds it")
        else:
            rr.bad(fi, v, f"stage {callee_tail(v)} does not receive the previous stage's output: an earlier colour table is lost or the stage "
                   f"works on the wrong font", construct=short(v, 120))
    # the CBDT stage maps gid-numbered files back to names through the font given as its input_font: that font must still have the
    # glyph order the files were numbered in (the original input, or the name-frozen copy), never a stage output (SVG donation reorders)
    cb = [c for c in calls_in(fi) if callee_tail(c) == "_generate_cbdt"]
    if len(cb) == 1 and len(cb[0].args) >= 2:
        a = cb[0].args[1]
        okc = norm(a) == "input_file"
        if isinstance(a, ast.Name) and a.id == "wip_file":
            ds = cfg.reaching(cfg.node_for(cb[0]), "wip_file")
            okc = bool(ds) and all(isinstance(d.value, ast.Call) and callee_tail(d.value) == "_keep_glyph_names" for d in ds)
        if okc:
            rr.ok("CBDT stage numbers glyphs by the original glyph order (input font), not by a reordered stage output")
        else:
            rr.bad(fi, cb[0], f"the CBDT stage receives {short(a)} as the font whose glyph order names the gid-numbered picosvg/bitmap files, but that font is the "
                   f"output of an earlier stage (SVG donation reorders glyphs): bitmaps land on the wrong glyph names", construct=f"_generate_cbdt(nw, {short(a)}, ...)")
    # final edges read wip_file; keep_glyph_names selects copy vs strip
    finals = []
    for st in walk_body(fi):
        if isinstance(st, ast.If) and "keep_glyph_names" in norm(st.test):
            finals.append(st)
    if len(finals) > 1:
        finals = [f for f in finals if any(callee_tail(c) in ("_strip_glyph_names",) or (callee_tail(c) == "build" and "'copy'" in norm(c)) for c in calls_in(f, nested=True))][:1] or finals
    if len(finals) != 1:
        raise AnalysisError("_run: final keep_glyph_names branch not found")
    st = finals[0]
    _, texprs = expr_closure(cfg, cfg.node_for(st), st.test)
    ttxt = " ".join(norm(e) for e in texprs)
    if "formatType" in ttxt or "['post']" in ttxt or "FLAGS.keep_glyph_names" in ttxt and "config.load()" not in ttxt:
        rr.bad(fi, st, f"whether the final font keeps its glyph names depends on {short(st.test, 60)} (resolved: the raw flag / the input font's post table), not on the "
               f"resolved configuration: an input with a format 2 post table comes back with post 2.0 and every pipeline-internal glyph name although names were not requested",
               construct="maximum_color._run: final copy/strip decision not taken from config.load().keep_glyph_names")
    tb = [c for b in st.body for c in calls_in(b)]
    fb = [c for b in st.orelse for c in calls_in(b)]
    t_copy = [c for c in tb if callee_tail(c) == "build" and len(c.args) > 2 and norm(c.args[1]) == "'copy'" and norm(c.args[2]) == "wip_file" and norm(c.args[0]) == "final_output"]
    f_strip = [c for c in fb if callee_tail(c) == "_strip_glyph_names" and [norm(a) for a in c.args[1:3]] == ["wip_file", "final_output"]]
    neg = isinstance(st.test, ast.UnaryOp)
    if neg:
        t_copy, f_strip = ([c for c in fb if callee_tail(c) == "build" and "copy" in norm(c) and "wip_file" in norm(c)],
                           [c for c in tb if callee_tail(c) == "_strip_glyph_names" and "wip_file" in norm(c)])
    if t_copy and f_strip:
        rr.ok("keep_glyph_names -> copy(wip_file -> final_output); otherwise strip_glyph_names(wip_file -> final_output)")
    else:
        rr.bad(fi, st, "the final step does not select copy (names kept) vs strip_glyph_names (names stripped) on the last stage's output",
               construct=short(st, 140))
    # --bitmaps and --colr_version reach an edge
    bm = [s2 for s2 in walk_body(fi) if isinstance(s2, ast.If) and norm(s2.test) == "FLAGS.bitmaps"]
    if bm and any(callee_tail(c) == "_generate_cbdt" for c in calls_in(bm[0])):
        rr.ok("--bitmaps controls the CBDT stage")
    else:
        rr.bad(fi, fi.node, "--bitmaps does not control a CBDT stage", construct="_run: FLAGS.bitmaps")
    cv = [c for c in calls_in(fi) if callee_tail(c) == "_generate_colr_from_svg"]
    if cv and any(norm(a) == "FLAGS.colr_version" for a in cv[0].args):
        rr.ok("--colr_version is passed to the COLR stage")
    else:
        rr.bad(fi, fi.node, "--colr_version does not reach the COLR stage", construct="_run: FLAGS.colr_version")
    # inside the stage: version -> table_version -> WriteFontInputs.for_tag -> basename -> color_format
    g = model.func("maximum_color", "_generate_colr_from_svg")
    c = find_calls(g, "_generate_additional_color_table")
    if len(c) == 1 and kwarg(c[0], "table_version") is not None and norm(kwarg(c[0], "table_version")) == g.params[-1]:
        rr.ok("_generate_colr_from_svg forwards colr_version as table_version")
    else:
        rr.bad_shape(g, g.node, "colr_version is not forwarded as table_version", construct="_generate_colr_from_svg: table_version")
    cf = model.func("maximum_color", "WriteFontInputs.color_format")
    ok = any(isinstance(n, ast.JoinedStr) and "glyf_colr_" in norm(n) and "table_version" in norm(n) for n in ast.walk(cf.node))
    if ok:
        rr.ok("WriteFontInputs.color_format = glyf_colr_{table_version}")
    else:
        rr.bad(cf, cf.node, "color_format no longer follows the requested COLR version", construct="WriteFontInputs.color_format")
    # glue target: each stage glues onto the font it was given
    ga = model.func("maximum_color", "_generate_additional_color_table")
    gl = [c2 for c2 in find_calls(ga, "build") if len(c2.args) > 1 and norm(c2.args[1]) == "'glue_together'"]
    if len(gl) != 1:
        raise AnalysisError("_generate_additional_color_table: glue_together edge not found")
    vars_ = kwarg(gl[0], "variables")
    tv = {k.value: norm(v) for k, v in zip(vars_.keys, vars_.values)} if isinstance(vars_, ast.Dict) else {}
    rets = [s2 for s2 in walk_body(ga) if isinstance(s2, ast.Return)]
    if tv.get("target_font") == "glue_target" and rets and norm(rets[0].value) == norm(gl[0].args[0]):
        rr.ok("glue_together: $target_font = glue_target; the stage returns the glued font")
    else:
        rr.bad(ga, gl[0], "glue_together edge does not glue onto the given target or the stage does not return the glued font", construct=short(gl[0], 140))
    for stage, pos in (("_generate_svg_from_colr", 4), ("_generate_colr_from_svg", 4), ("_generate_cbdt", 4)):
        sf = model.func("maximum_color", stage)
        cc = find_calls(sf, "_generate_additional_color_table")
        if len(cc) != 1:
            raise AnalysisError(f"{stage}: call to _generate_additional_color_table not found")
        tgt = cc[0].args[pos] if len(cc[0].args) > pos else kwarg(cc[0], "glue_target")
        want = "color_font" if stage == "_generate_cbdt" else "input_font"
        if tgt is not None and norm(tgt) == want:
            rr.ok(f"{stage}: glue target is {want} (the font handed to the stage)")
        else:
            rr.bad(sf, cc[0], f"{stage} glues the new table onto {short(tgt)} instead of the font handed to the stage ({want})", construct=short(cc[0], 140))


def _fstring_template(node: ast.AST) -> Optional[str]:
    if isinstance(node, ast.JoinedStr):
        s = ""
        for v in node.values:
            if isinstance(v, ast.Constant):
                s += str(v.value)
            elif isinstance(v, ast.FormattedValue):
                spec = ""
                if v.format_spec is not None:
                    spec = ":" + "".join(x.value for x in v.format_spec.values if isinstance(x, ast.Constant))
                s += "{" + norm(v.value) + spec + "}"
        return s
    if isinstance(node, ast.Constant) and isinstance(node.value, str):
        return node.value
    return None


@RULES.rule("C12", "R12c", "gid-named files: driver's declared outputs, extractors' file names and the glyphmap's gid lookup agree", floor=5)
def r12c(model: Model, rr: RuleResult):
    pats = {}
    sites = [("maximum_color", "_generate_svg_from_colr", "svg_generate_dir"), ("maximum_color", "_generate_colr_from_svg", "svg_extract_dir"),
             ("generate_svgs_from_colr", "main", None), ("extract_svgs_from_otsvg", "main", None)]
    for modname, fn, d in sites:
        fi = model.func(modname, fn)
        found = None
        for n in walk_body(fi, nested=True):
            if isinstance(n, ast.JoinedStr):
                t = _fstring_template(n)
                if t and t.endswith(".svg") and len(n.values) >= 2 and isinstance(n.values[0], ast.FormattedValue) and isinstance(n.values[0].value, ast.Name):
                    # the placeholder's name is the loop variable of the site: only the format matters for agreement
                    t = "{gid" + t[len("{" + n.values[0].value.id):]
                    found = (t, n)
        if found is None:
            raise AnalysisError(f"{modname}.{fn}: gid file-name pattern not found")
        pats[(modname, fn)] = found[0]
        if d is not None:
            # the pattern is joined to the directory the matching rule passes as --output_dir
            par = None
            for n in walk_body(fi, nested=True):
                if isinstance(n, ast.BinOp) and isinstance(n.op, ast.Div) and n.right is found[1]:
                    from ..dataflow import deref as _d12
                    _c12 = cfg_of(fi)
                    try:
                        par = norm(_d12(_c12, _c12.node_for(n), n.left))
                    except Exception:
                        par = norm(n.left)
            if par is None or d not in par:
                rr.bad(fi, found[1], f"{fn}: declared outputs are not under {d}()", construct=f"{fn}: outputs dir {par}")
            else:
                rr.ok(f"{fn}: declared outputs {d}()/{found[0]}")
    if len(set(pats.values())) == 1:
        rr.ok(f"driver and both extractors agree on the file-name pattern {next(iter(pats.values()))}")
    else:
        rr.bad(model.mod("maximum_color"), model.mod("maximum_color").tree, f"gid file-name patterns differ: {pats}", construct=f"gid patterns {sorted(set(pats.values()))}")
    # the rules' --output_dir
    rules, _ = extract(model, "maximum_color")
    for rname, d in (("generate_svgs_from_colr", "svg_generate_dir"), ("extract_svgs_from_otsvg", "svg_extract_dir")):
        r = [x for x in rules if x.name == rname]
        if len(r) != 1:
            raise AnalysisError(f"rule {rname} not found")
        txt = " ".join(norm(e) for e in r[0].command_exprs)
        if f"--output_dir {{rel_build({d}())}}" in txt.replace("'", ""):
            rr.ok(f"rule {rname}: --output_dir {d}()")
        else:
            rr.bad(r[0].fi, r[0].call, f"rule {rname} does not write to {d}()", construct=f"rule {rname} output_dir")
    # glyphmap: gid -> glyph name through the source font's glyph order
    g = model.func("write_glyphmap_for_glyph_svgs", "main")
    gcfg = cfg_of(g)
    gm = [c for c in calls_in(g) if norm(c.func) == "GlyphMapping"]
    if len(gm) != 1:
        raise AnalysisError("write_glyphmap_for_glyph_svgs: GlyphMapping(...) not found")
    gn = kwarg(gm[0], "glyph_name")
    ok = False
    sl = gn.slice if isinstance(gn, ast.Subscript) else None
    if sl is not None and isinstance(sl, ast.Call) and norm(sl.func) == "int" and len(sl.args) == 1 and isinstance(sl.args[0], ast.Attribute) \
            and sl.args[0].attr == "stem" and norm(sl.args[0].value) == norm(kwarg(gm[0], "svg_file")):
        defs = gcfg.reaching(gcfg.node_for(gm[0]), norm(gn.value))
        if defs and all(d.value is not None and "getGlyphOrder" in norm(d.value) and "source_font" in norm(d.value) for d in defs):
            ok = True
    if ok:
        rr.ok("glyphmap: glyph_name = glyph_order[int(svg_file.stem)] with glyph_order from the source font")
    else:
        rr.bad(g, gm[0], "glyph name is not looked up by the numeric file stem in the source font's glyph order", construct=short(gm[0], 140))
    srt = [c for c in calls_in(g) if norm(c.func) == "sorted"]
    if srt and kwarg(srt[0], "key") is not None and ".stem" in norm(kwarg(srt[0], "key")) and kwarg(srt[0], "reverse") is not None and norm(kwarg(srt[0], "reverse")) == "True" \
            and any(callee_tail(c) == "pop" and not c.args for c in calls_in(g)):
        rr.ok("inputs are sorted by stem (descending) and consumed from the end: a glyph's .png is immediately followed by its .svg")
    else:
        rr.bad(g, g.node, "the .png/.svg files of one glyph are no longer paired by sorting on the file stem", construct="write_glyphmap_for_glyph_svgs: stem sort")
    asr = [st for st in ast.walk(g.node) if isinstance(st, ast.Assert) and "int(svg_file.stem) == int(bitmap_file.stem)" in norm(st.test).replace("\n", "")]
    if asr:
        rr.ok("bitmap and svg of a row are asserted to carry the same gid")
    else:
        rr.bad(g, g.node, "bitmap/svg gid agreement is no longer asserted", construct="write_glyphmap_for_glyph_svgs: stem assert")
    cps = kwarg(gm[0], "codepoints")
    if cps is not None and norm(cps) == "()":
        rr.ok("glyphmap rows carry no codepoints (cmap of the input font is kept)")
    else:
        rr.bad(g, gm[0], "glyphmap rows for maximum_color must not assign codepoints", construct=f"codepoints={short(cps)}")


@RULES.rule("C12", "R12d", "mergeable config copies upem/ascender/descender from the same tables its siblings read; width 0; names kept", floor=7)
def r12d(model: Model, rr: RuleResult):
    fi = model.func("write_config_for_mergeable", "main")
    cfg = cfg_of(fi)
    tmpl = None
    for n in walk_body(fi):
        if isinstance(n, ast.JoinedStr):
            t = _fstring_template(n)
            if t and "upem" in t:
                tmpl = (t, n)
    if tmpl is None:
        raise AnalysisError("write_config_for_mergeable: TOML template not found")
    kv = {}
    for line in tmpl[0].splitlines():
        m = re.match(r"\s*([a-z_]+)\s*=\s*([^#]+?)\s*(#.*)?$", line)
        if m:
            kv[m.group(1)] = m.group(2).strip()
    src = {"upem": ("head", "unitsPerEm"), "ascender": ("OS/2", "sTypoAscender"), "descender": ("OS/2", "sTypoDescender")}
    for key, (tab, attr) in src.items():
        v = kv.get(key)
        m = re.match(r"^\{(\w+)\}$", v or "")
        good = False
        if m:
            defs = cfg.reaching(cfg.node_for(tmpl[1]), m.group(1))
            good = bool(defs) and all(d.value is not None and tab in norm(d.value) and norm(d.value).endswith("." + attr) for d in defs)
        if good:
            rr.ok(f"config {key} = font['{tab}'].{attr}")
        else:
            rr.bad(fi, tmpl[1], f"mergeable config '{key}' ({v}) is not copied from {tab}.{attr} of the input font: glyph placement in the "
                   f"generated table would not match the input font's metrics", construct=f"mergeable config {key} = {v}")
    for key, want in (("width", "0"), ("keep_glyph_names", "true")):
        if kv.get(key) == want:
            rr.ok(f"config {key} = {want}")
        else:
            rr.bad(fi, tmpl[1], f"mergeable config must set {key} = {want} (found {kv.get(key)})", construct=f"mergeable config {key} = {kv.get(key)}")
    if kv.get("color_format", "").strip('"') == "{FLAGS.color_format}":
        rr.ok("config color_format = --color_format")
    else:
        rr.bad(fi, tmpl[1], "mergeable config does not take the requested colour format", construct=f"mergeable config color_format = {kv.get('color_format')}")
    # siblings read the same OS/2 fields
    for modname, fn in (("colr_to_svg", "glyph_region"), ("extract_svgs_from_otsvg", "main")):
        sf = model.func(modname, fn)
        t = " ".join(norm(n) for n in walk_body(sf) if isinstance(n, ast.Attribute))
        if "sTypoAscender" in t and "sTypoDescender" in t:
            rr.ok(f"{modname}.{fn} reads OS/2.sTypoAscender/sTypoDescender (same as the mergeable config)")
        else:
            rr.bad(sf, sf.node, f"{modname}.{fn} does not derive the em box from OS/2.sTypoAscender/sTypoDescender while the mergeable config does",
                   construct=f"{modname}.{fn}: em box source")


@RULES.rule("C12", "R12e", "donation: COLR copies the referenced glyphs and fixes glyph order once; SVG reorders first; CBDT checks names", floor=6)
def r12e(model: Model, rr: RuleResult):
    fi = model.func("glue_together", "_copy_colr")
    cfg = cfg_of(fi)
    gdefs = cfg.all_defs("glyphs_to_copy")
    v1 = [d for d in gdefs if "paints_of_type" in norm(d.value) and "PaintGlyph" in norm(d.value) and ".Glyph" in norm(d.value)]
    v0 = [d for d in gdefs if "ColorLayers" in norm(d.value) and ".name" in norm(d.value)]
    if v1 and v0:
        rr.ok("_copy_colr: v1 copies glyphs of every PaintGlyph, v0 copies every layer glyph")
    else:
        rr.bad_shape(fi, fi.node, "_copy_colr does not collect the glyphs the donor COLR references (PaintGlyph.Glyph for v1, layer names for v0)",
               construct="_copy_colr: glyphs_to_copy")
    sgo = find_calls(fi, "setGlyphOrder")
    loops = [st for st in walk_body(fi) if isinstance(st, ast.For) and norm(st.iter) == "glyphs_to_copy"]
    if len(sgo) == 1 and loops and not any(c is sgo[0] for c in calls_in(loops[0])) and "glyphs_to_copy" in norm(sgo[0]):
        rr.ok("_copy_colr: setGlyphOrder(old + glyphs_to_copy) once, after the copy loop")
    else:
        rr.bad(fi, fi.node, "_copy_colr must extend the glyph order exactly once after copying (glyph-id cache invalidation)", construct="_copy_colr: setGlyphOrder")
    if loops and any(isinstance(n, ast.Assign) and "target_glyphs[glyph_name]" in norm(n.targets[0]) and 'donor["glyf"]' in norm(n.value).replace("'", '"') for n in ast.walk(loops[0])):
        rr.ok("_copy_colr: outline of each referenced glyph copied from the donor")
    else:
        rr.bad(fi, fi.node, "_copy_colr does not copy the donor's outlines", construct="_copy_colr: glyf copy")
    for tag in ("COLR", "CPAL"):
        if any(isinstance(n, ast.Assign) and tag in norm(n.targets[0]) and "donor" in norm(n.value) and tag in norm(n.value) for n in walk_body(fi)):
            rr.ok(f"_copy_colr: {tag} grafted from donor")
        else:
            rr.bad_shape(fi, fi.node, f"_copy_colr does not graft {tag}", construct=f"_copy_colr: {tag}")
    sfi = model.func("glue_together", "_copy_svg")
    scfg = cfg_of(sfi)
    ro = find_calls(sfi, "reorder_glyphs")
    graft = [st for st in walk_body(sfi) if isinstance(st, ast.Assign) and "SVG " in norm(st.targets[0])]
    if len(ro) == 1 and graft and scfg.dominates(scfg.node_for(ro[0]), scfg.node_for(graft[0])) and norm(ro[0].args[0]) == "target":
        rr.ok("_copy_svg: target reordered (reorder_glyphs) before the SVG table is grafted")
    else:
        rr.bad(sfi, sfi.node, "_copy_svg grafts the SVG table without first reordering the target so that donor gids stay valid", construct="_copy_svg: reorder before graft")
    cfi = model.func("glue_together", "_copy_cbdt")
    ccfg = cfg_of(cfi)
    raises = [st for st in walk_body(cfi) if isinstance(st, ast.Raise)]
    ok = False
    for r in raises:
        facts = guard_facts(ccfg, ccfg.node_for(r))
        for e, pol in facts:
            if pol and isinstance(e, ast.Name):
                defs = ccfg.reaching(ccfg.node_for(r), e.id)
                if any(d.value is not None and "getGlyphOrder" in norm(d.value) and "-" in norm(d.value) for d in defs):
                    ok = True
    if ok:
        rr.ok("_copy_cbdt: donor-only glyph names raise")
    else:
        rr.bad(cfi, cfi.node, "_copy_cbdt no longer rejects donor glyph names missing from the target", construct="_copy_cbdt: name check")
    srt = [c for c in calls_in(cfi) if norm(c.func) == "sorted" and kwarg(c, "key") is not None and "target.getGlyphID" in norm(kwarg(c, "key"))]
    if srt:
        rr.ok("_copy_cbdt: bitmaps ordered by the target's glyph ids")
    else:
        rr.bad_shape(cfi, cfi.node, "_copy_cbdt does not order bitmaps by the target's glyph ids", construct="_copy_cbdt: order")


@RULES.rule("C12", "R12f", "glyph elements are selected by their exact id; the picosvg step of maximum_color never clips", floor=2)
def r12f(model: Model, rr: RuleResult):
    fi = model.func("extract_svgs", "_remove_glyph_elements")
    pref = []
    for c in calls_in(fi, nested=True):
        if callee_tail(c) in ("match", "search", "startswith") and not (callee_tail(c) == "match" and False):
            pref.append(c)
    comp = [c for c in ast.walk(fi.node) if isinstance(c, ast.Call) and norm(c.func) in ("re.compile", "regex.compile")]
    anchored = any(isinstance(a, ast.Constant) and isinstance(a.value, str) and (a.value.endswith("$") or a.value.endswith("\\Z")) for c in comp for a in ast.walk(c))
    if pref and not anchored and not any(callee_tail(c) == "fullmatch" for c in calls_in(fi, nested=True)):
        rr.bad(fi, pref[0], f"{short(pref[0], 60)} is a prefix test on the element id: removing `glyph2` also removes `glyph20`, `glyph21`, ... so a glyph that shares a document "
               f"with a lower gid whose digits it starts with loses its own artwork", construct=f"_remove_glyph_elements: prefix match {short(pref[0].func)}")
    else:
        xp = [c for c in calls_in(fi, nested=True) if callee_tail(c) == "xpath"]
        if xp and any("@id='glyph{" in norm(a) or "@id=\"glyph{" in norm(a) for c in xp for a in c.args):
            rr.ok("_remove_glyph_elements selects elements with @id equal to glyph<gid>")
        elif pref:
            rr.ok("_remove_glyph_elements matches whole ids (anchored / fullmatch)")
        else:
            rr.bad_shape(fi, fi.node, "how _remove_glyph_elements selects the elements to drop is not recognised", construct="_remove_glyph_elements: selection")
    pre = model.func("maximum_color", "_write_preamble")
    cmds = [a for c in calls_in(pre) if callee_tail(c) in ("rule", "module_rule") for a in c.args if isinstance(a, (ast.Constant, ast.JoinedStr)) and "picosvg" in norm(a) and "output_file" in norm(a)]
    if not cmds:
        raise AnalysisError("maximum_color._write_preamble: picosvg rule not found")
    for a in cmds:
        t = norm(a)
        if "clip" in t:
            rr.bad(pre, a, f"the picosvg rule of maximum_color passes a clip option ({short(a, 60)}): each per-glyph SVG has a viewBox of advance x line height, so ink that overhangs "
                   f"its advance (and every zero-advance mark) is cropped in the added table", construct="maximum_color picosvg rule: clip option")
        else:
            rr.ok(f"maximum_color picosvg rule: {short(a, 60)} (no clipping)")


@RULES.rule("C12", "R12g", "the donor's default palette is taken whole (every COLR palette index the donor uses exists in the target)", floor=1)
def r12g(model: Model, rr: RuleResult):
    fi = model.func("glue_together", "_copy_colr")
    zips = [c for c in calls_in(fi, nested=True) if isinstance(c.func, ast.Name) and c.func.id == "zip" and any("palettes" in norm(a) or "palette" in norm(a) for a in c.args)]
    sl = [n for n in walk_body(fi, nested=True) if isinstance(n, ast.Subscript) and isinstance(n.slice, ast.Slice) and "palettes" in norm(n.value) and "donor" in norm(n.value)]
    if zips or sl:
        x = (zips or sl)[0]
        rr.bad(fi, x, f"{short(x, 80)}: the donor palette is copied only as far as the target's existing palette is long; surplus donor colours are dropped while the donor's COLR is "
               f"taken whole, so layers reference palette entries the font does not have", construct=f"_copy_colr: palette truncated by {short(x, 40)}")
        return
    whole = [st for st in walk_body(fi) if isinstance(st, ast.Assign) and "palettes[0]" in norm(st.targets[0]) and "target" in norm(st.targets[0]) and "donor" in norm(st.value) and "palettes[0]" in norm(st.value)]
    graft = [st for st in walk_body(fi) if isinstance(st, ast.Assign) and norm(st.targets[0]) in ("target['CPAL']", "target[tag]") ]
    if whole or graft:
        rr.ok("_copy_colr replaces palette 0 by the donor's palette 0 as a whole (or grafts the donor's CPAL)")
    else:
        rr.bad_shape(fi, fi.node, "how _copy_colr transfers the donor palette is not recognised", construct="_copy_colr: palette transfer")


@RULES.rule("C12", "R12h", "grafting SVG keeps every donor gid: filler glyphs are inserted gid by gid; CBLC strike templates are deep-copied per run", floor=2)
def r12h(model: Model, rr: RuleResult):
    fi = model.func("glue_together", "_copy_svg")
    wl = [st for st in walk_body(fi) if isinstance(st, ast.While) and isinstance(st.test, ast.Compare) and "len(new_glyph_order)" in norm(st.test) and "svg_gid" in norm(st.test)]
    outer = [st for st in walk_body(fi) if isinstance(st, ast.For) and "_svg_glyphs(donor)" in norm(st.iter) and any(w in ast.walk(st) for w in wl)]
    if wl and outer:
        rr.ok("_copy_svg pads with non-SVG glyphs before EACH SVG glyph until its donor gid is reached (gaps between SVG gids are kept)")
    else:
        mins = [c for c in calls_in(fi) if norm(c.func) == "min" and "_svg_glyphs(donor)" in norm(c)]
        if mins:
            rr.bad(fi, mins[0], "the new glyph order is built as filler[:first SVG gid] + all SVG glyphs + rest: that keeps donor gids only when the SVG gids form ONE contiguous "
                   "run; with a coloured .notdef (gids 0, 2, 3, ...) or an empty colour glyph in the middle the glyphs no longer sit at the gids the documents address",
                   construct="_copy_svg: SVG glyphs packed after the first SVG gid")
        else:
            rr.bad_shape(fi, fi.node, "_copy_svg does not pad the glyph order gid by gid", construct="_copy_svg: gid-stable fill")
    cb = model.func("glue_together", "_copy_cbdt")
    copies = [c for c in calls_in(cb) if norm(c.func) in ("copy.deepcopy", "copy.copy", "deepcopy") and c.args and "template" in norm(c.args[0])]
    shallow = [c for c in copies if norm(c.func) == "copy.copy"]
    if shallow:
        rr.bad(cb, shallow[0], f"{short(shallow[0])}: the per-run strike / index sub-table shares its nested tables (bitmapSizeTable) with every other run; fontTools writes each run's "
               f"range and offsets into that one object, so every CBLC record ends up describing the last run", construct=f"_copy_cbdt: {short(shallow[0])}")
    elif len(copies) >= 2:
        rr.ok("_copy_cbdt deep-copies the strike and index sub-table templates for every run")
    else:
        rr.bad_shape(cb, cb.node, "_copy_cbdt: per-run copies of the strike templates not found", construct="_copy_cbdt: template copies")


@RULES.rule("C12", "R12i", "SVGs generated from COLR are not passed through picosvg's rounding (which also rounds opacity)", floor=1)
def r12i(model: Model, rr: RuleResult):
    fi = model.func("generate_svgs_from_colr", "main")
    cs = [c for c in calls_in(fi, nested=True) if callee_tail(c) == "colr_to_svg"]
    if not cs:
        raise AnalysisError("generate_svgs_from_colr.main: colr_to_svg call not found")
    for c in cs:
        r = kwarg(c, "rounding_ndigits") if kwarg(c, "rounding_ndigits") is not None else (c.args[2] if len(c.args) > 2 else None)
        if r is None or norm(r) == "None":
            rr.ok("generate_svgs_from_colr: colr_to_svg(view_box, font) without rounding")
        else:
            rr.bad(fi, c, f"generate_svgs_from_colr rounds the generated SVGs (rounding_ndigits={short(r, 40)}): picosvg's round_floats rounds EVERY float field of a shape, opacity included, so a "
                   f"layer alpha of 0.5 becomes 0 (layer dropped) and 0.75 becomes 1 at 0 digits; the SVG / CBDT pictures no longer match the COLR glyph", construct="generate_svgs_from_colr: rounding_ndigits passed to colr_to_svg")
