"""C13 — COLR-to-SVG conversion preserves the picture for supported paint graphs (structural clauses)."""
from __future__ import annotations

import ast
from typing import Dict, List, Optional, Set

from .. import otspec
from ..cfg import cfg_of
from ..dataflow import expr_closure
from ..guards import guard_facts
from ..model import (AnalysisError, Model, calls_in, callee_tail, find_calls, kwarg, names_in, norm, short, walk_body)
from ..paintmodel import extract
from ..report import RULES, RuleResult
from .spaces_common import report

WHY = "Paint geometry converted from a COLR font would land in the wrong place of the generated SVG"


@RULES.rule("C13", "R13a", "coordinate-space consistency of colr_to_svg.py", floor=40)
def r13a(model: Model, rr: RuleResult):
    report(model, rr, [("colr_to_svg", "map_font_space_to_viewbox"), ("colr_to_svg", "_draw_svg_path"), ("colr_to_svg", "_apply_gradient_ot_paint"),
                       ("colr_to_svg", "_apply_transform"), ("colr_to_svg", "_colr_v1_paint_to_svg"), ("colr_to_svg", "_view_box_and_transform"),
                       ("svg", "_apply_gradient_paint"), ("svg", "_map_gradient_coordinates")], WHY)
    # the transform branch: a PaintTransform's own matrix applies to its child first, the inherited one after it (A @ B maps by B before A; compose_ltr is left to right)
    pfi = model.func("colr_to_svg", "_colr_v1_paint_to_svg")
    from ..dataflow import resolved as _res13
    pcfg = cfg_of(pfi)
    for st in walk_body(pfi):
        tgt = st.target if isinstance(st, ast.AugAssign) else (st.targets[0] if isinstance(st, ast.Assign) and len(st.targets) == 1 else None)
        if not (isinstance(tgt, ast.Name) and "gettransform()" in norm(_res13(pcfg, pcfg.node_for(st), st.value))):
            continue
        inh = tgt.id
        v = st.value
        order = None  # (first applied, second applied) as 'own' / 'inherited'
        if isinstance(st, ast.AugAssign) and isinstance(st.op, ast.MatMult):
            order = ("own", "inherited")
        elif isinstance(v, ast.BinOp) and isinstance(v.op, ast.MatMult) and {norm(v.left) == inh, norm(v.right) == inh} == {True, False}:
            order = ("own", "inherited") if norm(v.left) == inh else ("inherited", "own")
        elif isinstance(v, ast.Call) and callee_tail(v) == "compose_ltr" and len(v.args) == 1 and isinstance(v.args[0], (ast.Tuple, ast.List)) and len(v.args[0].elts) == 2 \
                and {norm(x) == inh for x in v.args[0].elts} == {True, False}:
            order = ("inherited", "own") if norm(v.args[0].elts[0]) == inh else ("own", "inherited")
        if order == ("own", "inherited"):
            rr.ok(f"transform branch: the paint's own matrix is applied before the inherited one ({short(st, 70)})")
        elif order == ("inherited", "own"):
            rr.bad(pfi, st, f"`{short(st, 90)}` applies the inherited transform BEFORE the PaintTransform's own matrix: nested transforms (and the font-to-viewBox flip at the root) compose in the "
                   f"reverse order, so any non-commuting pair (translate under scale, rotate under flip) lands elsewhere in the SVG", construct="_colr_v1_paint_to_svg: transform composition order reversed")
    # map_font_space_to_viewbox derives the metrics from the glyph region consistently
    fi = model.func("colr_to_svg", "map_font_space_to_viewbox")
    txt = [norm(st) for st in fi.body]
    want = ["ascender = -glyph_region.y", "descender = -(glyph_region.h - ascender)", "width = glyph_region.w"]
    if all(w in txt for w in want):
        rr.ok("map_font_space_to_viewbox: ascender/descender/width recovered from the glyph region (y = -ascender, h = ascender - descender)")
    else:
        rr.bad(fi, fi.node, "metrics are not recovered from the glyph region as ascender=-y, descender=-(h-ascender), width=w", construct="map_font_space_to_viewbox: metrics")
    gfi = model.func("colr_to_svg", "glyph_region")
    ret = [st for st in walk_body(gfi) if isinstance(st, ast.Return)]
    if ret and isinstance(ret[0].value, ast.Call) and len(ret[0].value.args) == 4:
        a = [norm(x) for x in ret[0].value.args]
        if a[0] == "0" and "-" in a[1] and "sTypoAscender" in a[1] and a[2] == "width" and "sTypoAscender" in a[3] and "sTypoDescender" in a[3] and "-" in a[3]:
            rr.ok("glyph_region = Rect(0, -ascender, advance, ascender - descender)")
        else:
            rr.bad(gfi, ret[0], "glyph_region is not Rect(0, -ascender, advance, ascender - descender)", construct=short(ret[0]))
    w = [st for st in walk_body(gfi) if isinstance(st, ast.Assign) and norm(st.targets[0]) == "width"]
    if w and "hmtx" in norm(w[0].value) and norm(w[0].value).endswith("[0]"):
        rr.ok("glyph_region width = the glyph's own advance (hmtx)")
    else:
        rr.bad(gfi, gfi.node, "glyph_region width is not the glyph's advance", construct="glyph_region: width")


@RULES.rule("C13", "R13b", "paint dispatch is exhaustive: every PaintFormat is handled, in the transform range, or raises", floor=30)
def r13b(model: Model, rr: RuleResult):
    fi = model.func("colr_to_svg", "_colr_v1_paint_to_svg")
    fmts = otspec.paint_formats()
    classes = extract(model)
    # walk the if/elif chain
    chain = [st for st in fi.body if isinstance(st, ast.If)]
    if not chain:
        raise AnalysisError("_colr_v1_paint_to_svg: dispatch chain not found")
    node = chain[-1]
    handled: Dict[str, str] = {}
    has_transform_branch = False
    gradient_formats: Set[str] = set()
    gconst = model.mod("colr_to_svg").const("_GRADIENT_PAINT_FORMATS")
    for e in gconst.elts:
        gradient_formats.add(norm(e).split(".")[0])
    terminal = None
    while True:
        t = norm(node.test)
        if t.startswith("ot_paint.Format == ") and t.endswith(".format"):
            handled[t[len("ot_paint.Format == "):-len(".format")]] = "explicit branch"
        elif t == "ot_paint.Format in _GRADIENT_PAINT_FORMATS":
            for g in gradient_formats:
                handled[g] = "gradient branch"
        elif t == "is_transform(ot_paint.Format)":
            has_transform_branch = True
        else:
            raise AnalysisError(f"dispatch test {t} outside the enumerated idioms")
        if len(node.orelse) == 1 and isinstance(node.orelse[0], ast.If):
            node = node.orelse[0]
        else:
            terminal = node.orelse
            break
    if terminal and isinstance(terminal[-1], ast.Raise) and "NotImplementedError" in norm(terminal[-1]):
        rr.ok("dispatch ends in raise NotImplementedError(ot_paint.Format)")
    else:
        rr.bad(fi, node, "the paint dispatch no longer ends in an error for unknown formats: unsupported paints are skipped silently", construct="_colr_v1_paint_to_svg: terminal else")
    # is_transform's range
    tfi = model.func("paint", "is_transform")
    rets = [st for st in walk_body(tfi) if isinstance(st, ast.Return)]
    lo = hi = None
    if rets and isinstance(rets[0].value, ast.Compare) and len(rets[0].value.ops) == 2:
        lo = norm(rets[0].value.left).split(".")[-1]
        hi = norm(rets[0].value.comparators[1]).split(".")[-1]
    if lo != "PaintTransform" or hi != "PaintVarSkewAroundCenter":
        rr.bad(tfi, tfi.node, f"is_transform covers [{lo}, {hi}], expected [PaintTransform, PaintVarSkewAroundCenter]", construct=f"is_transform range [{lo}, {hi}]")
        lo, hi = lo or "PaintTransform", hi or "PaintVarSkewAroundCenter"
    else:
        rr.ok("is_transform covers [PaintTransform, PaintVarSkewAroundCenter]")
    supported = {"PaintColrLayers", "PaintSolid", "PaintLinearGradient", "PaintRadialGradient", "PaintGlyph", "PaintColrGlyph", "PaintComposite"}
    for name, num in sorted(fmts.items(), key=lambda kv: kv[1]):
        in_range = lo in fmts and hi in fmts and fmts[lo] <= num <= fmts[hi]
        if name in handled:
            rr.ok(f"{name} ({num}): {handled[name]}")
        elif in_range and has_transform_branch:
            if name.startswith("PaintVar"):
                rr.ok(f"{name} ({num}): transform branch -> Paint.from_ot has no class of that name -> KeyError (loud)")
                if name in classes:
                    rr.unknown(f"{name} now has a class in paint.py")
            elif name in classes and classes[name].gettransform_fn is not None:
                rr.ok(f"{name} ({num}): transform branch, paint.{name}.gettransform")
            else:
                rr.bad(fi, fi.node, f"{name} ({num}) is routed to the transform branch but paint.py has no {name} class with its own gettransform: the "
                       f"transform is silently treated as identity", construct=f"dispatch: {name} without gettransform")
        elif name in supported:
            rr.bad(fi, fi.node, f"{name} ({num}) is in the supported set of the property but has no branch: it now raises", construct=f"dispatch: {name} unhandled")
        else:
            rr.ok(f"{name} ({num}): no branch -> NotImplementedError (loud)")
    # a "seen" set that only grows makes the walk skip every later reference to the same glyph, not just cycles
    for st in ast.walk(fi.node):
        if isinstance(st, ast.If) and isinstance(st.test, ast.Compare) and len(st.test.ops) == 1 and isinstance(st.test.ops[0], ast.In) \
                and any(isinstance(b, (ast.Return, ast.Continue)) for b in st.body):
            sname = norm(st.test.comparators[0])
            adds = [c for c in calls_in(fi, nested=True) if callee_tail(c) == "add" and norm(c.func.value) == sname]
            drops = [c for c in calls_in(fi, nested=True) if callee_tail(c) in ("remove", "discard", "pop", "clear") and norm(c.func.value) == sname]
            copies = [x for x in ast.walk(fi.node) if isinstance(x, ast.BinOp) and isinstance(x.op, ast.BitOr) and sname in norm(x)] + \
                [c for c in calls_in(fi, nested=True) if callee_tail(c) in ("union", "copy") and sname in norm(c)]
            if adds and not drops and not copies:
                rr.bad(fi, st, f"`{short(st.test)}` skips a paint whose glyph is already in `{sname}`, and `{sname}` only ever grows during the walk ({short(adds[0])}, never removed): it holds every "
                       f"glyph drawn so far, not the chain being drawn, so the second and later PaintColrGlyph references to one colour glyph (two eyes from one eye glyph) are dropped",
                       construct=f"_colr_v1_paint_to_svg: visited-set {sname} never shrinks")
    # the unsupported-composite path warns before descending
    comp = [st for st in ast.walk(fi.node) if isinstance(st, ast.If) and norm(st.test) == "ot_paint.Format == PaintComposite.format"]
    if comp:
        body = comp[0].body
        warns = [c for c in calls_in(comp[0]) if norm(c.func) == "logging.warning"]
        if warns:
            rr.ok("unsupported PaintComposite logs a warning before keeping only the backdrop")
        else:
            rr.bad(fi, comp[0], "unsupported PaintComposite modes are dropped without a warning", construct="PaintComposite branch: no warning")
        inner = [st for st in body if isinstance(st, ast.If)]
        if inner and "CompositeMode.SRC_IN" in norm(inner[0].test) and "PaintSolid.format" in norm(inner[0].test):
            rr.ok("group opacity is recognised as SRC_IN over a PaintSolid backdrop")
        else:
            rr.bad_shape(fi, comp[0], "group-opacity composite is not recognised as (SRC_IN, solid backdrop)", construct="PaintComposite branch: recognition test")
        g = [st for st in ast.walk(comp[0]) if isinstance(st, ast.Assign) and norm(st.targets[0]) == "g.attrib['opacity']"]
        blk = [st for st in ast.walk(comp[0]) if isinstance(st, ast.If) and "color[:3] == (0, 0, 0)" in norm(st.test)]
        if g and norm(g[0].value) == "ntos(color.alpha)" and blk:
            rr.ok("group opacity = alpha of the black backdrop")
        elif g and blk and norm(g[0].value).startswith("ntos(") and "alpha" not in norm(g[0].value):
            rr.bad(fi, comp[0], "<g opacity> is not the alpha of a black backdrop", construct="PaintComposite branch: opacity")
        else:
            rr.bad_shape(fi, comp[0], "<g opacity> is not the alpha of a black backdrop", construct="PaintComposite branch: opacity")


@RULES.rule("C13", "R13c", "Paint.from_ot reflection contract: dataclass fields map to existing otData fields in constructor order", floor=20)
def r13c(model: Model, rr: RuleResult):
    classes = extract(model)
    fmts = otspec.paint_formats()
    pm = model.mod("paint")
    table = pm.const("_PAINT_FIELD_TO_OT_FIELD")
    if not isinstance(table, ast.Dict):
        raise AnalysisError("_PAINT_FIELD_TO_OT_FIELD is not a dict literal")
    mapping = {}
    for k, v in zip(table.keys, table.values):
        ot = v.elts[0]
        mapping[k.value] = tuple(e.value for e in ot.elts) if isinstance(ot, ast.Tuple) else (ot.value,)
        if k.value == "transform":
            lam = v.elts[1]
            order = [n.attr for n in ast.walk(lam.body) if isinstance(n, ast.Attribute)] if isinstance(lam, ast.Lambda) else []
            order = [e.attr for e in lam.body.elts] if isinstance(lam, ast.Lambda) and isinstance(lam.body, ast.Tuple) else order
            spec = [f.name for f in otspec.ot_records().get("Affine2x3", [])]
            if order == ["xx", "yx", "xy", "yy", "dx", "dy"] == spec:
                rr.ok("Transform converter reads (xx, yx, xy, yy, dx, dy) = Affine2D(a, b, c, d, e, f) order = otData Affine2x3 order")
            else:
                rr.bad(pm, lam, f"Transform converter reads {order}; Affine2D(a,b,c,d,e,f) needs (xx, yx, xy, yy, dx, dy) (otData Affine2x3: {spec})", construct=f"transform converter {order}")
    lo, hi = fmts["PaintTransform"], fmts["PaintVarSkewAroundCenter"]
    for name, num in sorted(fmts.items(), key=lambda kv: kv[1]):
        if not (lo <= num <= hi) or name.startswith("PaintVar"):
            continue
        pc = classes.get(name)
        if pc is None:
            rr.bad(pm, pm.tree, f"no class {name} in paint.py: Paint.from_ot raises KeyError for a supported format", construct=f"paint.py: missing {name}")
            continue
        rec = otspec.fields_by_name("Paint", num)
        for f, ann in pc.fields:
            ots = mapping.get(f, (f,))
            miss = [o for o in ots if o not in rec]
            if miss:
                rr.bad(pc.ci.module, pc.ci.node, f"{name}.{f} maps to ot field(s) {miss} that PaintFormat{num} does not have: from_ot raises AttributeError",
                       construct=f"{name}.{f} -> {ots}")
            else:
                rr.ok(f"{name}.{f} <- ot_paint.{'/'.join(ots)}")
        # all geometry fields of the ot record are consumed
        consumed = {o for f, _ in pc.fields for o in mapping.get(f, (f,))}
        left = set(rec) - consumed - {"PaintFormat"}
        if left:
            rr.bad(pc.ci.module, pc.ci.node, f"{name} ignores otData field(s) {sorted(left)} of PaintFormat{num}", construct=f"{name}: unread ot fields {sorted(left)}")
    # from_ot: positional construction in dataclass field order
    ffi = model.func("paint", "Paint.from_ot")
    t = " ".join(norm(st) for st in ffi.body)
    if "for f in dataclasses.fields(paint_t)" in t and "paint_t(*paint_args)" in t and "globals()[ot_paint.getFormatName()]" in t:
        rr.ok("from_ot builds the class named like the format, arguments in dataclass field order")
    else:
        rr.bad_shape(ffi, ffi.node, "from_ot no longer builds paint_t(*args) in dataclass field order from the class named like the format", construct="Paint.from_ot shape")


@RULES.rule("C13", "R13d", "colour mapping: foreground -> currentColor, palette index kept only for multi-palette fonts, alpha product; COLRv0 layers in order", floor=6)
def r13d(model: Model, rr: RuleResult):
    fi = model.func("colr_to_svg", "_color")
    cfg = cfg_of(fi)
    cur = [st for st in walk_body(fi) if isinstance(st, ast.Return) and "currentColor" in norm(st.value)]
    ok = False
    if cur:
        facts = [(norm(e), pol) for e, pol in guard_facts(cfg, cfg.node_for(cur[0]))]
        ok = ("palette_index == _FOREGROUND_COLOR_INDEX", True) in facts and "alpha=alpha" in norm(cur[0].value)
    fg = model.mod("colr_to_svg").const("_FOREGROUND_COLOR_INDEX")
    if ok and isinstance(fg, ast.Constant) and fg.value == 0xFFFF:
        rr.ok("palette index 0xFFFF -> currentColor (alpha kept)")
    else:
        rr.bad(fi, fi.node, "foreground colour index 0xFFFF is not mapped to currentColor", construct="_color: foreground")
    ctor = [c for c in calls_in(fi) if norm(c.func) == "colors.Color"]
    if len(ctor) != 1:
        raise AnalysisError("_color: colors.Color(...) not found")
    kw = {k.arg: norm(k.value) for k in ctor[0].keywords}
    if kw.get("alpha", "").replace(" ", "") in ("alpha*cpal_color.alpha/255", "cpal_color.alpha/255*alpha", "alpha*(cpal_color.alpha/255)"):
        rr.ok("alpha = paint alpha x palette alpha / 255")
    else:
        rr.bad(fi, ctor[0], f"alpha is {kw.get('alpha')}, expected paint alpha x palette alpha/255", construct=f"_color alpha={kw.get('alpha')}")
    from ..dataflow import resolved as _r13d
    pv = [k.value for k in ctor[0].keywords if k.arg == "palette_index"]
    pvr = norm(_r13d(cfg, cfg.node_for(ctor[0]), pv[0])) if pv else ""
    PK = "palette_index if len(ttfont['CPAL'].palettes) > 1 else None"
    if kw.get("palette_index") == PK or pvr == PK:
        rr.ok("palette_index is kept exactly when the font has more than one palette")
    elif pv and isinstance(pv[0], ast.IfExp) and "palettes" not in pvr:
        rr.bad_shape(fi, ctor[0], f"palette_index is {kw.get('palette_index')}: var(--colorN) must appear only for multi-palette fonts", construct=f"_color palette_index={kw.get('palette_index')}")
    else:
        rr.bad(fi, ctor[0], f"palette_index is {kw.get('palette_index')}: var(--colorN) must appear only for multi-palette fonts", construct=f"_color palette_index={kw.get('palette_index')}")
    for ch in ("red", "green", "blue"):
        if kw.get(ch) != f"cpal_color.{ch}":
            rr.bad(fi, ctor[0], f"{ch} channel is {kw.get(ch)}", construct=f"_color {ch}")
    rng = [st for st in walk_body(fi) if isinstance(st, ast.If) and "palette_index >= len(palette)" in norm(st.test) and any(isinstance(b, ast.Raise) for b in st.body)]
    if rng:
        rr.ok("out-of-range palette index raises")
    else:
        rr.bad(fi, fi.node, "out-of-range palette index no longer raises", construct="_color: range check")
    v0 = model.func("colr_to_svg", "_colr_v0_glyph_to_svg")
    loops = [st for st in walk_body(v0) if isinstance(st, ast.For)]
    if loops and "ColorLayers[glyph_name]" in norm(loops[0].iter) and "reversed" not in norm(loops[0].iter):
        t = " ".join(norm(b) for b in loops[0].body)
        if "etree.SubElement(svg_root, 'path')" in t and "_color(ttfont, glyph_layer.colorID)" in t and "_draw_svg_path(svg_path, glyph_set, glyph_layer.name, font_to_vbox)" in t:
            rr.ok("COLRv0: one <path> per layer in layer order, colour from the layer's colorID, outline of the layer's glyph")
        else:
            rr.bad(v0, loops[0], "COLRv0 layer loop does not pair each layer's glyph with its own colour", construct="_colr_v0_glyph_to_svg loop body")
    else:
        rr.bad(v0, v0.node, "COLRv0 layers are not emitted in layer order", construct="_colr_v0_glyph_to_svg loop")
    # gradient paint reconstruction reads each ot field into the matching geometry field
    gfi = model.func("colr_to_svg", "_gradient_paint")
    t = " ".join(norm(n) for n in walk_body(gfi) if isinstance(n, ast.keyword))
    want = ["p0=Point(ot_paint.x0, ot_paint.y0)", "p1=Point(ot_paint.x1, ot_paint.y1)", "p2=Point(ot_paint.x2, ot_paint.y2)",
            "c0=Point(ot_paint.x0, ot_paint.y0)", "c1=Point(ot_paint.x1, ot_paint.y1)", "r0=ot_paint.r0", "r1=ot_paint.r1"]
    miss = [w for w in want if w not in t]
    if not miss:
        rr.ok("_gradient_paint maps (x0,y0,x1,y1,x2,y2 | x0,y0,r0,x1,y1,r1) to (p0,p1,p2 | c0,r0,c1,r1)")
    else:
        rr.bad(gfi, gfi.node, f"_gradient_paint geometry wiring differs: missing {miss}", construct=f"_gradient_paint: {miss}")
    st = [n for n in walk_body(gfi) if isinstance(n, ast.Call) and norm(n.func) == "ColorStop"]
    if st and [norm(a) for a in st[0].args] == ["stop.StopOffset", "_color(ttfont, stop.PaletteIndex, stop.Alpha)"]:
        rr.ok("colour stops: offset and (palette index, alpha) of the same stop")
    else:
        rr.bad(gfi, gfi.node, "colour stop reconstruction does not pair offset/index/alpha of one stop", construct="_gradient_paint: ColorStop")


@RULES.rule("C13", "R13e", "gradient ids are allocated per generated SVG document (one reuse cache per colour glyph)", floor=2)
def r13e(model: Model, rr: RuleResult):
    fi = model.func("colr_to_svg", "_colr_v1_glyph_to_svg")
    cfg = cfg_of(fi)
    root = find_calls(fi, "_svg_root")
    call = find_calls(fi, "_colr_v1_paint_to_svg")
    if len(root) != 1 or len(call) != 1:
        raise AnalysisError("_colr_v1_glyph_to_svg: _svg_root / _colr_v1_paint_to_svg calls not found")
    rc = call[0].args[6] if len(call[0].args) > 6 else kwarg(call[0], "reuse_cache")
    ok = False
    if isinstance(rc, ast.Name):
        defs = cfg.reaching(cfg.node_for(call[0]), rc.id)
        ok = bool(defs) and all(d.kind == "assign" and isinstance(d.value, ast.Call) and callee_tail(d.value) in ("_new_reuse_cache", "ReuseCache") for d in defs)
    elif isinstance(rc, ast.Call) and callee_tail(rc) in ("_new_reuse_cache", "ReuseCache"):
        ok = True
    if ok:
        rr.ok("each generated document gets a fresh reuse cache: a gradient id found in the cache is defined in the same document")
    else:
        rr.bad(fi, call[0], "the gradient reuse cache outlives one document: a later glyph's fill can be given the id of a gradient that was defined in an "
               "earlier glyph's SVG (dangling or wrong gradient)", construct=f"_colr_v1_glyph_to_svg: reuse_cache = {short(rc)} not created per document")
    defs_el = [st for st in walk_body(fi) if isinstance(st, ast.Assign) and norm(st.targets[0]) == "svg_defs"]
    if defs_el and norm(defs_el[0].value) == "svg_root[0]":
        rr.ok("gradients are defined in the document's own <defs>")
    else:
        rr.bad(fi, fi.node, "svg_defs is not the <defs> of the document being built", construct="_colr_v1_glyph_to_svg: svg_defs")


GRADIENT_GEOMETRY = {"PaintLinearGradient": (("p0", "p1", "p2"), ()), "PaintRadialGradient": (("c0", "c1"), ("r0", "r1"))}


def gradient_geometry_rule(model: Model, rr: RuleResult):
    """Wherever a gradient is re-expressed in another frame (`dataclasses.replace(g, ...)` with mapped coordinates), every geometric
    field is mapped: a field left out, or reset to None, keeps (or re-derives) its old-frame value."""
    sites = [("svg", "_map_gradient_coordinates", "paint"), ("paint", "PaintLinearGradient.apply_transform", "self"),
             ("paint", "PaintRadialGradient.apply_transform", "self")]
    seen = 0
    for mod, qn, base in sites:
        fi = model.func(mod, qn)
        cfg = cfg_of(fi)
        for c in calls_in(fi):
            if norm(c.func) != "dataclasses.replace" or not c.args or norm(c.args[0]) != base:
                continue
            kws = {k.arg: k.value for k in c.keywords if k.arg}
            cls = None
            if qn.startswith("Paint"):
                cls = qn.split(".")[0]
            else:
                facts = [norm(e) for e, pol in guard_facts(cfg, cfg.node_for(c)) if pol]
                for cand in GRADIENT_GEOMETRY:
                    if any(f"isinstance({base}, {cand})" == f for f in facts):
                        cls = cand
            if cls is None:
                raise AnalysisError(f"{qn}: cannot tell which gradient class {short(c, 60)} rebuilds")
            pts, radii = GRADIENT_GEOMETRY[cls]
            seen += 1
            for f in pts:
                v = kws.get(f)
                ok = False
                if v is not None:
                    _, exprs = expr_closure(cfg, cfg.node_for(c), v)
                    ok = any(isinstance(n, ast.Call) and callee_tail(n) == "map_point" and n.args and norm(n.args[0]) == f"{base}.{f}" for e in exprs for n in ast.walk(e))
                if ok:
                    rr.ok(f"{qn}: {cls}.{f} <- map_point({base}.{f})")
                else:
                    rr.bad_shape(fi, c, f"{cls}.{f} is {'not mapped' if v is None else 'set to ' + short(v)} when the gradient is moved to another frame: "
                           f"{'p2 is then re-derived perpendicular to p0->p1, which a non-conformal map does not preserve' if f == 'p2' else 'the point stays in the old frame'}",
                           construct=f"{qn}: {f}={short(v) if v is not None else '<missing>'}")
            for f in radii:
                v = kws.get(f)
                ok = False
                if v is not None:
                    _, exprs = expr_closure(cfg, cfg.node_for(c), v)
                    ok = any(isinstance(n, ast.Attribute) and norm(n) == f"{base}.{f}" for e in exprs for n in ast.walk(e)) and not (isinstance(v, ast.Attribute) and norm(v) == f"{base}.{f}")
                if ok:
                    rr.ok(f"{qn}: {cls}.{f} rescaled from {base}.{f}")
                elif v is not None and isinstance(v, ast.Attribute) and norm(v) == f"{base}.{f}":
                    rr.bad(fi, c, f"{cls}.{f} is not rescaled when the gradient is moved to another frame", construct=f"{qn}: {f}={short(v) if v is not None else '<missing>'}")
                else:
                    rr.bad_shape(fi, c, f"{cls}.{f} is not rescaled when the gradient is moved to another frame", construct=f"{qn}: {f}={short(v) if v is not None else '<missing>'}")
    if seen < 4:
        raise AnalysisError(f"gradient geometry: only {seen} re-framing sites found")
    # rounding keeps every geometric field too (a field reset to None is re-derived, p2 as the perpendicular of p0->p1)
    for cls in GRADIENT_GEOMETRY:
        fi = model.func("paint", f"{cls}.round")
        for c in calls_in(fi):
            if norm(c.func) != "dataclasses.replace" or not c.args or norm(c.args[0]) != "self":
                continue
            kws = {k.arg: k.value for k in c.keywords if k.arg}
            pts, radii = GRADIENT_GEOMETRY[cls]
            for f in pts + radii:
                v = kws.get(f)
                if v is None:
                    rr.ok(f"{cls}.round leaves {f} as it is")
                elif any(isinstance(n, ast.Attribute) and norm(n) == f"self.{f}" for n in ast.walk(v)) and any(isinstance(n, ast.Call) and callee_tail(n) == "round" for n in ast.walk(v)):
                    rr.ok(f"{cls}.round: {f} <- round(self.{f})")
                else:
                    rr.bad(fi, c, f"{cls}.round sets {f}={short(v)}: the field is not the rounded old value (p2=None re-derives the normal as the perpendicular of p0->p1, which "
                           f"is wrong for every gradient whose colour bands are not perpendicular to its vector)", construct=f"{cls}.round: {f}={short(v)}")


@RULES.rule("C13", "R13f", "re-framing a gradient maps every geometric field (p0 p1 p2 / c0 c1 r0 r1)", floor=12)
def r13f(model: Model, rr: RuleResult):
    gradient_geometry_rule(model, rr)


@RULES.rule("C13", "R13g", "the fill attribute is left out only for SVG's own default (unindexed black), judged on the whole colour", floor=1)
def r13g(model: Model, rr: RuleResult):
    fi = model.func("svg", "_apply_solid_paint")
    cfg = cfg_of(fi)
    sets = [st for st in walk_body(fi) if isinstance(st, ast.Assign) and "attrib['fill']" in norm(st.targets[0])]
    if len(sets) != 1:
        raise AnalysisError("_apply_solid_paint: fill assignment not found")
    facts = guard_facts(cfg, cfg.node_for(sets[0]))
    if not facts:
        rr.bad(fi, sets[0], "the fill attribute is set unconditionally; expected `colour != black`", construct="_apply_solid_paint: fill guard")
        return
    e = facts[0][0]
    exprs = []
    for fe, _ in facts:
        exprs += expr_closure(cfg, cfg.node_for(sets[0]), fe)[1]
    cmps = [x for ex in exprs for x in ast.walk(ex) if isinstance(x, ast.Compare) and len(x.ops) == 1 and isinstance(x.ops[0], (ast.Eq, ast.NotEq))]
    whole = False
    partial = None
    for c in cmps:
        sides = [c.left, c.comparators[0]]
        from ..dataflow import resolved as _res13g, fold_module_constants as _fold13g
        sides = [_res13g(cfg, cfg.node_for(sets[0]), x) for x in sides]
        t = []
        for x in sides:
            tx = norm(x)
            if isinstance(x, ast.Name) and x.id in fi.module.assigns:
                tx = norm(fi.module.assigns[x.id])  # a module-level name for the default colour
            t.append(tx)
        if any(x.endswith(".color.opaque()") or x.endswith(".color") for x in t) and any("Color.fromstring('black')" == x or x == "black" for x in t):
            whole = True
        for x in sides:
            if isinstance(x, ast.Subscript) and "color" in norm(x.value):
                partial = c
            if isinstance(x, ast.Tuple) and all("color." in norm(y) for y in x.elts):
                partial = c
    if whole and partial is None:
        rr.ok("fill is written unless the whole colour (palette index included, alpha aside) equals plain black")
    else:
        rr.bad(fi, partial or sets[0], f"whether fill is written is decided on part of the colour ({short(partial) if partial is not None else short(e)}): a palette-bound black "
               f"(var(--colorN, black), i.e. a CPAL entry that other palettes recolour) gets no fill at all and stops following the palette",
               construct="_apply_solid_paint: black test ignores palette_index")
