"""C15 — the palette honours explicit indices and resolves every colour (structural clauses)."""
from __future__ import annotations

import ast
from typing import List, Optional

from ..cfg import cfg_of
from ..dataflow import expr_closure
from ..guards import guard_facts
from ..model import (AnalysisError, Model, calls_in, callee_tail, find_calls, kwarg, names_in, norm, short, walk_body)
from ..paintmodel import extract
from ..report import RULES, RuleResult


def palette_normalisation(model: Model, rr: RuleResult, only_v0: bool = False):
    """The function applied to colours when the palette is built equals the one applied at every look-up."""
    fi = model.func("write_font", "_colr_ufo")
    us = find_calls(fi, "uniq_sort_cpal_colors")
    from ..dataflow import flatten_generator
    _pcfg = cfg_of(fi)
    gen = flatten_generator(_pcfg, _pcfg.node_for(us[0]), us[0].args[0]) if len(us) == 1 and us[0].args else None
    if not isinstance(gen, (ast.GeneratorExp, ast.ListComp)):
        raise AnalysisError("_colr_ufo: uniq_sort_cpal_colors(<generator>) not found")
    elt = gen.elt
    var = norm(gen.generators[-1].target)
    v0_norm = v1_norm = None
    if isinstance(elt, ast.IfExp) and norm(elt.test) == "colr_version == 0":
        v0_norm, v1_norm = norm(elt.body), norm(elt.orelse)
    elif isinstance(elt, ast.IfExp) and norm(elt.test) in ("colr_version != 0", "colr_version == 1", "colr_version > 0"):
        v1_norm, v0_norm = norm(elt.body), norm(elt.orelse)
    elif not isinstance(elt, ast.IfExp):
        v0_norm = v1_norm = norm(elt)  # one normalisation for both COLR versions
    elif isinstance(elt, ast.IfExp) and isinstance(elt.test, ast.BoolOp) and any(norm(x) in ("colr_version != 0", "colr_version == 1", "colr_version > 0", "colr_version == 0") for x in elt.test.values):
        # the version test is combined with a property of the colour: for COLRv0 some colours take one arm and some the other
        other = [norm(x) for x in elt.test.values if "colr_version" not in norm(x)]
        arms = sorted({norm(elt.body), norm(elt.orelse)})
        rr.bad(fi, elt, f"the palette entry of a colour is `{short(elt, 90)}`: within one COLR version colours are stored {arms[0]} or {arms[1]} depending on {other}; COLRv0 has no other place "
               f"for alpha than the palette entry, so every colour for which the opaque arm is taken loses its alpha", construct=f"palette normalisation depends on {other}")
        return
    else:
        raise AnalysisError(f"_colr_ufo: palette normalisation {short(elt)} outside the enumerated idioms")
    if v0_norm == var:
        rr.ok("COLRv0 palette keeps each colour unmodified (alpha lives in CPAL)")
    else:
        rr.bad(fi, elt, f"COLRv0 palette entries are normalised as {v0_norm}: alpha is lost or changed in CPAL", construct=f"palette v0 normalisation {v0_norm}")
    l0 = model.func("write_font", "_colr0_layers")
    ix = [c for c in calls_in(l0) if callee_tail(c) == "index_from"]
    cfg = cfg_of(l0)
    if len(ix) == 1 and isinstance(ix[0].func.value, ast.Name):
        defs = cfg.reaching(cfg.node_for(ix[0]), ix[0].func.value.id)
        if defs and all(norm(d.value) == "next(paint_glyph.colors())" for d in defs) and norm(ix[0].args[0]) == "palette":
            rr.ok("COLRv0 layer looks its unmodified colour up in the palette it was given")
        else:
            rr.bad(l0, ix[0], "COLRv0 layer colour is modified before look-up (palette stores it unmodified)", construct=short(ix[0]))
    else:
        rr.bad(l0, l0.node, "COLRv0 layer colour look-up is not color.index_from(palette)", construct="_colr0_layers: index_from")
    if only_v0:
        return
    if v1_norm == f"{var}.opaque()":
        rr.ok("COLRv1 palette stores opaque colours")
    else:
        rr.bad(fi, elt, f"COLRv1 palette entries are normalised as {v1_norm}, look-ups use .opaque()", construct=f"palette v1 normalisation {v1_norm}")
    classes = extract(model)
    ps = classes["PaintSolid"]
    if norm(ps.ufo_keys.get("PaletteIndex")) == "self.color.opaque().index_from(colors)" and norm(ps.ufo_keys.get("Alpha")) == "self.color.alpha":
        rr.ok("PaintSolid: PaletteIndex from the opaque colour, Alpha carried by the paint")
    else:
        rr.bad(ps.ufo_fn, ps.ufo_fn.node, "PaintSolid look-up/alpha split disagrees with the opaque palette", construct=f"PaintSolid: {short(ps.ufo_keys.get('PaletteIndex'))} / {short(ps.ufo_keys.get('Alpha'))}")
    from ..paintmodel import color_line
    cl, _keys, sv, sk = color_line(model)
    if sk is None:
        rr.bad_shape(cl, cl.node, "gradient stop records are not read (ColorStop is not a list of dict records over the gradient's stops)", construct="_ufoColorLine: PaletteIndex/Alpha")
    elif sk.get("PaletteIndex") == f"{sv}.color.opaque().index_from(colors)" and sk.get("Alpha") == f"{sv}.color.alpha":
        rr.ok("gradient stops: PaletteIndex from the opaque colour, Alpha carried by the stop")
    else:
        rr.bad(cl, cl.node, "gradient stop look-up/alpha split disagrees with the opaque palette", construct="_ufoColorLine: PaletteIndex/Alpha")
    # the same palette object reaches every look-up
    u = find_calls(fi, "_ufo_colr_layers")
    if len(u) == 1 and norm(u[0].args[1]) == norm(_assigned_name(fi, us[0])):
        rr.ok("the list returned by uniq_sort_cpal_colors is the one every look-up uses and the one written to CPAL")
    else:
        rr.bad(fi, fi.node, "look-ups use a different colour list than the one written to CPAL", construct="_colr_ufo: colors threading")
    pal = [st for st in walk_body(fi) if isinstance(st, ast.Assign) and "COLOR_PALETTES_KEY" in norm(st.targets[0])]
    if pal and "c.to_ufo_color() for c in colors" in norm(pal[0].value):
        rr.ok("CPAL palette = [to_ufo_color(c) for c in colors] (one palette, same order)")
    else:
        rr.bad(fi, fi.node, "the palette written to the UFO is not the look-up list in order", construct="_colr_ufo: COLOR_PALETTES_KEY")
    tu = model.func("colors", "Color.to_ufo_color")
    rt = [st for st in walk_body(tu) if isinstance(st, ast.Return)]
    if rt and isinstance(rt[0].value, ast.Tuple) and len(rt[0].value.elts) == 4 and norm(rt[0].value.elts[3]) == "self.alpha" and \
            ["red", "green", "blue"] == [("red" if "self.red" in norm(e) else "green" if "self.green" in norm(e) else "blue" if "self.blue" in norm(e) else "?") for e in rt[0].value.elts[:3]]:
        rr.ok("to_ufo_color = (r, g, b, alpha) in that order")
    else:
        rr.bad(tu, tu.node, "to_ufo_color does not emit (red, green, blue, alpha)", construct="Color.to_ufo_color")


def _assigned_name(fi, call) -> Optional[ast.AST]:
    for st in walk_body(fi):
        if isinstance(st, ast.Assign) and st.value is call:
            return st.targets[0]
    return None


@RULES.rule("C15", "R15a", "palette normalisation at build time = normalisation at every look-up; alpha split", floor=8)
def r15a(model: Model, rr: RuleResult):
    palette_normalisation(model, rr)
    # the colours the palette is built from: every paint of the tree is asked, not a chosen kind of paint
    cg = model.func("color_glyph", "ColorGlyph.colors")
    ups = [c for c in calls_in(cg, nested=True) if callee_tail(c) == "update" and c.args and isinstance(c.args[0], ast.Call) and callee_tail(c.args[0]) == "colors"]
    if len(ups) == 1:
        guards = [x for x in ast.walk(cg.node) if isinstance(x, (ast.If, ast.IfExp)) and any(y is ups[0] for y in ast.walk(x))]
        if guards:
            rr.bad(cg, guards[0], f"ColorGlyph.colors() only collects colours of paints for which `{short(guards[0].test, 60)}`: colours that other paints carry (the black backdrop of a group "
                   f"opacity PaintComposite, which COLRv1 emits as PaintSolid and looks up) are missing from the palette and the look-up fails or hits another entry",
                   construct="ColorGlyph.colors: paints filtered by kind")
        else:
            rr.ok("ColorGlyph.colors() unions paint.colors() over every paint of the tree")
    else:
        rr.bad_shape(cg, cg.node, "ColorGlyph.colors() does not union paint.colors() over the tree", construct="ColorGlyph.colors")


@RULES.rule("C15", "R15b", "foreground colour is excluded from the palette by the predicate index_from short-circuits on", floor=4)
def r15b(model: Model, rr: RuleResult):
    fi = model.func("write_font", "_colr_ufo")
    us = find_calls(fi, "uniq_sort_cpal_colors")
    from ..dataflow import flatten_generator
    _pcfg = cfg_of(fi)
    gen = flatten_generator(_pcfg, _pcfg.node_for(us[0]), us[0].args[0]) if len(us) == 1 and us[0].args else None
    if not isinstance(gen, (ast.GeneratorExp, ast.ListComp)):
        raise AnalysisError("_colr_ufo: uniq_sort_cpal_colors(<generator>) not found")
    conds = [norm(c) for g in gen.generators for c in g.ifs]
    var = norm(gen.generators[-1].target)
    if conds == [f"not {var}.is_current_color()"]:
        rr.ok("palette excludes exactly the colours for which is_current_color()")
    else:
        rr.bad(fi, gen, f"palette filter is {conds}", construct=f"palette filter {conds}")
    ifn = model.func("colors", "Color.index_from")
    from ..guards import return_cases
    cases = return_cases(ifn)
    ffff = [(v, f) for v, f in cases if v is not None and norm(v) in ("65535", "0xFFFF")]
    early = [(v, f) for v, f in cases if v is not None and norm(v) not in ("65535", "0xFFFF")
             and not any(pol is False and ("is_current_color" in t or "current_color" in t or ".red" in t) for t, pol in f)]
    late_fg = [(v, f) for v, f in ffff if f and f[-1][1] is True and len(f) > 1]
    if early and late_fg:
        rr.bad(ifn, early[0][0], f"index_from returns `{short(early[0][0], 40)}` (under {early[0][1]}) BEFORE it asks whether the colour is the foreground colour: var(--colorN, currentColor) "
               f"parses to the currentColor sentinel that also carries palette_index N, so it gets palette slot N instead of 0xFFFF", construct="Color.index_from: an index is returned before the foreground test")
    elif ffff and all(f == [("self.is_current_color()", True)] for v, f in ffff):
        rr.ok("index_from returns 0xFFFF exactly when is_current_color()")
    elif ffff and any(not f for v, f in ffff):
        rr.bad(ifn, ifn.node, "index_from maps every colour to 0xFFFF", construct="Color.index_from: foreground")
    else:
        rr.bad_shape(ifn, ifn.node, "index_from does not map the foreground colour (and only it) to 0xFFFF", construct="Color.index_from: foreground")
    other = [(v, f) for v, f in cases if (v, f) not in ffff]
    if other and all(v is not None and norm(v) == "palette.index(self)" for v, f in other) and all(f in ([], [("self.is_current_color()", False)]) for v, f in other):
        rr.ok("every other colour resolves through palette.index(self) (raises when absent)")
    else:
        rr.bad_shape(ifn, ifn.node, "non-foreground colours do not resolve through palette.index(self)", construct="Color.index_from: lookup")
    ic = model.func("colors", "Color.is_current_color")
    cc = model.func("colors", "Color.current_color")
    if "self[:3] == self.current_color()[:3]" in norm(ic.body[-1]) and "cls(-1, -1, -1, alpha=alpha)" in norm(cc.body[-1]):
        rr.ok("currentColor sentinel = (-1,-1,-1), compared on RGB only (alpha free)")
    else:
        rr.bad(ic, ic.node, "currentColor sentinel / predicate changed", construct="Color.is_current_color / current_color")
    fs = model.func("colors", "Color.fromstring")
    cfg2 = cfg_of(fs)
    cur = [st for st in walk_body(fs) if isinstance(st, ast.Return) and "current_color" in norm(st.value)]
    if cur and ("s == 'currentColor'", True) in [(norm(e), pol) for e, pol in guard_facts(cfg2, cfg2.node_for(cur[0]))]:
        rr.ok("fromstring('currentColor') yields the sentinel")
    else:
        rr.bad(fs, fs.node, "'currentColor' is not parsed into the foreground sentinel", construct="Color.fromstring: currentColor")


@RULES.rule("C15", "R15c", "palette conflicts raise, the palette is never empty, every colour is placed, iteration is sorted", floor=6)
def r15c(model: Model, rr: RuleResult):
    fi = model.func("colors", "uniq_sort_cpal_colors")
    cfg = cfg_of(fi)
    raises = [st for st in walk_body(fi) if isinstance(st, ast.Raise)]
    ok = False
    from ..guards import canon_facts
    for st in raises:
        facts = canon_facts(cfg, cfg.node_for(st))
        if ("color.palette_index is not None", True) in facts and ("color.palette_index in indexed_colors", True) in facts:
            ok = True
    store = [s2 for s2 in ast.walk(fi.node) if isinstance(s2, ast.Assign) and norm(s2.targets[0]) == "indexed_colors[color.palette_index]" and norm(s2.value) == "color"]
    if ok and store:
        rr.ok("two different colours declared for one palette index raise ValueError")
    else:
        rr.bad_shape(fi, fi.node, "conflicting explicit palette indices are no longer rejected", construct="uniq_sort_cpal_colors: conflict check")
    emp = [st for st in walk_body(fi) if isinstance(st, ast.If) and norm(st.test) == "not all_colors"]
    if emp and any(isinstance(b, ast.Assign) and norm(b.targets[0]) == "all_colors" and "black" in norm(b.value) for b in emp[0].body):
        rr.ok("an empty colour set is replaced by {black}: the palette is never empty")
    else:
        rr.bad_shape(fi, fi.node, "the empty-palette guard is gone", construct="uniq_sort_cpal_colors: empty input")
    a = [st for st in walk_body(fi) if isinstance(st, ast.Assert) and norm(st.test) == "not cpal_colors"]
    if a:
        rr.ok("assert: every colour was placed (work queue empty at the end)")
    else:
        rr.bad(fi, fi.node, "the final 'all colours placed' assertion is gone: a skipped colour would be dropped silently", construct="uniq_sort_cpal_colors: final assert")
    dq = [c for c in calls_in(fi) if norm(c.func) == "deque"]
    if dq and isinstance(dq[0].args[0], ast.Call) and norm(dq[0].args[0].func) == "sorted" and norm(dq[0].args[0].args[0]) == "all_colors" and kwarg(dq[0].args[0], "key") is not None:
        rr.ok("slot assignment iterates sorted(all_colors, key=...) (deterministic)")
    else:
        rr.bad(fi, fi.node, "slot assignment no longer iterates a sorted sequence of the colour set", construct="uniq_sort_cpal_colors: deque(sorted(...))")
    sl = [st for st in walk_body(fi) if isinstance(st, ast.Assign) and norm(st.targets[0]) == "cpal_slots"]
    if sl and norm(sl[0].value) == "max(len(all_colors), max(indexed_colors, default=-1) + 1)":
        rr.ok("slot count = max(#colours, highest explicit index + 1)")
    else:
        rr.bad_shape(fi, fi.node, "slot count is not max(#colours, highest explicit index + 1): an indexed colour may fall outside the palette", construct=f"cpal_slots = {short(sl[0].value) if sl else None}")
    res = [st for st in walk_body(fi) if isinstance(st, ast.Assign) and norm(st.targets[0]) == "result"]
    if res and norm(res[0].value) == "[black] * cpal_slots":
        rr.ok("unfilled gaps are black")
    else:
        rr.bad(fi, fi.node, "gaps are not initialised to black", construct="uniq_sort_cpal_colors: result initialisation")
    # fill loop: indexed colours only at their own index; unindexed taken from the other end
    loop = [st for st in walk_body(fi) if isinstance(st, ast.For) and norm(st.iter) == "range(cpal_slots)"]
    good = False
    if loop and len(loop[0].body) == 1 and isinstance(loop[0].body[0], ast.If):
        i1 = loop[0].body[0]
        t1 = norm(i1.test)
        b1 = " ".join(norm(x) for x in i1.body)
        i2 = i1.orelse[0] if len(i1.orelse) == 1 and isinstance(i1.orelse[0], ast.If) else None
        if t1 in ("i == cpal_colors[0].palette_index", "cpal_colors[0].palette_index == i") and b1 == "result[i] = cpal_colors.popleft()" and i2 is not None \
                and norm(i2.test) == "cpal_colors[-1].palette_index is None" and " ".join(norm(x) for x in i2.body) == "result[i] = cpal_colors.pop()" and not i2.orelse:
            good = True
    if good:
        rr.ok("fill loop: slot i takes the indexed colour whose index is i (from the left), else the next unindexed colour (from the right), else stays black")
    else:
        rr.bad_shape(fi, loop[0] if loop else fi.node, "the slot-filling loop no longer places indexed colours at their own index / unindexed ones in free slots",
               construct="uniq_sort_cpal_colors: fill loop shape")
    key = fi.module.functions.get("uniq_sort_cpal_colors._color_sort_key")
    if key is not None:
        t = " ".join(norm(s) for s in key.body)
        if "return (c.palette_index,)" in t and any(x in t for x in ("return (cpal_slots,) + tuple((-v for v in c[:4]))", "return (cpal_slots, *(-v for v in c[:4]))",
                                                                     "return (cpal_slots, *[-v for v in c[:4]])", "return (cpal_slots, -c[0], -c[1], -c[2], -c[3])")):
            rr.ok("sort key: indexed colours by index (left), unindexed after them by descending RGBA (popped from the right in ascending order)")
        else:
            rr.bad_shape(key, key.node, "the colour sort key changed: indexed colours must sort by index before all unindexed ones", construct="_color_sort_key")
    # var(--colorN, c) parsing
    fs = model.func("colors", "Color.fromstring")
    fcfg = cfg_of(fs)
    var_rets = []
    for st in walk_body(fs):
        if isinstance(st, ast.Return) and st.value is not None:
            facts = [norm(e) for e, pol in guard_facts(fcfg, fcfg.node_for(st)) if pol]
            if "m" in facts:
                var_rets.append(st)
    if len(var_rets) != 1:
        raise AnalysisError("Color.fromstring: the var(--colorN, c) branch (`if m:` ... return) not found")
    _, vexprs = expr_closure(fcfg, fcfg.node_for(var_rets[0]), var_rets[0].value)
    reps = [c for e in vexprs for c in ast.walk(e) if isinstance(c, ast.Call) and callee_tail(c) == "_replace" and kwarg(c, "palette_index") is not None]
    ok = False
    for c in reps:
        _, pe = expr_closure(fcfg, fcfg.node_for(var_rets[0]), kwarg(c, "palette_index"))
        from ..dataflow import resolved as _r15, fold_tuples as _f15
        rv = norm(_f15(_r15(fcfg, fcfg.node_for(var_rets[0]), kwarg(c, "palette_index"))))
        if any("int(m.group(1))" in norm(x) for x in pe) or rv in ("int(m.group(1))", "int(m.groups()[0])", "int(m[1])") \
                or __import__("re").match(r"^int\(.*_COLOR_VARIABLE_RE\.(match|fullmatch)\(.*\)(\.group\(1\)|\.groups\(\)\[0\]|\[1\])\)$", rv):
            ok = True
    if ok:
        rr.ok("var(--colorN, c): N becomes palette_index of the fallback colour c")
    else:
        mentions = any("palette_index" in norm(e) for e in vexprs)
        if not reps and not mentions:
            rr.bad(fs, var_rets[0], "var(--colorN, c) no longer records N as the palette index", construct="Color.fromstring: var(--colorN)")
        else:
            rr.bad_shape(fs, var_rets[0], "var(--colorN, c) no longer records N as the palette index", construct="Color.fromstring: var(--colorN)")


@RULES.rule("C15", "R15d", "Color.opaque() changes alpha only (palette index and RGB are kept)", floor=1)
def r15d(model: Model, rr: RuleResult):
    fi = model.func("colors", "Color.opaque")
    cls_fields = [f for f, _, _ in model.mod("colors").cls("Color").fields]
    from ..guards import return_cases
    cases = [(v, f) for v, f in return_cases(fi) if v is not None]
    if not cases:
        raise AnalysisError("Color.opaque: no return")
    for v, facts in cases:
        st = v
        if isinstance(v, ast.Name) and v.id == "self":
            if any(pol and t.replace(" ", "") in ("self.alpha==1.0", "1.0==self.alpha", "self.alpha==1", "self.alpha>=1.0") for t, pol in facts):
                rr.ok("opaque(): returns self when alpha is already 1.0")
            else:
                rr.bad(fi, st, "opaque() returns self without establishing alpha == 1.0", construct=short(st))
        elif isinstance(v, ast.Call) and callee_tail(v) in ("_replace", "replace") and ("self" in norm(v.func) or (v.args and norm(v.args[0]) == "self")):
            kws = {k.arg: norm(k.value) for k in v.keywords}
            if set(kws) == {"alpha"} and kws["alpha"] in ("1.0", "1"):
                rr.ok("opaque() = self with alpha replaced by 1.0 (every other field, incl. palette_index, kept)")
            else:
                rr.bad(fi, st, f"opaque() replaces {sorted(kws)}: only alpha may change (a lost palette_index moves the colour to another CPAL slot)", construct=short(st))
        elif isinstance(v, ast.Call) and norm(v.func) in ("Color", "cls", "type(self)", "self.__class__"):
            given = {}
            for i, a in enumerate(v.args):
                if i < len(cls_fields):
                    given[cls_fields[i]] = norm(a)
            for k in v.keywords:
                given[k.arg] = norm(k.value)
            miss = [f for f in cls_fields if f != "alpha" and given.get(f) != f"self.{f}"]
            if miss:
                rr.bad(fi, st, f"opaque() rebuilds the colour without carrying over {miss}: a translucent var(--colorN, c) loses its declared palette index N",
                       construct=f"{short(st)} drops {miss}")
            else:
                rr.ok("opaque() rebuilds the colour with every field but alpha carried over")
        else:
            raise AnalysisError(f"Color.opaque: return {short(v)} outside the enumerated idioms")
    wp = model.func("colors", "Color.without_palette_index")
    if any("_replace(palette_index=None)" in norm(st) for st in walk_body(wp)):
        rr.ok("without_palette_index() is the only method that drops the index")


@RULES.rule("C15", "R15e", "opacity handed to Color.fromstring reaches the colour on every branch; colours rebuilt from components keep their palette index", floor=4)
def r15e(model: Model, rr: RuleResult):
    from ..dataflow import param_closure
    fs = model.func("colors", "Color.fromstring")
    fcfg = cfg_of(fs)
    if "alpha" not in fs.params:
        raise AnalysisError("Color.fromstring: parameter alpha not found")
    for st in walk_body(fs):
        if isinstance(st, ast.Return) and st.value is not None:
            if "alpha" in param_closure(fcfg, fcfg.node_for(st), st.value):
                rr.ok(f"fromstring: `{short(st, 70)}` carries the caller's alpha (shape opacity)")
            else:
                rr.bad(fs, st, f"`{short(st, 70)}` ignores the alpha argument: the opacity of the shape (passed in by color_glyph._paint_glyph) is lost for this "
                       f"kind of colour string — the paint is emitted fully opaque", construct=f"Color.fromstring: {short(st, 60)} independent of alpha")
    # colours rebuilt from another colour's components (outside colors.py's own parsers and the COLR->SVG direction)
    fields = [f for f, _, _ in model.mod("colors").cls("Color").fields]
    for mname in ("color_glyph", "paint", "svg", "write_font", "glyph_reuse"):
        mod = model.mod(mname)
        for fi in mod.functions.values():
            if "." in fi.qualname and fi.qualname.rsplit(".", 1)[0] in mod.functions:
                continue
            for c in calls_in(fi, nested=True):
                if norm(c.func) not in ("Color", "colors.Color"):
                    continue
                rgb = c.args[:3]
                if len(rgb) == 3 and all(isinstance(a, ast.Constant) for a in rgb):
                    rr.ok(f"{mname}.{fi.qualname}: {short(c, 50)} is a fresh constant colour")
                    continue
                given = set(fields[: len(c.args)]) | {k.arg for k in c.keywords}
                if "palette_index" in given:
                    rr.ok(f"{mname}.{fi.qualname}: {short(c, 50)} passes palette_index")
                else:
                    rr.bad(fi, c, f"{short(c, 70)} rebuilds a colour from components without its palette_index: a var(--colorN, c) colour that goes through here "
                           f"becomes an ordinary unindexed colour (use _replace to change single fields)", construct=f"{fi.qualname}: {short(c, 60)} without palette_index")
