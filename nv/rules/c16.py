"""C16 — specialised transform paints denote exactly the affine they replace; narrow fields are guarded."""
from __future__ import annotations

import ast
from typing import Dict, List, Optional, Set, Tuple

from .. import otspec
from ..cfg import cfg_of
from ..dataflow import expr_closure
from ..fold import Folder, Unfoldable
from ..guards import fact_calls, guard_facts, guarded_names, same_defs
from ..model import (AnalysisError, Model, calls_in, callee_tail, const_value, find_calls, kwarg, names_in, norm, short,
                     walk_body, walk_no_nested)
from ..paintmodel import PaintClass, extract
from ..report import RULES, RuleResult

# OpenType scalar types -> (lo, hi) and the predicate of fixed.py that must guard them
TYPE_RANGE = {
    "int16": (-32768, 32767),
    "uint16": (0, 65535),
    "F2Dot14": (-2.0, 32767 / 16384),
    "Fixed": (-32768, (2 ** 31 - 1) / 65536),
}
TYPE_PRED = {"int16": "int16_safe", "F2Dot14": "f2dot14_safe", "Fixed": "fixed_safe"}
FIELD_TO_OT = {"center": ("centerX", "centerY")}


def paint_record(fmt_name: str):
    fmts = otspec.paint_formats()
    if fmt_name not in fmts:
        return None
    return otspec.fields_by_name("Paint", fmts[fmt_name])


def _components(fi) -> Dict[str, str]:
    """local variable -> affine component letter, from `sx, b, c, sy, dx, dy = transform`."""
    tparam = fi.params[0]
    for st in walk_body(fi):
        if isinstance(st, ast.Assign) and isinstance(st.targets[0], ast.Tuple) and norm(st.value) == tparam:
            elts = st.targets[0].elts
            if len(elts) == 6 and all(isinstance(e, ast.Name) for e in elts):
                comp = {e.id: "ABCDEF"[i] for i, e in enumerate(elts)}
                # plain aliases (x = y with a single definition of x) denote the same component
                cfg = cfg_of(fi)
                changed = True
                while changed:
                    changed = False
                    for s2 in walk_body(fi):
                        if isinstance(s2, ast.Assign) and len(s2.targets) == 1 and isinstance(s2.targets[0], ast.Name) \
                                and isinstance(s2.value, ast.Name) and s2.value.id in comp and s2.targets[0].id not in comp \
                                and len(cfg.all_defs(s2.targets[0].id)) == 1:
                            comp[s2.targets[0].id] = comp[s2.value.id]
                            changed = True
                return comp
    raise AnalysisError("transformed: 6-way unpack of the transform not found")


def _eq_facts(facts, comp: Dict[str, str]) -> Set[str]:
    """Equalities 'X==k' that hold, from tuple/scalar == comparisons with positive polarity (or != with negative)."""
    out = set()

    def val(e):
        if isinstance(e, ast.Name) and e.id in comp:
            return comp[e.id]
        if isinstance(e, ast.Constant) and isinstance(e.value, (int, float)):
            return repr(float(e.value))
        return None

    for e, pol in facts:
        if isinstance(e, ast.Compare) and len(e.ops) == 1:
            is_eq = isinstance(e.ops[0], ast.Eq) and pol or isinstance(e.ops[0], ast.NotEq) and not pol
            if not is_eq:
                continue
            l, r = e.left, e.comparators[0]
            pairs = []
            if isinstance(l, ast.Tuple) and isinstance(r, ast.Tuple) and len(l.elts) == len(r.elts):
                pairs = list(zip(l.elts, r.elts))
            else:
                pairs = [(l, r)]
            for a, b in pairs:
                va, vb = val(a), val(b)
                if va and vb:
                    if va in "ABCDEF":
                        out.add(f"{va}=={vb}")
                    if vb in "ABCDEF":
                        out.add(f"{vb}=={va}")
    return out


@RULES.rule("C16", "R16a", "narrow transform-paint fields are guarded and each specialised paint is built from the right components", floor=12)
def r16a(model: Model, rr: RuleResult):
    fi = model.func("paint", "transformed")
    cfg = cfg_of(fi)
    classes = extract(model)
    comp = _components(fi)
    inv = {v: k for k, v in comp.items()}
    tparam = fi.params[0]
    returns = [st for st in walk_body(fi) if isinstance(st, ast.Return) and isinstance(st.value, ast.Call)]
    seen_classes = set()
    for ret in returns:
        call = ret.value
        cname = norm(call.func)
        if cname not in classes:
            continue
        seen_classes.add(cname)
        pc = classes[cname]
        rec = paint_record(pc.format_name or cname)
        if rec is None:
            raise AnalysisError(f"no otData record for {cname}")
        at = cfg.node_for(ret)
        facts = guard_facts(cfg, at)
        if cname in ("PaintRotate", "PaintRotateAroundCenter"):
            # sx == sy and b == -c hold for every similarity (rotation x uniform scale); only a test of the magnitude (or a comparison with the rebuilt rotation)
            # singles out the pure rotations, and an angle alone cannot carry a scale
            seen_exprs = []
            for e_, _pol in facts:
                seen_exprs += [norm(x) for x in expr_closure(cfg, at, e_)[1]]
            magnitude = [t_ for t_ in seen_exprs if any(k_ in t_ for k_ in ("hypot", "** 2", "**2", "sx * sx", "sx * sy", "determinant", ".rotate(", "getscale", "decompose_scale", "norm(", "sqrt"))]
            if magnitude:
                rr.unknown(f"{cname}: emitted under a test of the magnitude ({short(ast.parse(magnitude[0], mode='eval').body, 50)}); the rule table has no reading for rotations")
            else:
                rr.bad(fi, call, f"{cname} is returned under tests that never look at the magnitude of the matrix ({[norm(e_)[:40] for e_, _p in facts][-3:]}): equal diagonal and opposite "
                       f"off-diagonal entries describe every rotation COMBINED WITH a uniform scale, and the angle alone drops the scale: a shape reused rotated and scaled is painted at the donor's size",
                       construct=f"transformed: {cname} emitted without a unit-scale test")
            continue
        eqs = _eq_facts(facts, comp)
        if call.args:
            raise AnalysisError(f"transformed: {cname}(...) uses positional arguments (idiom not enumerated)")
        kws = {k.arg: k.value for k in call.keywords}
        if cname == "PaintTransform":
            # wide fallback: Fixed fields; caller-side fixed_safe is checked by R06b
            t = kws.get("transform")
            if t is None or tparam not in names_in(t):
                rr.bad(fi, call, "PaintTransform fallback does not carry the transform being encoded", construct=short(call))
            else:
                rr.ok("fallback PaintTransform(transform=tuple(transform)) carries the whole affine (Fixed fields; range checked by callers, R06b)")
            continue
        # --- range guards from otData field types -----------------------------------------
        for fname, val in kws.items():
            if fname in pc.paint_fields():
                continue
            otnames = FIELD_TO_OT.get(fname, (fname,))
            for on in otnames:
                f = rec.get(on)
                if f is None:
                    rr.bad(fi, call, f"{cname}.{fname} has no otData field '{on}' in PaintFormat{otspec.paint_formats()[pc.format_name]}",
                           construct=f"{cname}({fname}=...)")
                    continue
                pred = TYPE_PRED.get(f.type)
                if pred is None:
                    raise AnalysisError(f"{cname}.{on}: unexpected otData type {f.type}")
                if isinstance(val, ast.Name):
                    vds = cfg.reaching(at, val.id)
                    if len(vds) == 1 and isinstance(vds[0].value, ast.Call) and norm(vds[0].value.func) == "Point" and cfg.dominates(vds[0].node, at):
                        val = vds[0].value  # a named temporary for Point(cx, cy)
                vnames = {n for n in names_in(val) if n not in ("Point",)}
                covered = guarded_names(facts, pred)
                stale = [n for c in fact_calls(facts, pred) for n in names_in(c) & vnames
                         if not same_defs(cfg, cfg.node_for(c), at, n)]
                if vnames and vnames <= covered and not stale:
                    rr.ok(f"{cname}.{on}: {f.type} <- {short(val)} guarded by {pred}({', '.join(sorted(vnames))})")
                else:
                    rr.bad_shape(fi, call, f"{cname}.{on} is an OpenType {f.type} but {short(val)} is stored without a dominating "
                           f"{pred}(...) on {sorted(vnames - covered) or sorted(vnames)}: an out-of-range value would wrap or fail at compile time",
                           construct=f"return {cname}(...{fname}={short(val)}...) unguarded {on}")
        # --- semantic preconditions ----------------------------------------------------------
        def var_is(e, letter):
            return isinstance(e, ast.Name) and comp.get(e.id) == letter

        if cname == "PaintTranslate":
            ok_vars = var_is(kws.get("dx"), "E") and var_is(kws.get("dy"), "F")
            pure = {"A==1.0", "B==0.0", "C==0.0", "D==1.0"} <= eqs
            for e, pol in facts:
                if pol and isinstance(e, ast.Compare) and isinstance(e.ops[0], ast.Eq):
                    sides = [e.left, e.comparators[0]]
                    txt = [norm(s) for s in sides]
                    if tparam in txt:
                        other = sides[1 - txt.index(tparam)]
                        if isinstance(other, ast.Call) and callee_tail(other) == "translate" and "identity" in norm(other.func) \
                                and len(other.args) == 2 and var_is(other.args[0], "E") and var_is(other.args[1], "F"):
                            pure = True
            if ok_vars and pure:
                rr.ok("PaintTranslate(dx=e, dy=f) only when the affine is the pure translation by (e, f)")
            else:
                rr.bad(fi, call, "PaintTranslate is emitted without establishing that the affine is the pure translation by "
                       "its own (dx, dy) components", construct=short(ret))
        if cname.startswith("PaintScale"):
            need = {"B==0.0", "C==0.0"}
            if "AroundCenter" not in cname:
                need |= {"E==0.0", "F==0.0"}
            miss = need - eqs
            if miss:
                rr.bad(fi, call, f"{cname} is emitted without the dominating condition(s) {sorted(miss)} "
                       f"(A..F = xx,yx,xy,yy,dx,dy): skew/rotation or translation would be dropped", construct=short(ret))
            else:
                rr.ok(f"{cname}: conditions {sorted(need)} dominate")
            if "Uniform" in cname:
                s = kws.get("scale")
                uni = any(pol and isinstance(e, ast.Call) and callee_tail(e) == "almost_equal"
                          and {comp.get(n) for n in names_in(e)} >= {"A", "D"} for e, pol in facts) or \
                    any(pol and isinstance(e, ast.Compare) and isinstance(e.ops[0], ast.Eq)
                        and {comp.get(n) for n in names_in(e)} >= {"A", "D"} for e, pol in facts)
                if uni and (var_is(s, "A") or var_is(s, "D")):
                    rr.ok(f"{cname}(scale={short(s)}) under sx ~ sy")
                else:
                    rr.bad(fi, call, f"{cname} must store the x or y scale and only when both are (almost) equal", construct=short(ret))
            else:
                if var_is(kws.get("scaleX"), "A") and var_is(kws.get("scaleY"), "D"):
                    rr.ok(f"{cname}(scaleX=a, scaleY=d)")
                else:
                    rr.bad(fi, call, f"{cname}: scaleX/scaleY are not the xx/yy components of the affine", construct=short(ret))
            if "AroundCenter" in cname:
                c = kws.get("center")
                if isinstance(c, ast.Name):
                    cds = cfg.reaching(at, c.id)
                    if len(cds) == 1 and cds[0].value is not None:
                        c = cds[0].value
                if not (isinstance(c, ast.Call) and len(c.args) == 2 and all(isinstance(a, ast.Name) for a in c.args)):
                    raise AnalysisError(f"{cname}: center is not Point(cx, cy)")
                from ..dataflow import inline_new_helpers
                import types as _types
                for a, (tr, sc) in zip(c.args, (("E", "A"), ("F", "D"))):
                    defs = [(_types.SimpleNamespace(value=inline_new_helpers(d.value, fi) if d.value is not None else None, node=d.node)) for d in cfg.reaching(at, a.id)]
                    good = bool(defs)
                    def is_div(v):
                        return isinstance(v, ast.BinOp) and isinstance(v.op, ast.Div) and var_is(v.left, tr) and isinstance(v.right, ast.BinOp) \
                            and isinstance(v.right.op, ast.Sub) and norm(v.right.left) == "1" and var_is(v.right.right, sc)

                    def nonunit_test(t, want_true=True):
                        # `s != 1` (or its mirror / negated `s == 1`)
                        if isinstance(t, ast.Compare) and len(t.ops) == 1 and {comp.get(n) for n in names_in(t)} == {sc} and "1" in norm(t):
                            return isinstance(t.ops[0], ast.NotEq) if want_true else isinstance(t.ops[0], ast.Eq)
                        return False
                    for d in defs:
                        v = d.value
                        if isinstance(v, ast.Constant) and v.value == 0:
                            continue
                        if isinstance(v, ast.IfExp):
                            # cx = d / (1 - s) if s != 1 else 0   (or the mirrored spelling)
                            if nonunit_test(v.test, True) and is_div(v.body) and isinstance(v.orelse, ast.Constant) and v.orelse.value == 0:
                                continue
                            if nonunit_test(v.test, False) and is_div(v.orelse) and isinstance(v.body, ast.Constant) and v.body.value == 0:
                                continue
                            good = False
                            continue
                        if isinstance(v, ast.BinOp) and isinstance(v.op, ast.Div) and var_is(v.left, tr) and isinstance(v.right, ast.BinOp) \
                                and isinstance(v.right.op, ast.Sub) and norm(v.right.left) == "1" and var_is(v.right.right, sc):
                            # the division must be guarded by s != 1
                            dfacts = guard_facts(cfg, d.node)
                            nz = any((isinstance(e, ast.Compare) and {comp.get(n) for n in names_in(e)} == {sc}
                                      and "1" in norm(e) and ((isinstance(e.ops[0], ast.NotEq) and pol) or (isinstance(e.ops[0], ast.Eq) and not pol)))
                                     for e, pol in dfacts)
                            if not nz:
                                good = False
                            continue
                        good = False
                    if good:
                        rr.ok(f"{cname}: centre coordinate {a.id} = {inv[tr]}/(1-{inv[sc]}) (guarded {inv[sc]} != 1) or 0")
                    else:
                        rr.bad(fi, call, f"{cname}: centre coordinate {a.id} is not d/(1-s) of its own axis with s != 1 guarded",
                               construct=f"{cname} center {a.id}: " + "; ".join(short(d.value) for d in defs))
                # well-definedness (1==s) == (0==d) for both axes
                wd = 0
                for e, pol in facts:
                    # `A == B` known true, or `A != B` known false (the guard-clause spelling: `if A != B or ...: return <fallback>`)
                    if isinstance(e, ast.Compare) and len(e.ops) == 1 and isinstance(e.left, ast.Compare) and \
                            ((pol and isinstance(e.ops[0], ast.Eq)) or (not pol and isinstance(e.ops[0], ast.NotEq))):
                        letters = {comp.get(n) for n in names_in(e)}
                        if letters in ({"A", "E"}, {"D", "F"}):
                            wd += 1
                if wd >= 2:
                    rr.ok(f"{cname}: (1==s)==(0==d) holds on both axes")
                else:
                    rr.bad(fi, call, f"{cname}: translation on an axis with scale 1 would be silently dropped (no (1==s)==(0==d) test on both axes)",
                           construct=f"{short(ret)} missing well-definedness")
    for need in ("PaintTranslate", "PaintScale", "PaintScaleUniform", "PaintScaleAroundCenter", "PaintScaleUniformAroundCenter", "PaintTransform"):
        if need not in seen_classes:
            rr.unknown(f"transformed never returns {need}")
    # every path ends in a return of a Paint: the last statement is the PaintTransform fallback
    last = fi.body[-1]

    def always_returns(body) -> bool:
        if not body:
            return False
        t = body[-1]
        if isinstance(t, (ast.Return, ast.Raise)):
            return True
        if isinstance(t, ast.If) and t.orelse:
            return always_returns(t.body) and always_returns(t.orelse)
        return False

    def tail_returns(body):
        """the returns a block can end with (the statements control reaches when nothing earlier returned)"""
        t = body[-1]
        if isinstance(t, ast.Return):
            return [t]
        if isinstance(t, ast.If) and t.orelse:
            return tail_returns(t.body) + tail_returns(t.orelse)
        return []
    general = [r for r in (tail_returns(fi.body) if always_returns(fi.body) else []) if isinstance(r.value, ast.Call) and norm(r.value.func) == "PaintTransform"]
    if always_returns(fi.body) and general:
        rr.ok("every unmatched case falls through to PaintTransform")
    else:
        rr.bad(fi, last, "transformed does not end in the general PaintTransform fallback", construct=short(last))
    # identity shortcut must compare with identity
    first_ret = [st for st in walk_body(fi) if isinstance(st, ast.Return) and norm(st.value) == fi.params[1]]
    for st in first_ret:
        facts = guard_facts(cfg, cfg.node_for(st))
        if any(pol and isinstance(e, ast.Compare) and "identity" in norm(e) and tparam in norm(e) and isinstance(e.ops[0], ast.Eq) for e, pol in facts):
            rr.ok("target returned unwrapped only when transform == identity")
        else:
            rr.bad(fi, st, "the paint is returned unwrapped on a path where the transform is not known to be identity", construct=short(st))


@RULES.rule("C16", "R16b", "gradient overflow checks cover every coordinate with its otData range; apply_transform runs them", floor=14)
def r16b(model: Model, rr: RuleResult):
    # between computing the transformed gradient and checking it, the gradient is not adjusted: a coordinate that does not fit is an error, not something to re-derive
    lfi = model.func("paint", "PaintLinearGradient.apply_transform")
    lcfg = cfg_of(lfi)
    chk = [c for c in calls_in(lfi) if callee_tail(c) == "check_overflows"]
    rets = [st for st in walk_body(lfi) if isinstance(st, ast.Return) and isinstance(st.value, ast.Name)]
    for st in rets:
        defs = lcfg.reaching(lcfg.node_for(st), st.value.id)
        adjusted = [d for d in defs if d.value is not None and not (isinstance(d.value, ast.Call) and norm(d.value.func) == "dataclasses.replace" and d.value.args and norm(d.value.args[0]) == "self")]
        if adjusted:
            rr.bad(lfi, adjusted[0].stmt or st, f"PaintLinearGradient.apply_transform re-derives the transformed gradient (`{short(adjusted[0].value, 70)}`) instead of returning the image of p0, p1, p2 "
                   f"under the transform: under a non-similarity (non-uniform scale, skew) the image of p2 is not perpendicular to p0->p1, so the lines of constant colour turn; and a gradient "
                   f"that used to raise OverflowError (wider encoding / error) is now silently changed", construct="PaintLinearGradient.apply_transform: gradient adjusted after mapping")
        elif defs:
            rr.ok("PaintLinearGradient.apply_transform returns replace(self, p_i = transform.map_point(self.p_i)) unadjusted")
    classes = extract(model)
    fixed = model.mod("fixed")
    consts = {}
    for k, v in fixed.assigns.items():
        try:
            consts[k] = const_value(v, consts)
        except ValueError:
            pass
    want = {
        "PaintLinearGradient": {f"self.p{i}[{j}]": ("x%d" % i if j == 0 else "y%d" % i) for i in range(3) for j in range(2)},
        "PaintRadialGradient": {**{f"self.c{i}[{j}]": ("x%d" % i if j == 0 else "y%d" % i) for i in range(2) for j in range(2)},
                                **{f"self.r{i}": f"r{i}" for i in range(2)}},
    }
    for cname, syms in want.items():
        pc = classes.get(cname)
        if pc is None:
            raise AnalysisError(f"{cname} not found")
        co = pc.ci.methods.get("check_overflows")
        if co is None:
            rr.bad(pc.ci.module, pc.ci.node, f"{cname} has no check_overflows", construct=f"{cname}.check_overflows missing")
            continue
        folder = Folder(consts)
        try:
            folder.run(co.body, {})
        except Unfoldable as u:
            raise AnalysisError(f"{cname}.check_overflows: {u}")
        got = {s: (lo, hi) for s, lo, hi in folder.checks}
        rec = paint_record(cname)
        for sym, otname in syms.items():
            f = rec.get(otname)
            if f is None:
                raise AnalysisError(f"otData {cname} lacks {otname}")
            lo, hi = TYPE_RANGE[f.type]
            if sym not in got:
                rr.bad(co, co.node, f"{cname}.check_overflows never bounds {sym} (OpenType {otname}: {f.type}); an overflowing value "
                       f"reaches the compiler", construct=f"check_overflows: {sym} unchecked")
            elif got[sym][0] < lo or got[sym][1] > hi:
                rr.bad(co, co.node, f"{cname}.check_overflows bounds {sym} by [{got[sym][0]}, {got[sym][1]}], wider than {f.type} [{lo}, {hi}]",
                       construct=f"check_overflows: {sym} in [{got[sym][0]}, {got[sym][1]}]")
            else:
                rr.ok(f"{cname}: {sym} ({otname}: {f.type}) bounded by [{got[sym][0]}, {got[sym][1]}]")
        # apply_transform calls check_overflows on the object it returns/wraps unless told not to
        at = pc.ci.methods.get("apply_transform")
        if at is None:
            raise AnalysisError(f"{cname}.apply_transform missing")
        cfg = cfg_of(at)
        a = at.node.args
        flag = None
        for argn, d in zip([x.arg for x in a.args][-len(a.defaults):] if a.defaults else [], a.defaults):
            if argn == "check_overflows":
                flag = d
        if flag is None or norm(flag) != "True":
            rr.bad(at, at.node, f"{cname}.apply_transform: check_overflows does not default to True", construct="apply_transform(check_overflows default)")
        calls = find_calls(at, "check_overflows")
        okc = False
        for c in calls:
            facts = guard_facts(cfg, cfg.node_for(c))
            # only allowed condition: the flag itself
            conds = [norm(e) for e, pol in facts]
            if all(x == "check_overflows" for x in conds):
                recv = norm(c.func.value)
                # receiver must be what is returned (directly or wrapped)
                rets = [st for st in walk_body(at) if isinstance(st, ast.Return)]
                if rets and all(recv in names_in(r.value) for r in rets):
                    okc = True
        if okc:
            rr.ok(f"{cname}.apply_transform checks overflows of the gradient it returns unless check_overflows=False")
        else:
            rr.bad(at, at.node, f"{cname}.apply_transform does not run check_overflows() on the gradient it returns (under the flag only)",
                   construct=f"{cname}.apply_transform: check_overflows call")
    # callers that opt out
    allowed_modules = {"svg"}  # the OT-SVG writer: its output has no 16-bit fields, whichever of its functions makes the call
    n = 0
    for fi in model.all_functions():
        for c in calls_in(fi):
            if callee_tail(c) == "apply_transform":
                n += 1
                kv = kwarg(c, "check_overflows")
                if kv is not None and norm(kv) != "True":
                    if fi.module.name in allowed_modules:
                        rr.exceptions_used.append(f"{fi.fq}: opts out of overflow checks (SVG back end has no 16-bit fields)")
                        rr.ok(f"{fi.fq}: apply_transform(check_overflows=False) (reviewed: SVG output)")
                    else:
                        rr.bad(fi, c, "gradient transformed with overflow checking disabled on a path that feeds COLR", construct=short(c))
                else:
                    rr.ok(f"{fi.fq}: {short(c, 70)} keeps overflow checks")
    if n < 3:
        raise AnalysisError("fewer than 3 apply_transform call sites found")


@RULES.rule("C16", "R16c", "transform paint classes: gettransform reads, to_ufo_paint writes and otData fields agree", floor=20)
def r16c(model: Model, rr: RuleResult):
    classes = extract(model)
    fmts = otspec.paint_formats()
    lo, hi = fmts["PaintTransform"], fmts["PaintVarSkewAroundCenter"]
    for fname, num in sorted(fmts.items(), key=lambda kv: kv[1]):
        if not (lo <= num <= hi) or fname.startswith("PaintVar"):
            continue
        pc = classes.get(fname)
        if pc is None:
            rr.bad(model.mod("paint"), model.mod("paint").tree, f"no class {fname} in paint.py: Paint.from_ot fails (KeyError) on this format",
                   construct=f"paint.py: missing class {fname}")
            continue
        if pc.format_name != fname:
            rr.bad(pc.ci.module, pc.ci.node, f"{fname}.format is PaintFormat.{pc.format_name}", construct=f"{fname}.format = {pc.format_name}")
        else:
            rr.ok(f"{fname}.format == PaintFormat.{fname}")
        geo = set(pc.geometry_fields())
        if pc.gettransform_reads is None:
            rr.bad(pc.ci.module, pc.ci.node, f"{fname} does not define gettransform (inherits identity): its transform is ignored by "
                   f"breadth_first / colr_to_svg", construct=f"{fname}.gettransform missing")
        elif pc.gettransform_reads != geo:
            rr.bad(pc.gettransform_fn, pc.gettransform_fn.node, f"{fname}.gettransform reads {sorted(pc.gettransform_reads)} but the geometry fields are {sorted(geo)}",
                   construct=f"{fname}.gettransform reads {sorted(pc.gettransform_reads)}")
        else:
            rr.ok(f"{fname}.gettransform reads exactly {sorted(geo)}")
        rec = otspec.fields_by_name("Paint", num)
        # to_ufo_paint keys
        keys = set(pc.ufo_keys) - {"Format"}
        spec = set(rec) - {"PaintFormat"}
        if keys != spec:
            rr.bad(pc.ufo_fn, pc.ufo_fn.node, f"{fname}.to_ufo_paint keys {sorted(keys)} != otData PaintFormat{num} fields {sorted(spec)}",
                   construct=f"{fname}.to_ufo_paint keys {sorted(keys)}")
        else:
            rr.ok(f"{fname}.to_ufo_paint keys == otData PaintFormat{num} fields")
        # key wiring
        for k, v in pc.ufo_keys.items():
            if k in ("Format", "Paint"):
                continue
            s = norm(v)
            if k in ("centerX", "centerY"):
                want = f"self.center[{0 if k.endswith('X') else 1}]"
            elif k == "Transform":
                want = "self.transform"
            else:
                want = f"self.{k}"
            if s != want:
                rr.bad(pc.ufo_fn, v, f"{fname}.to_ufo_paint stores {s} under '{k}' (expected {want})", construct=f"{fname}: '{k}': {s}")
            else:
                rr.ok(f"{fname}: '{k}' <- {want}")


@RULES.rule("C16", "R16e", "range predicates of fixed.py agree with the OpenType field ranges", floor=7)
def r16e(model: Model, rr: RuleResult):
    mod = model.mod("fixed")
    consts = {}
    for k, v in mod.assigns.items():
        try:
            consts[k] = const_value(v, consts)
        except ValueError:
            pass
    expect = {"MIN_INT16": -32768, "MAX_INT16": 32767, "MIN_UINT16": 0, "MAX_UINT16": 65535,
              "MIN_F2DOT14": -2.0, "MAX_F2DOT14": 32767 / 16384, "MIN_FIXED": -32768, "MAX_FIXED": (2 ** 31 - 1) / 65536}
    for k, want in expect.items():
        if k not in consts:
            raise AnalysisError(f"fixed.{k} not a foldable constant")
        if consts[k] != want:
            rr.bad(mod, mod.assigns[k], f"fixed.{k} = {consts[k]} but the OpenType range bound is {want}", construct=f"{k} = {short(mod.assigns[k])}")
        else:
            rr.ok(f"{k} == {want}")
    preds = {"int16_safe": ("MIN_INT16", "MAX_INT16"), "f2dot14_safe": ("MIN_F2DOT14", "MAX_F2DOT14"), "fixed_safe": ("MIN_FIXED", "MAX_FIXED")}
    for p, (lo, hi) in preds.items():
        fi = mod.func(p)
        ret = [st for st in walk_body(fi) if isinstance(st, ast.Return)]
        if len(ret) != 1 or not (isinstance(ret[0].value, ast.Call) and norm(ret[0].value.func) == "all"):
            raise AnalysisError(f"fixed.{p}: expected 'return all(<genexp>)'")
        gen = ret[0].value.args[0]
        if not isinstance(gen, ast.GeneratorExp) or norm(gen.generators[0].iter) != fi.node.args.vararg.arg:
            raise AnalysisError(f"fixed.{p}: generator over *values expected")
        var = gen.generators[0].target.id
        found = False
        for c in ast.walk(gen.elt):
            if isinstance(c, ast.Compare) and len(c.ops) == 2 and all(isinstance(o, ast.LtE) for o in c.ops):
                if norm(c.left) == lo and norm(c.comparators[0]) == var and norm(c.comparators[1]) == hi:
                    found = True
        # the range test must be a conjunct of the element (not under 'or')
        if isinstance(gen.elt, ast.BoolOp) and isinstance(gen.elt.op, ast.Or):
            found = False
        if found:
            rr.ok(f"{p}: every value satisfies {lo} <= v <= {hi}")
        else:
            rr.bad(fi, ret[0], f"{p} does not require {lo} <= v <= {hi} of every value", construct=short(ret[0]))
    # int16_safe additionally demands integrality
    fi = mod.func("int16_safe")
    if any(isinstance(c, ast.Call) and callee_tail(c) == "almost_equal" and "int(" in norm(c) for c in calls_in(fi)):
        rr.ok("int16_safe demands integrality (almost_equal(v, int(v)))")
    else:
        rr.bad(fi, fi.node, "int16_safe no longer demands integrality: fractional offsets would be truncated in an int16 field",
               construct="int16_safe: integrality test")


@RULES.rule("C16", "R16d", "radial split typing: circles mapped by the uniform part only; the residual wraps the gradient (E4)", floor=8)
def r16d(model: Model, rr: RuleResult):
    from .spaces_common import report
    report(model, rr, [("paint", "PaintRadialGradient.apply_transform"), ("paint", "PaintLinearGradient.apply_transform")],
           "The uniform (circle-preserving) part must be applied to the circles and the residual must wrap the result, never the other way round")
    fi = model.func("paint", "PaintRadialGradient.apply_transform")
    t = " ".join(norm(st) for st in fi.body)
    cfg_r = cfg_of(fi)

    def is_uniform_part(e, at) -> bool:
        """e is the first component of _decompose_uniform_transform(transform): a name unpacked from it at position 0, or <name>[0] of a name bound to the call"""
        if isinstance(e, ast.Subscript) and isinstance(e.slice, ast.Constant) and e.slice.value == 0 and isinstance(e.value, ast.Name):
            ds = cfg_r.reaching(at, e.value.id)
            return bool(ds) and all(isinstance(d.value, ast.Call) and callee_tail(d.value) == "_decompose_uniform_transform" for d in ds)
        if isinstance(e, ast.Name):
            for st in walk_body(fi):
                if isinstance(st, ast.Assign) and isinstance(st.targets[0], ast.Tuple) and len(st.targets[0].elts) == 2 and norm(st.targets[0].elts[0]) == e.id \
                        and isinstance(st.value, ast.Call) and callee_tail(st.value) == "_decompose_uniform_transform":
                    return True
        return False
    gs = [st for st in walk_body(fi) if isinstance(st, ast.Assign) and isinstance(st.value, ast.Call) and callee_tail(st.value) == "getscale"
          and isinstance(st.targets[0], ast.Tuple) and norm(st.targets[0].elts[0]) == "sx"]
    if gs and is_uniform_part(gs[0].value.func.value, cfg_r.node_for(gs[0])) and "r0 = self.r0 * sx" in t and "r1 = self.r1 * sx" in t:
        rr.ok("radii are scaled by the uniform part's scale")
    else:
        rr.bad_shape(fi, fi.node, "radii are not scaled by the uniform transform's scale factor", construct="PaintRadialGradient.apply_transform: radii")
    d = model.func("paint", "_decompose_uniform_transform")
    rets = [st for st in walk_body(d) if isinstance(st, ast.Return)]
    from ..dataflow import resolved as _res16d
    dcfg = cfg_of(d)
    rv = rets[0].value if rets else None
    first_ok = second_ok = False
    if isinstance(rv, ast.Tuple) and len(rv.elts) == 2:
        first_ok = norm(_res16d(dcfg, dcfg.node_for(rets[0]), rv.elts[0])).startswith("Affine2D.compose_ltr((Affine2D(")
        second_ok = "decompose_translation()" in norm(_res16d(dcfg, dcfg.node_for(rets[0]), rv.elts[1]))
    if rets and (norm(rv) == "(uniform_transform, remaining_transform)" or (first_ok and second_ok)):
        rr.ok("_decompose_uniform_transform returns (uniform, remaining) in that order")
    else:
        rr.bad(d, d.node, "_decompose_uniform_transform no longer returns (uniform, remaining)", construct="_decompose_uniform_transform: return order")
    comp = [c for c in calls_in(d) if norm(c.func) == "Affine2D.compose_ltr"]
    txt = [norm(c.args[0]) for c in comp]
    if "(uniform_scale.inverse(), scale, remaining_transform)" in txt and "(uniform_scale, translate)" in txt:
        rr.ok("remaining = uniform_scale^-1 . scale . rest; uniform = uniform_scale then translate (so uniform . remaining = original)")
    else:
        rr.bad_shape(d, d.node, f"the decomposition no longer recomposes to the original transform (compositions: {txt})", construct="_decompose_uniform_transform: compositions")


FT_FIELD_MAP = {"centerX": "center[0]", "centerY": "center[1]", "Transform.xx": "transform[0]", "Transform.yx": "transform[1]", "Transform.xy": "transform[2]",
                "Transform.yy": "transform[3]", "Transform.dx": "transform[4]", "Transform.dy": "transform[5]"}


def fonttools_gettransform_branches():
    """PaintFormat name -> statements of the matching branch of fontTools' Paint.getTransform (the specification oracle)."""
    src = (otspec._tables_dir() / "otTables.py").read_text()
    tree = ast.parse(src)
    for cls in tree.body:
        if isinstance(cls, ast.ClassDef) and cls.name == "Paint":
            for fn in cls.body:
                if isinstance(fn, ast.FunctionDef) and fn.name == "getTransform":
                    out = {}
                    node = fn.body[0]
                    while isinstance(node, ast.If):
                        t = norm(node.test)
                        if t.startswith("self.Format == PaintFormat."):
                            out[t.split("PaintFormat.")[1]] = node.body
                        node = node.orelse[0] if len(node.orelse) == 1 else None
                    if len(out) < 10:
                        raise AnalysisError("fontTools Paint.getTransform: fewer than 10 branches parsed")
                    return out
    raise AnalysisError("fontTools Paint.getTransform not found")


@RULES.rule("C16", "R16f", "each transform paint's gettransform denotes the same affine as fontTools' Paint.getTransform (algebraic normal forms)", floor=10)
def r16f(model: Model, rr: RuleResult):
    from ..affsym import AffEval, same, show
    from ..fold import Unfoldable
    classes = extract(model)
    oracle = fonttools_gettransform_branches()
    for name, body in sorted(oracle.items()):
        pc = classes.get(name)
        if pc is None or pc.gettransform_fn is None:
            rr.bad(model.mod("paint"), model.mod("paint").tree, f"paint.{name} has no gettransform of its own although fontTools defines a transform for this format",
                   construct=f"paint.{name}.gettransform missing")
            continue
        try:
            want = AffEval(None, None, lambda f: FT_FIELD_MAP.get(f, f)).run(body)
        except Unfoldable as u:
            raise AnalysisError(f"fontTools getTransform branch {name}: {u}")
        try:
            got = AffEval(model, pc.gettransform_fn).run(pc.gettransform_fn.body)
        except Unfoldable as u:
            raise AnalysisError(f"paint.{name}.gettransform: {u}")
        diff = same(got, want)
        if diff is None:
            rr.ok(f"{name}.gettransform == fontTools getTransform: ({', '.join(show(x) for x in got)})")
        else:
            rr.bad(pc.gettransform_fn, pc.gettransform_fn.node, f"{name}.gettransform differs from the transform the format denotes (fontTools Paint.getTransform): {diff}. "
                   f"Everything that accumulates transforms while walking the paint tree (glyf components, COLRv0 composites, clip boxes, COLR->SVG) is displaced",
                   construct=f"{name}.gettransform: {diff}")
